#!/venv/bin/python
"""Entry point:  check.py <PROPERTY-ID> [--tier quick|thorough] [--replay PATH]

exit 0  property held on everything analysed (KNOWN-FINDING lines possible)
exit 1  VIOLATION property=<id> replay=<path>
exit 2  ANALYSIS-ERROR (the analysis could not be carried out; not a verdict)
"""
import os
import sys

sys.path.insert(0, os.path.dirname(os.path.abspath(__file__)))

from qsa.framework import main  # noqa: E402
from qsa.registry import REGISTRY  # noqa: E402

if __name__ == "__main__":
    sys.exit(main(sys.argv[1:], REGISTRY))
