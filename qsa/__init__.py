"""qsa — quimb static analysis engine (stdlib ``ast`` only).

Nothing in this package imports quimb or executes any repository code: every
verdict is computed from the syntax trees of ``/repo/quimb/**/*.py`` as they
are on disk when a check runs.
"""

import os

REPO = os.environ.get("QSA_REPO", "/repo")


class AnalysisError(Exception):
    """The analysis itself cannot be carried out (vanished anchor, parse
    error, vacuity floor not met, positive control not flagged). Reported as
    ``ANALYSIS-ERROR`` with exit status 2 — never as a violation and never as
    a pass."""
