"""A tiny constant interpreter for module-level tables.

Evaluates — without importing or running the module — the fragment of
module-level statements the repository uses to build its registries:
literals, names bound to literals, tuple/list/set/dict displays, unary minus,
simple arithmetic, ``|`` on sets/dicts, subscript loads, and the loop shape

    for a, b in [ ... ]:
        M[a] = a
        for x in b:
            M[x] = a

Anything outside the fragment evaluates to ``UNKNOWN``; rules that need such
a value fail as analysis-broken rather than guessing.
"""

import ast


class _Unknown:
    def __repr__(self):
        return "UNKNOWN"


UNKNOWN = _Unknown()


class ConstEnv:
    def __init__(self, module):
        self.module = module
        self.env = {}
        self.run(module.tree.body)

    # ------------------------------------------------------------------
    def run(self, body):
        for st in body:
            try:
                self.stmt(st)
            except _Bail:
                pass

    def stmt(self, st):
        if isinstance(st, ast.Assign):
            v = self.ev(st.value)
            for t in st.targets:
                self.assign(t, v)
        elif isinstance(st, ast.AnnAssign) and st.value is not None:
            self.assign(st.target, self.ev(st.value))
        elif isinstance(st, ast.For):
            it = self.ev(st.iter)
            if it is UNKNOWN or not isinstance(it, (list, tuple, set, dict)):
                return
            for x in it:
                self.assign(st.target, x)
                for s in st.body:
                    self.stmt(s)
        elif isinstance(st, ast.AugAssign) and isinstance(st.target, ast.Name):
            cur = self.env.get(st.target.id, UNKNOWN)
            v = self.ev(st.value)
            if cur is UNKNOWN or v is UNKNOWN:
                self.env[st.target.id] = UNKNOWN
            else:
                try:
                    self.env[st.target.id] = _binop(st.op, cur, v)
                except Exception:
                    self.env[st.target.id] = UNKNOWN
        elif isinstance(st, ast.Expr) and isinstance(st.value, ast.Call):
            # M.update({...}) / S.add(x)
            c = st.value
            if isinstance(c.func, ast.Attribute) and isinstance(c.func.value, ast.Name):
                tgt = self.env.get(c.func.value.id)
                args = [self.ev(a) for a in c.args]
                if tgt is not None and tgt is not UNKNOWN and UNKNOWN not in args:
                    try:
                        if c.func.attr in ("update", "add", "append", "extend", "setdefault"):
                            getattr(tgt, c.func.attr)(*args)
                    except Exception:
                        pass

    def assign(self, t, v):
        if isinstance(t, ast.Name):
            self.env[t.id] = v
        elif isinstance(t, (ast.Tuple, ast.List)):
            if v is UNKNOWN or not isinstance(v, (tuple, list)) or len(v) != len(t.elts):
                for e in t.elts:
                    self.assign(e, UNKNOWN)
            else:
                for e, x in zip(t.elts, v):
                    self.assign(e, x)
        elif isinstance(t, ast.Subscript) and isinstance(t.value, ast.Name):
            d = self.env.get(t.value.id)
            k = self.ev(t.slice)
            if isinstance(d, dict) and k is not UNKNOWN and v is not UNKNOWN:
                try:
                    d[k] = v
                except TypeError:
                    pass

    # ------------------------------------------------------------------
    def ev(self, n):
        if isinstance(n, ast.Constant):
            return n.value
        if isinstance(n, ast.Name):
            return self.env.get(n.id, UNKNOWN)
        if isinstance(n, ast.UnaryOp):
            v = self.ev(n.operand)
            if v is UNKNOWN:
                return UNKNOWN
            if isinstance(n.op, ast.USub):
                return -v
            if isinstance(n.op, ast.UAdd):
                return +v
            if isinstance(n.op, ast.Not):
                return not v
            return UNKNOWN
        if isinstance(n, ast.BinOp):
            a, b = self.ev(n.left), self.ev(n.right)
            if a is UNKNOWN or b is UNKNOWN:
                return UNKNOWN
            try:
                return _binop(n.op, a, b)
            except Exception:
                return UNKNOWN
        if isinstance(n, (ast.Tuple, ast.List)):
            vals = [self.ev(e) for e in n.elts]
            if any(v is UNKNOWN for v in vals):
                return UNKNOWN
            return tuple(vals) if isinstance(n, ast.Tuple) else list(vals)
        if isinstance(n, ast.Set):
            vals = [self.ev(e) for e in n.elts]
            if any(v is UNKNOWN for v in vals):
                return UNKNOWN
            try:
                return set(vals)
            except TypeError:
                return UNKNOWN
        if isinstance(n, ast.Dict):
            d = {}
            for k, v in zip(n.keys, n.values):
                if k is None:
                    vv = self.ev(v)
                    if not isinstance(vv, dict):
                        return UNKNOWN
                    d.update(vv)
                    continue
                kk, vv = self.ev(k), self.ev(v)
                if kk is UNKNOWN:
                    return UNKNOWN
                try:
                    d[kk] = vv
                except TypeError:
                    return UNKNOWN
            return d
        if isinstance(n, ast.Subscript):
            base, k = self.ev(n.value), self.ev(n.slice)
            if base is UNKNOWN or k is UNKNOWN:
                return UNKNOWN
            try:
                return base[k]
            except Exception:
                return UNKNOWN
        if isinstance(n, ast.Call) and isinstance(n.func, ast.Name) and n.func.id in ("set", "frozenset", "tuple", "list", "dict") and len(n.args) <= 1 and not n.keywords:
            if not n.args:
                return {"set": set, "frozenset": frozenset, "tuple": tuple, "list": list, "dict": dict}[n.func.id]()
            v = self.ev(n.args[0])
            if v is UNKNOWN:
                return UNKNOWN
            try:
                return {"set": set, "frozenset": frozenset, "tuple": tuple, "list": list, "dict": dict}[n.func.id](v)
            except Exception:
                return UNKNOWN
        return UNKNOWN

    def get(self, name):
        return self.env.get(name, UNKNOWN)


class _Bail(Exception):
    pass


def _binop(op, a, b):
    if isinstance(op, ast.Add):
        return a + b
    if isinstance(op, ast.Sub):
        return a - b
    if isinstance(op, ast.Mult):
        return a * b
    if isinstance(op, ast.Div):
        return a / b
    if isinstance(op, ast.FloorDiv):
        return a // b
    if isinstance(op, ast.Pow):
        return a ** b
    if isinstance(op, ast.BitOr):
        return a | b
    if isinstance(op, ast.BitAnd):
        return a & b
    if isinstance(op, ast.Mod):
        return a % b
    raise ValueError
