"""Positive controls.

A small module that is overlaid (in memory only — it is never written under
/repo) into the analysed program as ``quimb/tensor/_qsa_controls.py``.  Every
snippet in it violates exactly one rule; a rule that declares N controls must
flag N constructs of this module on every run, otherwise the run is
analysis-broken (exit 2).  Findings located in this module are never reported
as violations.  All names carry the ``qsa_ctrl`` / ``QsaControl`` prefix so
that they cannot shadow or override anything in the repository.
"""

CONTROL_SOURCE = '''
import functools
import concurrent.futures as cf

from .tensor_core import Tensor, TensorNetwork, TNLinearOperator, tensor_contract
from .tn1d.core import MatrixProductState, convert_cur_orthog


class QsaControlTN(TensorNetwork):
    """C03 controls."""

    _EXTRA_PROPS = ("_qsa_ctrl_prop",)

    def __init__(self, ts=(), **kw):
        # C02/C03 extra-props control: assigns an attribute not in _EXTRA_PROPS
        self._qsa_ctrl_prop = 1
        self._qsa_ctrl_forgotten = 2
        super().__init__(ts, **kw)

    def qsa_ctrl_plain_mutates(self, x, inplace=False):
        # inplace-effect control: iterates the receiver, not the copy
        tn = self if inplace else self.copy()
        for t in self:
            t.modify(data=t.data * x)
        return tn

    qsa_ctrl_plain_mutates_ = functools.partialmethod(qsa_ctrl_plain_mutates, inplace=True)

    def qsa_ctrl_ok(self, x, inplace=False):
        tn = self if inplace else self.copy()
        for t in tn:
            t.modify(data=t.data * x)
        return tn

    # alias-spelling control: underscore alias bound to a *different* method
    qsa_ctrl_ok_ = functools.partialmethod(qsa_ctrl_plain_mutates, inplace=True)

    def qsa_ctrl_array_write(self, x, inplace=False):
        # array-immut control: writes into an array shared with copies
        tn = self if inplace else self.copy()
        for t in tn:
            d = t.data
            d *= x
        return tn

    def qsa_ctrl_exp_drop(self, tags):
        # C01 exp-drop control: contracts extracted tensors, forgets self.exponent
        tn, ts = self.partition_tensors(tags)
        return tensor_contract(*ts)


def qsa_ctrl_iso_scaled(t, x):
    # C04 iso-claim control: own flag kept while the data is rescaled
    t.modify(data=t.data * x, left_inds=t.left_inds)


def qsa_ctrl_map_writer(tn, tid):
    # C02 map-owner control: a non-owner function writes the lookup maps
    tn.tag_map["X"].add(tid)
    tn.ind_map.pop("k", None)
    del tn.tensor_map[tid]


def qsa_ctrl_tags_view(t):
    # C02 tags-view control: mutating the live tag set of a tensor
    t.tags.add("X")


def qsa_ctrl_set_inds(t, inds):
    # C02 rename-notifies control: bypassing the notifying setter
    t._set_inds(inds)


def qsa_ctrl_requested_order(psi, keep):
    # C13 requested-order control: index order taken from a set of the sites
    keep = set(keep)
    k_inds = tuple(map(psi.site_ind, keep))
    return psi.to_dense(k_inds)


def qsa_ctrl_positional_broadcast(t, outcome):
    # C03 axis-by-label control: a freshly built vector broadcast against stored data (aligned with the last stored axis)
    import numpy as np
    proj = [0.0, 0.0]
    proj[outcome] = 1.0
    t.modify(data=t.data * np.asarray(proj))
    return t


def qsa_ctrl_duplicate_conjunct(tn, tid1, tid2, compress_matrices=True):
    # C12 pair-predicate control: the same conjunct twice, the second tensor is never looked at
    if (not compress_matrices) and (len(tn._get_neighbor_tids([tid1])) <= 2) and (len(tn._get_neighbor_tids([tid1])) <= 2):
        return True
    return False


def qsa_ctrl_dead_opts(tn, seq, canonize_opts=None, **kwargs):
    # C12 option-dict control: the dict is completed and then never handed on
    canonize_opts = dict(canonize_opts or {})
    canonize_opts["exclude"] = seq
    return tn._contract_compressed_tid_sequence(seq, **kwargs)


def qsa_ctrl_none_vs_zero(A, k=6, sigma=None):
    # C17 none-vs-zero control: sigma=0 falls through to the 'not given' branch
    which = "TR" if sigma else "SA"
    return which
'''
