"""ALIAS + EFFECT: interprocedural may-alias / mutation-effect analysis.

Abstract values ("origins") of an expression, relative to the parameters of
the enclosing function:

    ("P", p)   the very object passed as parameter ``p``
    ("T", p)   an object that is *part of* ``p`` and shared with it (a tensor
               obtained by subscripting / iterating a network, a held
               sub-object such as ``self.tn``); mutating it mutates ``p``
    ("C", p)   a live structural attribute of ``p`` (``p.tensor_map`` ...)
    ("E", p)   a *fresh* container (tuple/list/dict/virtual network) whose
               elements are parts of ``p``: mutating the container is
               harmless, mutating what it yields is not
    ("A", p)   numerical array data of ``p`` (``.data`` / ``.arrays`` ...)
    ("F",)     a fresh object (copy, new tensor, number ...)
    ("U",)     unknown

A function summary, computed under a *context* (assumed truth values of the
repo's mode flags ``inplace`` / ``virtual``), records
  * ``mut[p]``  -> list of Mutation(level, sure, line, what, chain) where
                   level is "obj" (own structure) or "elem" (parts);
  * ``ret``     -> origins of the returned value (or a tuple of them);
  * ``holds[p]``-> origins stored inside ``p`` (``p.attr = value``).
Summaries are computed lazily, memoised per (function, context) and iterated
to a fix-point on recursion.
"""

import ast
from collections import namedtuple

from .model import FuncInfo, ClassInfo, Module, dotted, src_of, const_value

F = ("F",)
U = ("U",)
# boolean constants held by locals (copy-once flags): inert for aliasing
BTRUE = frozenset([("B", True)])
BFALSE = frozenset([("B", False)])

def is_flag(name):
    return name == "virtual" or name.startswith("inplace")


def flags_of(f):
    return [p for p in f.params if is_flag(p)]


BUILTIN_MUTATORS = {
    "append", "extend", "add", "discard", "remove", "pop", "popitem",
    "clear", "update", "setdefault", "insert", "sort", "reverse",
    "popleft", "appendleft", "popright", "difference_update",
    "intersection_update", "symmetric_difference_update", "move_to_end",
}
# attribute names whose value is array data of the owner
ARRAY_ATTRS = {"data", "_data", "arrays", "params"}
ARRAY_CALLS = {"get_params", "to_dense", "to_qarray"}
# attribute reads that produce a fresh immutable / unrelated value
FRESH_ATTRS = {
    "inds", "_inds", "shape", "ndim", "dtype", "size", "exponent", "L", "Lx", "Ly",
    "Lz", "nsites", "sites", "site_tag_id", "site_ind_id", "left_inds",
    "_left_inds", "H", "backend", "num_tensors", "num_indices", "cyclic",
    "__class__", "N", "nqubits",
}
# fresh containers of parts
ELEM_ATTRS = {"tensors"}
# live containers whose *values* are shared parts (kind "M")
PARTMAP_ATTRS = {"tensor_map"}
# live containers that are the object's own structure (kind "C"); what they
# hold (osets of tids, strings) is own structure too
OWN_STRUCT_ATTRS = {
    "tag_map", "ind_map", "_inner_inds", "_outer_inds", "_owners", "_tags",
    "tags", "_tid_counter", "_storage", "_sampled_conditionals",
}
# ownership registry / memo bookkeeping: not part of the labelled content
BOOKKEEPING_FUNCS = {
    ("Tensor", "add_owner"), ("Tensor", "remove_owner"), ("Tensor", "check_owners"),
    ("Tensor", "_owners"),
}
FRESH_CONTAINER_CALLS = {
    "list", "tuple", "sorted", "dict", "set", "oset", "frozenset", "reversed",
    "enumerate", "zip", "iter", "filter", "map", "tags_to_oset",
}
ARRAY_INPLACE_METHODS = {"fill", "sort", "resize", "setflags", "itemset", "put", "setfield", "partition"}
ARRAY_VIEW_METHODS = {"reshape", "ravel", "view", "transpose", "squeeze", "swapaxes", "diagonal"}
ARRAY_INPLACE_FUNCS = {"copyto", "put", "put_along_axis", "putmask", "place", "fill_diagonal"}
ARRAY_VIEW_FUNCS = {"reshape", "ravel", "asarray", "asanyarray", "transpose", "squeeze", "atleast_1d", "atleast_2d"}
PURE_BUILTINS = {
    "len", "int", "float", "str", "bool", "abs", "min", "max", "sum", "range",
    "isinstance", "hasattr", "id", "repr", "hash", "any", "all", "round",
    "print", "type", "callable", "issubclass", "format", "divmod", "complex",
}
AUG_DUNDER = {
    ast.Mult: "__imul__", ast.Div: "__itruediv__", ast.BitAnd: "__iand__",
    ast.BitOr: "__ior__", ast.RShift: "__irshift__", ast.BitXor: "__ixor__",
    ast.Add: "__iadd__", ast.Sub: "__isub__",
}

Mutation = namedtuple("Mutation", "level sure line what chain")


def none_test(node):
    """(param, is_none: bool) for ``p is None`` / ``p is not None``."""
    if (
        isinstance(node, ast.Compare) and len(node.ops) == 1 and isinstance(node.left, ast.Name)
        and isinstance(node.comparators[0], ast.Constant) and node.comparators[0].value is None
    ):
        if isinstance(node.ops[0], ast.Is):
            return node.left.id, True
        if isinstance(node.ops[0], ast.IsNot):
            return node.left.id, False
    return None


class Summary:
    __slots__ = ("mut", "ret", "holds", "done", "awrites")

    def __init__(self):
        self.mut = {}
        self.ret = frozenset()
        self.holds = {}
        self.awrites = []
        self.done = False

    def key(self):
        return (
            tuple(sorted((p, tuple(sorted((m.level, m.sure) for m in ms))) for p, ms in self.mut.items())),
            self.ret if not isinstance(self.ret, tuple) else ("t",) + self.ret,
            tuple(sorted((p, tuple(sorted(o))) for p, o in self.holds.items())),
        )


def demote(origins):
    """Origins of the elements / parts of a value with the given origins."""
    out = set()
    for o in origins:
        if o[0] in ("P", "T", "E"):
            out.add(("T", o[1]) + (o[2:] if o[0] == "E" else ()))
        elif o[0] == "M":
            out.add(F)  # iterating a dict yields its keys
        elif o[0] == "A":
            out.add(("A", o[1]))
        else:
            out.add(o)
    return frozenset(out)


def as_container(origins):
    out = set()
    for o in origins:
        if o[0] in ("P", "T", "E"):
            out.add(("E", o[1]) + (o[2:] if o[0] in ("T", "E") else ()))
        elif o[0] in ("C", "M"):
            out.add(F)
        elif o[0] == "A":
            out.add(("A", o[1], "c"))  # container of arrays
        else:
            out.add(o)
    return frozenset(out)


def flat(v):
    if isinstance(v, tuple):
        r = frozenset()
        for x in v:
            r |= flat(x)
        return r or frozenset([F])
    return v


def is_tuple_val(v):
    return isinstance(v, tuple) and (not v or isinstance(v[0], (frozenset, tuple)))


class Effects:
    def __init__(self, prog, overrides=None):
        self.prog = prog
        self.memo = {}
        self.onstack = {}
        self.prov = {}
        self.epoch = 0
        self.min_dep = 1 << 30
        self.unresolved_calls = 0
        self.resolved_calls = 0
        self.tensor_root = prog.modules["quimb.tensor.tensor_core"].classes.get("Tensor")
        self.tn_root = prog.modules["quimb.tensor.tensor_core"].classes.get("TensorNetwork")
        self.overrides = overrides or {}
        self._name_index = None
        self._forks = {}

    # ------------------------------------------------------------- contexts
    def norm_ctx(self, f, ctx):
        """Keep only the flags the function has as parameters; fill from
        constant defaults."""
        out = {}
        for fl in flags_of(f):
            out[fl] = ctx.get(fl, "?")
        return tuple(sorted(out.items()))

    def default_flag(self, f, fl):
        d = f.defaults.get(fl)
        if d is None:
            return None
        v = const_value(d, "?")
        if v is True or v is False:
            return v
        return None

    # ------------------------------------------------------------ summaries
    def summary(self, f, ctx=None, cls=None):
        """Summary of ``f`` under ``ctx`` (dict flag -> True/False/None).
        ``cls`` is the dynamic class of ``self`` when known (used to resolve
        self-calls through the right MRO)."""
        ctx = dict(ctx or {})
        if cls is not None and (f.cls is None or not cls.isa(f.cls)):
            cls = f.cls
        if f.is_alias:
            real, kw = self.prog.deref_alias(f)
            if real is None:
                s = Summary()
                s.done = True
                return s
            for k, v in kw.items():
                if is_flag(k) and ctx.get(k) not in (True, False):
                    # an explicit keyword at the call site wins over the
                    # partialmethod binding
                    cv = const_value(v, "?")
                    if cv is True or cv is False:
                        ctx[k] = cv
            return self.summary(real, ctx, cls)
        nctx = {}
        for fl in flags_of(f):
            v = ctx.get(fl, "?")
            if v == "?" or v is None:
                v = self.default_flag(f, fl)
            nctx[fl] = v
        key = (f, tuple(sorted(nctx.items())), cls if (cls is not None and f.cls is not None) else None)
        memo = self.memo.get(key)
        if memo is not None and memo.done:
            return memo
        if key in self.onstack:
            # recursion: hand out the current approximation and remember
            # which stack depth the reader now depends on
            self.min_dep = min(self.min_dep, self.onstack[key])
            return self.memo.setdefault(key, Summary())
        prov = self.prov.get(key)
        if prov is not None and prov[0] == self.epoch:
            self.min_dep = min(self.min_dep, prov[2])
            return prov[1]
        if f.cls is not None and (f.cls.name, f.name) in BOOKKEEPING_FUNCS:
            s = self.memo.setdefault(key, Summary())
            s.done = True
            return s
        depth = len(self.onstack)
        self.onstack[key] = depth
        s = self.memo.setdefault(key, Summary())
        outer_dep = self.min_dep
        dep = 1 << 30
        for _ in range(6):
            self.min_dep = 1 << 30
            self.epoch += 1
            before = s.key()
            forks = self.null_forks(f)
            combos = [{}]
            for prm in forks[:2]:
                combos = [dict(c, **{prm: v}) for c in combos for v in (True, False)]
            s.mut, s.ret, s.holds, s.awrites = {}, frozenset(), {}, []
            for nullctx in combos:
                interp = _Interp(self, f, nctx, cls, nullctx)
                interp.run()
                for aw in interp.awrites:
                    if aw not in s.awrites:
                        s.awrites.append(aw)
                for prm, ms in interp.mut.items():
                    lst = s.mut.setdefault(prm, [])
                    for m_ in ms:
                        if not any(x.level == m_.level and x.sure == m_.sure and x.line == m_.line for x in lst):
                            lst.append(m_)
                if is_tuple_val(interp.ret) and (not s.ret or (is_tuple_val(s.ret) and len(s.ret) == len(interp.ret))):
                    s.ret = interp.ret if not s.ret else tuple(a | b for a, b in zip(s.ret, interp.ret))
                else:
                    s.ret = flat(s.ret) | flat(interp.ret) if (s.ret or interp.ret) else frozenset()
                for prm, h in interp.holds.items():
                    s.holds[prm] = s.holds.get(prm, frozenset()) | h
            dep = self.min_dep
            if dep > depth:
                break  # no dependency on anything still being computed
            if dep == depth and s.key() == before:
                dep = 1 << 30
                break  # own fix-point reached
            if dep < depth:
                # depends on an ancestor: iterate locally once more only if
                # it also depends on itself; the ancestor re-requests us
                if s.key() == before:
                    break
        del self.onstack[key]
        self.epoch += 1
        if dep < depth:
            # provisional: valid only for the ancestor's current iteration
            self.min_dep = min(outer_dep, dep)
            res = Summary()
            res.mut, res.ret, res.holds, res.awrites = s.mut, s.ret, s.holds, s.awrites
            self.prov[key] = (self.epoch, res, dep)
            return res
        self.min_dep = outer_dep
        s.done = True
        self.prov.pop(key, None)
        return s

    def null_forks(self, f):
        """Parameters ``p`` whose ``p is None`` / ``p is not None`` test is
        combined with a mode flag in one boolean test (``inplace or (into is
        not None)``): the analysis is forked on their nullness so that the
        correlated later test ``if into is not None`` is decided
        consistently."""
        r = self._forks.get(f)
        if r is not None:
            return r
        out = []
        if not isinstance(f.node, ast.Lambda):
            for n in ast.walk(f.node):
                if isinstance(n, ast.BoolOp):
                    names = [v.id for v in n.values if isinstance(v, ast.Name)]
                    if not any(is_flag(x) and x in f.params for x in names):
                        continue
                    for v in n.values:
                        p_ = none_test(v)
                        if p_ and p_[0] in f.params and p_[0] not in out:
                            out.append(p_[0])
        self._forks[f] = out
        return out

    # -------------------------------------------------------------- lookups
    def name_index(self):
        if self._name_index is None:
            idx = {}
            for c in self.prog.all_classes():
                for n, m in c.methods.items():
                    if m.cls is c:
                        idx.setdefault(n, []).append(m)
            self._name_index = idx
        return self._name_index

    def in_tensor_world(self, cls):
        return cls is not None and (
            (self.tn_root and cls.isa(self.tn_root)) or (self.tensor_root and cls.isa(self.tensor_root))
        )


class _Interp:
    """One abstract run over a function body under a flag context."""

    def __init__(self, eff, f, ctx, cls, nullctx=None):
        self.nullctx = nullctx or {}
        self.eff = eff
        self.prog = eff.prog
        self.f = f
        self.ctx = ctx
        self.cls = cls if cls is not None else f.cls
        self.mut = {}
        self.ret = frozenset()
        self.holds = {}
        self.localdicts = {}
        self.varclass = {}
        self.awrites = []
        self._cur_env = None

    def array_write(self, origins, line, what, chain=()):
        """An in-place write into a numerical array.  For data owned by a
        tensor / network (A-origins) this is both an array-immutability event
        and a mutation of the owner; for a bare parameter it is remembered as
        an "arr" effect so that callers passing tensor data are found."""
        for o in origins:
            if o[0] == "A" and o[2:] == ("c",):
                continue
            if o[0] == "A":
                ev_ = (o[1], line, what, tuple(chain))
                if ev_ not in self.awrites and len(self.awrites) < 50:
                    self.awrites.append(ev_)
                self.record(frozenset([("T", o[1])]), "elem", line, "in-place array write: " + what, chain=chain)
            elif o[0] == "P":
                lst = self.mut.setdefault(o[1], [])
                if not any(x.level == "arr" for x in lst):
                    lst.append(Mutation("arr", True, line, what, tuple(chain)))

    # ------------------------------------------------------------------ run
    def run(self):
        f = self.f
        env = {}
        for p in f.params:
            env[p] = frozenset([("P", p)])
        if f.varkw:
            env[f.varkw] = frozenset([F])
        if f.vararg:
            env[f.vararg] = frozenset([("E", "*" + f.vararg)])
        node = f.node
        if isinstance(node, ast.Lambda):
            self.ret = flat(self.ev(node.body, env))
            return
        self.block(node.body, env)

    # ------------------------------------------------------------ recording
    def record(self, origins, level_for, line, what, sure=True, chain=()):
        for o in origins:
            k = o[0]
            if k in ("P", "C", "M"):
                lvl = level_for
            elif k == "T":
                lvl = "elem"
            elif k == "E":
                if level_for == "elem":
                    lvl = "elem"
                else:
                    continue
            else:
                continue
            p = o[1]
            lst = self.mut.setdefault(p, [])
            m = Mutation(lvl, sure, line, what, tuple(chain))
            if not any(x.level == lvl and x.sure == sure and x.line == line for x in lst):
                if len(lst) < 12:
                    lst.append(m)
                elif sure and not any(x.sure and x.level == lvl for x in lst):
                    lst.append(m)

    def hold(self, holder_origins, value_origins):
        vs = frozenset(o for o in flat(value_origins) if o[0] in ("P", "T", "E", "M"))
        if not vs:
            return
        for o in holder_origins:
            if o[0] == "P":
                self.holds[o[1]] = self.holds.get(o[1], frozenset()) | vs

    # ----------------------------------------------------------- statements
    def block(self, body, env):
        """Returns False when the block cannot fall through (return/raise on
        every path)."""
        for st in body:
            if not self.stmt(st, env):
                return False
        return True

    def flag_test(self, test, env=None):
        """Truth value of a branch test under the context (mode flags) and
        the boolean constants currently held by locals, or None."""
        if isinstance(test, ast.Name) and test.id in self.ctx:
            if env is not None:
                cur = env.get(test.id)
                if cur == BTRUE:
                    return True
                if cur == BFALSE:
                    return False
                if cur is not None and cur != frozenset([("P", test.id)]):
                    return None  # the flag parameter was rebound locally
            return self.ctx[test.id]
        if isinstance(test, ast.Name) and env is not None:
            cur = env.get(test.id)
            if cur == BTRUE:
                return True
            if cur == BFALSE:
                return False
            return None
        if isinstance(test, ast.UnaryOp) and isinstance(test.op, ast.Not):
            v = self.flag_test(test.operand, env)
            return None if v is None else (not v)
        if isinstance(test, ast.BoolOp):
            vals = [self.flag_test(v, env) for v in test.values]
            if isinstance(test.op, ast.And):
                if any(v is False for v in vals):
                    return False
                if all(v is True for v in vals):
                    return True
            else:
                if any(v is True for v in vals):
                    return True
                if all(v is False for v in vals):
                    return False
            return None
        if isinstance(test, ast.Constant):
            return bool(test.value)
        nt = none_test(test)
        if nt is not None and nt[0] in self.nullctx:
            isnone = self.nullctx[nt[0]]
            return isnone if nt[1] else (not isnone)
        return None

    def join(self, a, b):
        out = dict(a)
        for k, v in b.items():
            if k in out:
                x, y = out[k], v
                if is_tuple_val(x) or is_tuple_val(y):
                    if is_tuple_val(x) and is_tuple_val(y) and len(x) == len(y):
                        out[k] = tuple(flat(p) | flat(q) for p, q in zip(x, y))
                    else:
                        out[k] = flat(x) | flat(y)
                else:
                    out[k] = x | y
            else:
                out[k] = v
        return out

    def stmt(self, st, env):
        m = getattr(self, "s_" + type(st).__name__, None)
        if m is None:
            for ch in ast.iter_child_nodes(st):
                if isinstance(ch, ast.expr):
                    self.ev(ch, env)
            return True
        return m(st, env)

    def s_Expr(self, st, env):
        self.ev(st.value, env)
        return True

    def s_Pass(self, st, env):
        return True

    def s_Return(self, st, env):
        if st.value is not None:
            v = self.ev(st.value, env)
            if is_tuple_val(v) and not self.ret:
                self.ret = tuple(flat(x) for x in v)
            elif is_tuple_val(v) and is_tuple_val(self.ret) and len(v) == len(self.ret):
                self.ret = tuple(flat(a) | flat(b) for a, b in zip(self.ret, v))
            else:
                self.ret = flat(self.ret) | flat(v)
        return False

    def s_Raise(self, st, env):
        return False

    def s_Assert(self, st, env):
        return True

    def s_Global(self, st, env):
        return True

    s_Nonlocal = s_Import = s_ImportFrom = s_Global

    def s_FunctionDef(self, st, env):
        env[st.name] = frozenset([U])
        return True

    s_ClassDef = s_FunctionDef

    def s_Assign(self, st, env):
        v = self.ev(st.value, env)
        for t in st.targets:
            self.assign(t, v, env, st.value, st)
        return True

    def s_AnnAssign(self, st, env):
        if st.value is not None:
            v = self.ev(st.value, env)
            self.assign(st.target, v, env, st.value, st)
        return True

    def s_AugAssign(self, st, env):
        v = self.ev(st.value, env)
        t = st.target
        if isinstance(t, ast.Name):
            cur = flat(env.get(t.id, frozenset([U])))
            dn = AUG_DUNDER.get(type(st.op))
            if any(o[0] == "A" for o in cur):
                # numpy arrays implement every augmented operator in place
                self.array_write(frozenset(o for o in cur if o[0] == "A"), st.lineno, src_of(st)[:70])
            hit = frozenset(o for o in cur if o[0] in ("P", "T"))
            if dn and hit:
                cands = self.eff.name_index().get(dn, [])
                kind = self.kind_of_origins(hit)
                if kind is not None:
                    cands = [c for c in cands if kind in c.cls.mro or c.cls.isa(kind) or kind.isa(c.cls)]
                    if cands:
                        self.apply_callee_set(cands, hit, [st.value], [], env, st.lineno, f"{t.id} {src_of(st)[len(t.id):].split('=')[0].strip()}= ...", sure=True)
                elif isinstance(st.op, (ast.BitOr, ast.BitAnd, ast.BitXor, ast.RShift)) and cands:
                    # `|=`, `&=`, `^=`, `>>=` are in-place for every repo
                    # class that defines them (and for builtin sets); only
                    # ints would rebind
                    tw = [c for c in cands if self.eff.in_tensor_world(c.cls)] or cands
                    self.apply_callee_set(tw, hit, [st.value], [], env, st.lineno, f"{t.id} {type(st.op).__name__}= ...", sure=True)
                else:
                    # unknown kind: numbers rebind, tensors mutate -> unsure
                    self.record(hit, "obj", st.lineno, f"augmented assignment to {t.id}", sure=False)
            # rebinding for immutable kinds; keep aliases
            env[t.id] = cur | frozenset([F])
        else:
            base = flat(self.ev(t.value, env))
            if isinstance(t, ast.Subscript):
                self.array_write(frozenset(o for o in base if o[0] in ("A", "P")), st.lineno, src_of(st)[:70])
            elif isinstance(t, ast.Attribute) and t.attr in ARRAY_ATTRS:
                self.array_write(frozenset(("A", o[1]) for o in base if o[0] in ("P", "T", "E")), st.lineno, src_of(st)[:70])
            self.record(frozenset(o for o in base if o[0] != "A"), "obj", st.lineno, f"augmented store {src_of(t)}")
        return True

    def s_Delete(self, st, env):
        for t in st.targets:
            if isinstance(t, (ast.Attribute, ast.Subscript)):
                base = self.ev(t.value, env)
                self.record(self.store_targets(flat(base), t), "obj", st.lineno, f"del {src_of(t)}")
            elif isinstance(t, ast.Name):
                env.pop(t.id, None)
        return True

    def s_If(self, st, env):
        tv = self.flag_test(st.test, env)
        self.ev(st.test, env)
        if tv is True:
            return self.block(st.body, env)
        if tv is False:
            return self.block(st.orelse, env)
        e1 = dict(env)
        e2 = dict(env)
        self.narrow(st.test, e1, True)
        self.narrow(st.test, e2, False)
        f1 = self.block(st.body, e1)
        f2 = self.block(st.orelse, e2)
        if f1 and f2:
            j = self.join(e1, e2)
        elif f1:
            j = e1
        elif f2:
            j = e2
        else:
            return False
        env.clear()
        env.update(j)
        return True

    def narrow(self, test, env, truth):
        """isinstance / is None narrowing is not needed for effects; hook kept
        for subclasses."""

    def s_For(self, st, env):
        it = self.ev(st.iter, env)
        elem = self.elements_of(st.iter, it, env)
        # peel the first iteration (keeps copy-once flags precise), then
        # iterate the rest to a fix-point, then join with "zero iterations"
        e0 = dict(env)
        cur = dict(env)
        self.assign(st.target, elem, cur, None, st, unpack_elem=True)
        self.block(st.body, cur)
        for _ in range(2):
            e2 = dict(cur)
            self.assign(st.target, elem, e2, None, st, unpack_elem=True)
            self.block(st.body, e2)
            cur = self.join(cur, e2)
        j = self.join(e0, cur)
        env.clear()
        env.update(j)
        self.block(st.orelse, env)
        return True

    s_AsyncFor = s_For

    def s_While(self, st, env):
        self.ev(st.test, env)
        e0 = dict(env)
        cur = dict(env)
        self.block(st.body, cur)
        for _ in range(2):
            e2 = dict(cur)
            self.block(st.body, e2)
            cur = self.join(cur, e2)
        j = self.join(e0, cur)
        env.clear()
        env.update(j)
        self.block(st.orelse, env)
        # `while True:` without break never falls through, keep simple
        return True

    def s_With(self, st, env):
        for it in st.items:
            v = self.ev(it.context_expr, env)
            if it.optional_vars is not None:
                self.assign(it.optional_vars, v, env, it.context_expr, st)
        return self.block(st.body, env)

    s_AsyncWith = s_With

    def s_Try(self, st, env):
        e0 = dict(env)
        f1 = self.block(st.body, env)
        if f1:
            f1 = self.block(st.orelse, env)
        outs = [dict(env)] if f1 else []
        for h in st.handlers:
            eh = self.join(e0, env)
            if h.name:
                eh[h.name] = frozenset([F])
            if self.block(h.body, eh):
                outs.append(eh)
        if not outs:
            if st.finalbody:
                self.block(st.finalbody, dict(e0))
            return False
        j = outs[0]
        for o in outs[1:]:
            j = self.join(j, o)
        env.clear()
        env.update(j)
        if st.finalbody:
            return self.block(st.finalbody, env)
        return True

    s_TryStar = s_Try

    def s_Match(self, st, env):
        self.ev(st.subject, env)
        outs = []
        for c in st.cases:
            e1 = dict(env)
            if self.block(c.body, e1):
                outs.append(e1)
        if outs:
            j = outs[0]
            for o in outs[1:]:
                j = self.join(j, o)
            j = self.join(j, env)
            env.clear()
            env.update(j)
        return True

    # ----------------------------------------------------------- assignment
    def store_targets(self, base, target):
        """Origins that a store through ``target`` (Attribute/Subscript)
        actually affects: fresh containers (E) and arrays (A) do not count
        for the effect analysis (arrays are the business of array-immut)."""
        return frozenset(("T", o[1]) if o[0] == "A" else o for o in base if o[0] in ("P", "T", "C", "M", "A"))

    def assign(self, t, v, env, value_node, st, unpack_elem=False):
        if isinstance(t, ast.Name):
            env[t.id] = v if not is_tuple_val(v) else v
            self.varclass.pop(t.id, None)
            if isinstance(value_node, ast.Call) and dotted(value_node.func):
                rc = self.prog.resolve_expr(self.f.module, value_node.func)
                if isinstance(rc, ClassInfo) and dotted(value_node.func).split(".")[0] not in env:
                    self.varclass[t.id] = rc
            if isinstance(value_node, (ast.Dict, ast.Call)):
                d = self.literal_dict(value_node, env)
                if d is not None:
                    self.localdicts[t.id] = d
                else:
                    self.localdicts.pop(t.id, None)
        elif isinstance(t, (ast.Tuple, ast.List)):
            n = len(t.elts)
            if is_tuple_val(v) and len(v) == n and not any(isinstance(e, ast.Starred) for e in t.elts):
                for e, x in zip(t.elts, v):
                    self.assign(e, x, env, None, st)
            else:
                fv = flat(v)
                ev = fv if unpack_elem and False else demote(fv)
                for e in t.elts:
                    if isinstance(e, ast.Starred):
                        self.assign(e.value, as_container(ev), env, None, st)
                    else:
                        self.assign(e, ev, env, None, st)
        elif isinstance(t, ast.Attribute):
            base = flat(self.ev(t.value, env))
            self.record(self.store_targets(base, t), "obj", st.lineno, f"store {src_of(t)}")
            self.hold(base, v)
        elif isinstance(t, ast.Subscript):
            base = flat(self.ev(t.value, env))
            self.ev(t.slice, env)
            # local dict literal tracking: opts["inplace"] = inplace
            if isinstance(t.value, ast.Name) and t.value.id in self.localdicts:
                k = const_value(t.slice, None)
                if isinstance(k, str) and value_node is not None:
                    self.localdicts[t.value.id][k] = value_node
            self.record(frozenset(o for o in self.store_targets(base, t) if o[0] != "T" or ("A", o[1]) not in base), "obj", st.lineno, f"store {src_of(t)}")
            self.array_write(frozenset(o for o in base if o[0] in ("A", "P")), st.lineno, f"store {src_of(t)}"[:70])
            # storing into a holder attribute: self.attr[k] = value
            if isinstance(t.value, ast.Attribute) and t.value.attr not in OWN_STRUCT_ATTRS:
                hb = flat(self.ev(t.value.value, env))
                self.hold(hb, v)
            # a local container now also contains v
            if isinstance(t.value, ast.Name):
                cur = flat(env.get(t.value.id, frozenset()))
                env[t.value.id] = cur | as_container(flat(v))
        elif isinstance(t, ast.Starred):
            self.assign(t.value, v, env, None, st)

    def literal_dict(self, node, env):
        if isinstance(node, ast.Dict):
            d = {}
            for k, v in zip(node.keys, node.values):
                if k is None:
                    if isinstance(v, ast.Name) and v.id in self.localdicts:
                        d.update(self.localdicts[v.id])
                    else:
                        d["**"] = v
                else:
                    kk = const_value(k, None)
                    if isinstance(kk, str):
                        d[kk] = v
            return d
        if isinstance(node, ast.Call) and isinstance(node.func, ast.Name) and node.func.id == "dict" and not node.args:
            d = {}
            for kw in node.keywords:
                if kw.arg is None:
                    if isinstance(kw.value, ast.Name) and kw.value.id in self.localdicts:
                        d.update(self.localdicts[kw.value.id])
                    else:
                        d["**"] = kw.value
                else:
                    d[kw.arg] = kw.value
            return d
        return None

    # ---------------------------------------------------------- expressions
    def elements_of(self, node, origins, env):
        origins = flat(origins)
        out = set()
        for o in origins:
            if o[0] == "P":
                c = self.class_of_param(o[1])
                if c is not None and self.eff.tn_root and c.isa(self.eff.tn_root):
                    out.add(("T", o[1], "tensor"))  # TensorNetwork.__iter__
                    continue
            out |= demote(frozenset([o]))
        return frozenset(out)

    def ev(self, node, env):
        m = getattr(self, "e_" + type(node).__name__, None)
        if m is None:
            out = frozenset([F])
            for ch in ast.iter_child_nodes(node):
                if isinstance(ch, ast.expr):
                    self.ev(ch, env)
            return out
        return m(node, env)

    def e_Constant(self, node, env):
        if node.value is True:
            return BTRUE
        if node.value is False:
            return BFALSE
        return frozenset([F])

    def e_Name(self, node, env):
        if node.id in env:
            return env[node.id]
        return frozenset([U])

    def e_NamedExpr(self, node, env):
        v = self.ev(node.value, env)
        env[node.target.id] = v
        return v

    def e_IfExp(self, node, env):
        tv = self.flag_test(node.test, env)
        self.ev(node.test, env)
        if tv is True:
            return self.ev(node.body, env)
        if tv is False:
            return self.ev(node.orelse, env)
        return flat(self.ev(node.body, env)) | flat(self.ev(node.orelse, env))

    def e_BoolOp(self, node, env):
        out = frozenset()
        for v in node.values:
            out |= flat(self.ev(v, env))
        return out

    def e_Tuple(self, node, env):
        if any(isinstance(e, ast.Starred) for e in node.elts):
            out = frozenset([F])
            for e in node.elts:
                x = flat(self.ev(e.value if isinstance(e, ast.Starred) else e, env))
                out |= x if isinstance(e, ast.Starred) else as_container(x)
            return out
        return tuple(flat(self.ev(e, env)) for e in node.elts)

    def e_List(self, node, env):
        out = frozenset([F])
        for e in node.elts:
            if isinstance(e, ast.Starred):
                out |= frozenset(o for o in flat(self.ev(e.value, env)) if o[0] != "P") | as_container(
                    frozenset(o for o in flat(self.ev(e.value, env)) if o[0] == "P")
                )
            else:
                out |= as_container(flat(self.ev(e, env)))
        return out

    e_Set = e_List

    def e_Dict(self, node, env):
        out = frozenset([F])
        for k, v in zip(node.keys, node.values):
            if k is not None:
                self.ev(k, env)
            x = flat(self.ev(v, env))
            out |= as_container(x)
        return out

    def comp(self, node, env, elts):
        e1 = dict(env)
        for g in node.generators:
            it = self.ev(g.iter, e1)
            self.assign(g.target, self.elements_of(g.iter, it, e1), e1, None, node, unpack_elem=True)
            for c in g.ifs:
                self.ev(c, e1)
        out = frozenset([F])
        for e in elts:
            out |= as_container(flat(self.ev(e, e1)))
        return out

    def e_ListComp(self, node, env):
        return self.comp(node, env, [node.elt])

    e_SetComp = e_GeneratorExp = e_ListComp

    def e_DictComp(self, node, env):
        e1 = dict(env)
        self.ev(node.key, e1) if False else None
        return self.comp(node, env, [node.value])

    def e_Lambda(self, node, env):
        return frozenset([U])

    def e_Starred(self, node, env):
        return self.ev(node.value, env)

    def e_JoinedStr(self, node, env):
        for v in node.values:
            if isinstance(v, ast.FormattedValue):
                self.ev(v.value, env)
        return frozenset([F])

    def e_Compare(self, node, env):
        self.ev(node.left, env)
        for c in node.comparators:
            self.ev(c, env)
        return frozenset([F])

    def e_UnaryOp(self, node, env):
        self.ev(node.operand, env)
        return frozenset([F])

    def e_BinOp(self, node, env):
        a = flat(self.ev(node.left, env))
        b = flat(self.ev(node.right, env))
        if isinstance(node.op, ast.BitOr):
            # TensorNetwork / Tensor `|` builds a *virtual* network
            ab = a | b
            if any(o[0] in ("P", "T", "E") for o in ab):
                return as_container(frozenset(o for o in ab if o[0] in ("P", "T", "E"))) | frozenset([F])
        return frozenset([F])

    def e_Await(self, node, env):
        return self.ev(node.value, env)

    def e_Yield(self, node, env):
        if node.value is not None:
            v = self.ev(node.value, env)
            self.ret = flat(self.ret) | as_container(flat(v))
        return frozenset([U])

    def e_YieldFrom(self, node, env):
        v = self.ev(node.value, env)
        self.ret = flat(self.ret) | flat(v)
        return frozenset([U])

    def e_Slice(self, node, env):
        for x in (node.lower, node.upper, node.step):
            if x is not None:
                self.ev(x, env)
        return frozenset([F])

    def e_Subscript(self, node, env):
        base = flat(self.ev(node.value, env))
        self.ev(node.slice, env)
        out = set()
        for o in base:
            if o[0] == "M":
                out.add(("T", o[1], "tensor"))  # tensor_map: tid -> Tensor
            elif o[0] == "E":
                out.add(("T", o[1]) + o[2:])
            elif o[0] in ("P", "T"):
                out.add(("T", o[1]))
            elif o[0] == "A":
                out.add(("A", o[1]))
            else:
                out.add(o)
        return frozenset(out)

    def e_Attribute(self, node, env):
        base = flat(self.ev(node.value, env))
        a = node.attr
        out = set()
        for o in base:
            k = o[0]
            if k in ("P", "T", "C", "E", "M"):
                if a in ARRAY_ATTRS:
                    out.add(("A", o[1], "c") if a == "arrays" else ("A", o[1]))
                elif a in ELEM_ATTRS:
                    out.add(("E", o[1], "tensor"))
                elif a in FRESH_ATTRS:
                    out.add(F)
                elif a in PARTMAP_ATTRS:
                    # a virtual view (E) has its own map of shared tensors
                    out.add(("M", o[1]) if k != "E" else ("E", o[1]))
                elif a in OWN_STRUCT_ATTRS:
                    out.add(F if k == "E" else ("C", o[1]))
                else:
                    r = self.property_result(o, a)
                    if r is not None:
                        out |= r
                    elif k == "E":
                        out.add(("E", o[1]))
                    elif k == "C":
                        out.add(o)
                    else:
                        # unknown attribute: possibly a held shared object
                        out.add(("T", o[1]))
            elif k == "A":
                out.add(o if a in ("T", "real", "imag", "flat") else F)
            else:
                out.add(o)
        return frozenset(out)

    def property_result(self, origin, attr):
        """If ``attr`` is a property of the (known) class of the value, use
        its return summary."""
        if origin[0] != "P":
            return None
        cls = self.class_of_param(origin[1])
        if cls is None:
            return None
        m = cls.find(attr)
        if m is None or not m.is_property or m.is_alias:
            return None
        s = self.eff.summary(m, {}, cls)
        return self.map_back(flat(s.ret), {"self": frozenset([origin])})

    # ----------------------------------------------------------------- kinds
    def class_of_param(self, p):
        if p == "self" and self.cls is not None and not self.f.is_static:
            return self.cls
        if p == "cls":
            return None
        node = self.f.node
        if isinstance(node, ast.Lambda):
            return None
        for a in node.args.args + node.args.kwonlyargs:
            if a.arg == p and a.annotation is not None:
                ann = a.annotation
                if isinstance(ann, ast.Constant) and isinstance(ann.value, str):
                    try:
                        ann = ast.parse(ann.value, mode="eval").body
                    except SyntaxError:
                        return None
                r = self.prog.resolve_expr(self.f.module, ann)
                if isinstance(r, ClassInfo):
                    return r
        return None

    def kind_of_origins(self, origins):
        """Root class (TensorNetwork / Tensor) when all identity origins have
        a known class; T-origins of a network are tensors."""
        kinds = set()
        for o in origins:
            if o[0] == "P":
                c = self.class_of_param(o[1])
                if c is None:
                    return None
                if self.eff.tn_root and c.isa(self.eff.tn_root):
                    kinds.add(self.eff.tn_root)
                elif self.eff.tensor_root and c.isa(self.eff.tensor_root):
                    kinds.add(self.eff.tensor_root)
                else:
                    kinds.add(c)
            elif o[0] in ("T", "E"):
                if o[2:] == ("tensor",) and self.eff.tensor_root:
                    kinds.add(self.eff.tensor_root)
                else:
                    return None
        if len(kinds) == 1:
            return kinds.pop()
        return None

    # ------------------------------------------------------------------ calls
    def flag_value(self, expr, env):
        """Value of a flag argument expression under the context:
        True / False / None (unknown)."""
        if expr is None:
            return None
        if isinstance(expr, ast.Constant) and (expr.value is True or expr.value is False):
            return expr.value
        v = self.flag_test(expr, env)
        return v

    def call_ctx(self, callee, call_args, call_kws, bound_kw, skip_self):
        """Flag context for one candidate callee at a call site.  Returns
        (ctx dict, unknown_flags set)."""
        ctx = {}
        unknown = set()
        real = callee
        if callee.is_alias:
            real, akw = self.prog.deref_alias(callee)
            if real is None:
                return {}, set()
            bound_kw = dict(bound_kw)
            for k, v in akw.items():
                bound_kw.setdefault(k, v)
        pos = list(real.posparams)
        if skip_self and pos:
            pos = pos[1:]
        kwmap = {}
        star_kw = []
        for kw in call_kws:
            if kw.arg is None:
                star_kw.append(kw.value)
            else:
                kwmap[kw.arg] = kw.value
        for fl in flags_of(real):
            if fl in kwmap:
                v = self.flag_value(kwmap[fl], self._cur_env)
                ctx[fl] = v
                if v is None:
                    unknown.add(fl)
            elif fl in bound_kw:
                v = self.flag_value(bound_kw[fl], None)
                ctx[fl] = v
                if v is None:
                    unknown.add(fl)
            elif fl in pos and pos.index(fl) < len(call_args) and not any(
                isinstance(a, ast.Starred) for a in call_args[: pos.index(fl) + 1]
            ):
                v = self.flag_value(call_args[pos.index(fl)], self._cur_env)
                ctx[fl] = v
                if v is None:
                    unknown.add(fl)
            else:
                found = False
                for sk in star_kw:
                    if isinstance(sk, ast.Name) and sk.id in self.localdicts:
                        d = self.localdicts[sk.id]
                        if fl in d:
                            v = self.flag_value(d[fl], self._cur_env)
                            ctx[fl] = v
                            if v is None:
                                unknown.add(fl)
                            found = True
                            break
                        if "**" in d:
                            found = None
                    else:
                        found = None if found is False else found
                if found is False:
                    ctx[fl] = self.eff.default_flag(real, fl)
                    if ctx[fl] is None:
                        unknown.add(fl)
                elif found is None:
                    # could arrive through an opaque **kwargs
                    ctx[fl] = None
                    unknown.add(fl)
        return ctx, unknown

    def bind_args(self, callee, recv_origins, call_args, call_kws, env, skip_self, cache):
        """Map callee parameter -> origins of the argument delivered."""
        real = callee
        if callee.is_alias:
            real, _ = self.prog.deref_alias(callee)
            if real is None:
                return {}
        binding = {}
        pos = list(real.posparams)
        if skip_self and pos:
            binding[pos[0]] = recv_origins
            pos = pos[1:]
        i = 0
        for a in call_args:
            if isinstance(a, ast.Starred):
                v = demote(flat(self.ev_cached(a.value, env, cache)))
                for p in pos[i:]:
                    binding[p] = binding.get(p, frozenset()) | v
                if real.vararg:
                    binding["*" + real.vararg] = binding.get("*" + real.vararg, frozenset()) | v
                i = len(pos)
                continue
            v = flat(self.ev_cached(a, env, cache))
            if i < len(pos):
                binding[pos[i]] = v
            elif real.vararg:
                binding["*" + real.vararg] = binding.get("*" + real.vararg, frozenset()) | v
            i += 1
        for kw in call_kws:
            if kw.arg is None:
                continue
            v = flat(self.ev_cached(kw.value, env, cache))
            if kw.arg in real.params:
                binding[kw.arg] = v
        return binding

    def ev_cached(self, node, env, cache):
        c = cache.get(id(node))
        if c is not None:
            return c
        v = self.ev(node, env)
        cache[id(node)] = v
        return v

    def map_back(self, origins, binding):
        out = set()
        for o in origins:
            if o[0] in ("P", "T", "C", "E", "A", "M"):
                src = binding.get(o[1])
                if src is None:
                    if o[1].startswith("*"):
                        continue
                    out.add(U if o[0] != "A" else F)
                    continue
                for s in src:
                    if s[0] == "B":
                        out.add(s if o[0] == "P" else F)
                    elif s[0] in ("F", "U"):
                        out.add(s if o[0] == "P" else (F if s[0] == "F" else U))
                    elif o[0] == "P":
                        out.add(s)
                    elif o[0] == "A":
                        out.add((("A", s[1]) + o[2:]) if s[0] != "A" else (s if not o[2:] else ("A", s[1]) + o[2:]))
                    elif s[0] == "A":
                        out.add(s)
                    elif o[0] == "T":
                        out.add(("T", s[1]) + (o[2:] or (s[2:] if s[0] == "E" else ())))
                    elif o[0] in ("C", "M"):
                        if s[0] == "P":
                            out.add((o[0], s[1]))
                        elif s[0] == "E":
                            out.add(("E", s[1]) if o[0] == "M" else F)
                        else:
                            out.add(("T", s[1]))
                    elif o[0] == "E":
                        out.add((("E", s[1]) + (o[2:] or (s[2:] if s[0] in ("T", "E") else ()))) if s[0] != "C" else F)
            else:
                out.add(o)
        return frozenset(out)

    def apply_callee_set(self, cands, recv, call_args, call_kws, env, line, what, sure=True, skip_self=True, dyncls=None, recv_name=None):
        """Apply the summaries of all candidate callees.  A mutation is
        *sure* only if every candidate (under every admissible flag value)
        produces it."""
        cache = {}
        results = []
        self._cur_env = env
        for c in cands:
            ctx, unknown = self.call_ctx(c, call_args, call_kws, {}, skip_self)
            ctxs = [ctx]
            for fl in unknown:
                ctxs = [dict(x, **{fl: val}) for x in ctxs for val in (True, False)]
            binding = self.bind_args(c, recv, call_args, call_kws, env, skip_self, cache)
            for cx in ctxs:
                s = self.eff.summary(c, cx, dyncls if c.cls is not None else None)
                results.append((c, cx, s, binding))
        if not results:
            return frozenset([U])
        # mutations
        per_result = []
        for c, cx, s, binding in results:
            hits = {}
            for p, muts in s.mut.items():
                src = binding.get(p)
                if not src:
                    continue
                for mu in muts:
                    if mu.level == "arr":
                        self.array_write(
                            frozenset(o for o in src if o[0] in ("A", "P")), line, what,
                            chain=(f"{c.fq}:{mu.line} {mu.what}",) + tuple(mu.chain)[:4],
                        )
                        continue
                    for o in src:
                        if o[0] in ("P", "C", "T", "M") or (o[0] == "E" and mu.level == "elem"):
                            lvl = "elem" if o[0] in ("T", "E") else mu.level
                            key = (o, lvl)
                            prev = hits.get(key)
                            if prev is None or (mu.sure and not prev[0].sure):
                                hits[key] = (mu, c)
            per_result.append(hits)
        allkeys = set()
        for h in per_result:
            allkeys |= set(h)
        for key in allkeys:
            o, lvl = key
            # sure iff every candidate surely mutates this origin (at any level)
            everywhere = all(any(k[0] == o and v[0].sure for k, v in h.items()) for h in per_result)
            mu, c = next(h[key] for h in per_result if key in h)
            chain = (f"{c.fq}:{mu.line} {mu.what}",) + tuple(mu.chain)
            self.record(
                frozenset([o]), lvl if o[0] != "E" else "elem", line, what,
                sure=sure and everywhere, chain=chain[:6],
            )
        # holds: callee stores arg origins inside another arg
        for c, cx, s, binding in results:
            for p, held in s.holds.items():
                holder = binding.get(p)
                if not holder:
                    continue
                hv = self.map_back(held, binding)
                self.hold(holder, hv)
                real = c if not c.is_alias else self.prog.deref_alias(c)[0]
                if recv_name is not None and skip_self and real is not None and real.posparams and p == real.posparams[0]:
                    cur = flat(env.get(recv_name, frozenset()))
                    env[recv_name] = cur | as_container(
                        frozenset(o for o in hv if o[0] in ("P", "T", "E", "M"))
                    )
        # return value
        out = frozenset()
        tup = None
        for c, cx, s, binding in results:
            r = s.ret
            if is_tuple_val(r):
                mapped = tuple(self.map_back(x, binding) for x in r)
                if tup is None and not out:
                    tup = mapped
                elif tup is not None and len(tup) == len(mapped):
                    tup = tuple(a | b for a, b in zip(tup, mapped))
                else:
                    out |= flat(mapped) | (flat(tup) if tup else frozenset())
                    tup = None
            else:
                if tup is not None:
                    out |= flat(tup)
                    tup = None
                out |= self.map_back(r, binding) if r else frozenset([F])
        if tup is not None and not out:
            return tup
        return out or frozenset([F])

    def e_Call(self, node, env):
        fn = node.func
        line = node.lineno
        # evaluate args for nested effects
        # --- method call
        if isinstance(fn, ast.Attribute):
            return self.call_method(node, env)
        if isinstance(fn, ast.Name):
            return self.call_name(node, env)
        # call of a call / subscript result: e.g. {..}[d](bra=...)
        cal = self.ev(fn, env)
        for a in node.args:
            self.ev(a, env)
        for k in node.keywords:
            self.ev(k.value, env)
        return frozenset([U])

    def external_call(self, node, env, fname):
        """Call into numpy / autoray / scipy ...: no effect on tensors, but
        in-place array routines and ``out=`` are array writes, and reshaping
        helpers return views."""
        vals = [flat(self.ev(a, env)) for a in node.args]
        first = 0
        if fname == "do" and node.args and isinstance(node.args[0], ast.Constant) and isinstance(node.args[0].value, str):
            fname = node.args[0].value
            first = 1
        for k in node.keywords:
            v = flat(self.ev(k.value, env))
            if k.arg == "out" and any(o[0] in ("A", "P") for o in v):
                self.array_write(frozenset(o for o in v if o[0] in ("A", "P")), node.lineno, f"{fname}(..., out={src_of(k.value)})"[:70])
        if fname in ARRAY_INPLACE_FUNCS and len(vals) > first:
            self.array_write(frozenset(o for o in vals[first] if o[0] in ("A", "P")), node.lineno, f"{fname}({src_of(node.args[first])}, ...)"[:70])
        if fname in ARRAY_VIEW_FUNCS and len(vals) > first:
            a = frozenset(o for o in vals[first] if o[0] == "A")
            if a:
                return a | frozenset([F])
        return frozenset([F])

    def generic_args_escape(self, node, env):
        for a in node.args:
            self.ev(a, env)
        for k in node.keywords:
            self.ev(k.value, env)

    def call_name(self, node, env):
        name = node.func.id
        line = node.lineno
        if name in env and name not in ("super",):
            # calling a local (closure, passed-in function): unknown
            self.generic_args_escape(node, env)
            self.eff.unresolved_calls += 1
            return frozenset([U])
        if name in PURE_BUILTINS:
            self.generic_args_escape(node, env)
            return frozenset([F])
        if name in FRESH_CONTAINER_CALLS:
            out = frozenset([F])
            for a in node.args:
                v = flat(self.ev(a, env))
                # list(tn) / iter(tn): the elements of the argument
                out |= as_container(self.elements_of(a, v, env))
            for k in node.keywords:
                out |= as_container(flat(self.ev(k.value, env)))
            return out
        if name == "next" and node.args:
            v = flat(self.ev(node.args[0], env))
            for a in node.args[1:]:
                self.ev(a, env)
            return demote(v)
        if name in ("getattr",):
            self.generic_args_escape(node, env)
            if node.args:
                b = flat(self.ev(node.args[0], env))
                return frozenset(("T", o[1]) if o[0] in ("P", "T", "E", "M") else U for o in b) or frozenset([U])
            return frozenset([U])
        if name == "setattr" and node.args:
            b = flat(self.ev(node.args[0], env))
            self.record(self.store_targets(b, None), "obj", line, f"setattr({src_of(node.args[0])}, ...)")
            self.generic_args_escape(node, env)
            return frozenset([F])
        r = self.prog.lookup(self.f.module, name)
        ov = self.eff.overrides.get(name)
        if ov is not None:
            return ov(self, node, env)
        if isinstance(r, FuncInfo):
            self.eff.resolved_calls += 1
            return self.apply_callee_set([r], frozenset(), node.args, node.keywords, env, line, f"call {name}(...)", skip_self=False)
        if isinstance(r, ClassInfo):
            self.eff.resolved_calls += 1
            return self.construct(r, node, env)
        self.generic_args_escape(node, env)
        self.eff.unresolved_calls += 1
        return frozenset([U]) if r is None else frozenset([F])

    def construct(self, cls, node, env, recv=None):
        init = cls.find("__init__")
        line = node.lineno
        if init is None or init.is_alias:
            self.generic_args_escape(node, env)
            return frozenset([F])
        # run __init__ with a fresh self
        self._cur_env = env
        ctx, unknown = self.call_ctx(init, node.args, node.keywords, {}, True)
        ctxs = [ctx]
        for fl in unknown:
            ctxs = [dict(x, **{fl: val}) for x in ctxs for val in (True, False)]
        binding = self.bind_args(init, frozenset([F]), node.args, node.keywords, env, True, {})
        out = frozenset([F])
        muts_by_ctx = []
        for cx in ctxs:
            s = self.eff.summary(init, cx, cls)
            selfname = init.posparams[0] if init.posparams else "self"
            held = s.holds.get(selfname, frozenset())
            if self.eff.tensor_root is not None and cls.isa(self.eff.tensor_root):
                # a Tensor is a leaf: what it retains from its arguments is the data array (shared storage) and
                # immutable index / tag names — it has no member tensors that an element-level mutation could reach
                held_arrays = frozenset(o for o in held if len(o) > 1 and o[1] in ("data", "params", "parray"))
                out |= frozenset(("A", o[1]) for o in self.map_back(held_arrays, binding) if o[0] in ("P", "T", "E", "A") and len(o) > 1)
            else:
                out |= as_container(self.map_back(held, binding))
            hits = set()
            for p, muts in s.mut.items():
                if p == selfname:
                    continue
                src = binding.get(p)
                if not src:
                    continue
                for mu in muts:
                    if mu.level == "arr":
                        continue
                    for o in src:
                        if o[0] in ("P", "C", "T", "M") or (o[0] == "E" and mu.level == "elem"):
                            hits.add((o, "elem" if o[0] in ("T", "E") else mu.level, mu.sure, mu.line, mu.what))
            muts_by_ctx.append(hits)
        keys = set((h[0], h[1]) for hs in muts_by_ctx for h in hs)
        for o, lvl in keys:
            everywhere = all(any(h[0] == o and h[1] == lvl and h[2] for h in hs) for hs in muts_by_ctx)
            ex = next(h for hs in muts_by_ctx for h in hs if h[0] == o and h[1] == lvl)
            self.record(frozenset([o]), lvl, line, f"construct {cls.name}(...)", sure=everywhere,
                        chain=(f"{init.fq}:{ex[3]} {ex[4]}",))
        return out

    def call_method(self, node, env):
        fn = node.func
        mname = fn.attr
        line = node.lineno
        what = f"call {src_of(fn)}(...)"
        # super().m(...)
        if isinstance(fn.value, ast.Call) and isinstance(fn.value.func, ast.Name) and fn.value.func.id == "super":
            recv = env.get(self.f.posparams[0], frozenset([U])) if self.f.posparams else frozenset([U])
            target = None
            sargs = fn.value.args
            if len(sargs) == 2:
                # super(Class, obj).m(...): bound to obj, lookup after Class
                recv = self.ev(sargs[1], env)
                after = self.prog.resolve_expr(self.f.module, sargs[0])
                if isinstance(after, ClassInfo) and self.cls is not None and self.cls.isa(after):
                    target = self.cls.find_after(after, mname)
                elif isinstance(after, ClassInfo):
                    target = after.find_after(after, mname)
            elif self.cls is not None and self.f.cls is not None:
                target = self.cls.find_after(self.f.cls, mname)
            if target is not None:
                self.eff.resolved_calls += 1
                return self.apply_callee_set([target], flat(recv), node.args, node.keywords, env, line, what, dyncls=self.cls)
            self.generic_args_escape(node, env)
            self.eff.unresolved_calls += 1
            return frozenset([U])
        # module.function(...) / Class.method(...)
        r = self.prog.resolve_expr(self.f.module, fn) if dotted(fn) else None
        root = dotted(fn)
        if root and root.split(".")[0] in env:
            r = None
        if isinstance(r, FuncInfo):
            self.eff.resolved_calls += 1
            if r.cls is not None and not r.is_static and not r.is_classmethod:
                # Class.method(obj, ...): explicit self
                return self.apply_callee_set([r], frozenset(), node.args, node.keywords, env, line, what, skip_self=False)
            return self.apply_callee_set([r], frozenset([F]), node.args, node.keywords, env, line, what,
                                         skip_self=r.is_classmethod)
        if isinstance(r, ClassInfo):
            self.eff.resolved_calls += 1
            return self.construct(r, node, env)
        if mname == "__new__":
            self.generic_args_escape(node, env)
            return frozenset([F])
        recv = flat(self.ev(fn.value, env))
        # external module call: np.foo(...), do("..."), etc.
        if root:
            head = root.split(".")[0]
            hr = self.prog.lookup(self.f.module, head) if head not in env else None
            if head not in env and (hr is None or isinstance(hr, Module)) and head not in ("self", "cls"):
                if isinstance(hr, Module) or head in self.f.module.imports:
                    return self.external_call(node, env, mname)
        # known structural accessors on any receiver
        if mname == "copy" and not any(o[0] == "U" for o in recv if False):
            self.generic_args_escape(node, env)
            virt = None
            for kw in node.keywords:
                if kw.arg == "virtual":
                    virt = self.flag_value(kw.value, env)
                    if virt is None:
                        virt = "?"
            if virt is None or virt is False:
                return frozenset([F])
            out = as_container(recv)
            return out | (frozenset([F]) if virt == "?" else frozenset())
        if mname in ("values", "items") and not node.args:
            return frozenset(
                (("E", o[1], "tensor") if o[0] == "M" else ("E", o[1]) + o[2:] if o[0] in ("T", "E") else ("E", o[1]))
                if o[0] in ("P", "T", "E", "M") else (F if o[0] == "C" else o)
                for o in recv
            )
        if mname == "keys" and not node.args:
            return frozenset([F])
        if mname == "get" and len(node.args) >= 1 and any(o[0] in ("C", "E", "M") for o in recv):
            self.generic_args_escape(node, env)
            return frozenset(("T", o[1]) if o[0] in ("P", "T", "E", "M") else o for o in recv) | frozenset([F])
        if any(o[0] == "A" for o in recv):
            if mname in ARRAY_INPLACE_METHODS:
                self.array_write(frozenset(o for o in recv if o[0] == "A"), line, what)
            if mname in ARRAY_VIEW_METHODS and all(o[0] in ("A", "F", "U") for o in recv):
                self.generic_args_escape(node, env)
                return frozenset(o for o in recv if o[0] == "A") or frozenset([F])
        if mname in ARRAY_CALLS:
            self.generic_args_escape(node, env)
            return frozenset(("A", o[1]) if o[0] in ("P", "T", "C", "E", "M") else F for o in recv)
        # receiver class
        cands, dyn = self.method_candidates(fn.value, mname, recv, env)
        if cands:
            self.eff.resolved_calls += 1
            return self.apply_callee_set(
                cands, recv, node.args, node.keywords, env, line, what, dyncls=dyn,
                recv_name=fn.value.id if isinstance(fn.value, ast.Name) else None,
            )
        # builtin container mutators on live structures
        if mname in BUILTIN_MUTATORS:
            tgt = frozenset(o for o in recv if o[0] in ("P", "C", "T", "M"))
            self.record(tgt, "obj", line, what)
            vals = frozenset()
            for a in node.args:
                vals |= flat(self.ev(a, env))
            for k in node.keywords:
                vals |= flat(self.ev(k.value, env))
            # the container now holds the arguments
            if isinstance(fn.value, ast.Name) and mname in ("append", "add", "extend", "insert", "update", "setdefault", "appendleft"):
                cur = flat(env.get(fn.value.id, frozenset()))
                env[fn.value.id] = cur | as_container(vals)
            if isinstance(fn.value, ast.Attribute) and fn.value.attr not in OWN_STRUCT_ATTRS and not any(
                o[0] == "C" for o in recv
            ):
                self.hold(flat(self.ev(fn.value.value, env)), vals)
            if mname in ("pop", "popitem", "popleft", "popright", "setdefault"):
                return demote(recv)
            return frozenset([F])
        self.generic_args_escape(node, env)
        self.eff.unresolved_calls += 1
        if any(o[0] in ("P", "T", "C", "E") for o in recv):
            return frozenset([U])
        return frozenset([U])

    def method_candidates(self, recv_node, mname, recv, env):
        """Candidate callees for ``recv.mname``: through the class of
        ``self`` (MRO + overriding subclasses) when the receiver is an alias
        of self, through an annotated / inferred class, else by name over all
        repo classes."""
        idx = self.eff.name_index()
        # a local bound to a constructor call of a known repo class
        if isinstance(recv_node, ast.Name) and recv_node.id in self.varclass:
            c = self.varclass[recv_node.id]
            m = c.find(mname)
            if m is not None:
                return [m], c
        # identity alias of self (or of an annotated parameter)
        ps = [o for o in recv if o[0] == "P"]
        if ps and all(o[0] in ("P", "F", "U") for o in recv):
            classes = [self.class_of_param(o[1]) for o in ps]
            if all(c is not None for c in classes):
                cands = []
                dyn = classes[0] if len(set(classes)) == 1 else None
                for c in classes:
                    m = c.find(mname)
                    if m is not None:
                        cands.append(m)
                    # overriding subclasses only when we analyse generically
                    if self.cls is c and self.f.cls is not None and self.cls is self.f.cls:
                        for sc in c.all_subclasses():
                            if mname in sc.methods and sc.methods[mname] not in cands:
                                cands.append(sc.methods[mname])
                if cands:
                    return cands, dyn
        cands = idx.get(mname, [])
        if not cands:
            return [], None
        if mname in BUILTIN_MUTATORS or mname in ("copy", "get", "keys", "values", "items", "index", "count", "join", "format", "split", "replace", "startswith", "endswith"):
            # too generic to resolve by name (dict/list/set/str methods)
            if not (mname == "split"):
                return [], None
        # by name: when the method exists in the Tensor / TensorNetwork
        # hierarchies, an un-annotated receiver is taken to be a tensor or a
        # network (stated assumption: the analysed code is tensor-network
        # code; linear-operator / circuit objects are reached through self)
        tw = [c for c in cands if self.eff.in_tensor_world(c.cls)]
        if tw:
            cands = tw
        parts = [o for o in recv if o[0] in ("P", "T", "E", "C", "M")]
        if parts and all(o[0] == "E" and not o[2:] for o in parts) and self.eff.tn_root:
            # a method call on a fresh container of parts: lists / tuples
            # have none of the repo's methods, so it is a virtual network
            tt = [c for c in cands if c.cls.isa(self.eff.tn_root)]
            if tt:
                cands = tt
        if parts and all(o[0] == "T" and o[2:] == ("tensor",) for o in parts) and self.eff.tensor_root:
            tt = [c for c in cands if c.cls.isa(self.eff.tensor_root)]
            if tt:
                cands = tt
        if len(cands) > 12:
            return [], None
        return list(cands), None
