"""Check framework: obligations, findings, known-findings, evidence, CLI."""

import ast
import hashlib
import json
import os
import sys
import time
import traceback
import warnings

from . import REPO, AnalysisError
from .model import Program

VERIF = os.path.dirname(os.path.dirname(os.path.abspath(__file__)))
KNOWN_PATH = os.path.join(VERIF, "known_findings.json")
CONTROL_REL = "quimb/tensor/_qsa_controls.py"


class Finding:
    """One violated obligation.  ``key`` is rule|construct|operand — never a
    line number — so that reformatting does not change identities."""

    def __init__(self, rule, construct, what, where="", operand="", detail=None):
        self.rule = rule
        self.construct = construct
        self.operand = operand
        self.what = what
        self.where = where
        self.detail = detail or []

    @property
    def key(self):
        k = f"{self.rule}|{self.construct}"
        if self.operand:
            k += f"|{self.operand}"
        return k

    def to_json(self):
        return {
            "key": self.key, "rule": self.rule, "construct": self.construct,
            "operand": self.operand, "what": self.what, "where": self.where,
            "detail": self.detail,
        }


class RuleResult:
    """Outcome of one rule: the obligations it enumerated and what it found."""

    def __init__(self, rule, description):
        self.rule = rule
        self.description = description
        self.obligations = 0
        self.discharged = 0
        self.unresolved = 0
        self.nontrivial = set()
        self.findings = []
        self.exemptions = []
        self.samples = []
        self.notes = []
        self.controls_expected = 0
        self.controls_flagged = 0

    def ok(self, construct, sample=None, nontrivial=True):
        self.obligations += 1
        self.discharged += 1
        if nontrivial:
            self.nontrivial.add(construct)
        if sample is not None and len(self.samples) < 6:
            self.samples.append(sample)

    def skip(self, construct, why):
        self.obligations += 1
        self.unresolved += 1
        if len(self.notes) < 20:
            self.notes.append(f"unresolved: {construct}: {why}")

    def exempt(self, construct, reason):
        self.obligations += 1
        self.discharged += 1
        self.exemptions.append({"construct": construct, "reason": reason})

    def bad(self, finding):
        self.obligations += 1
        self.nontrivial.add(finding.construct)
        if CONTROL_REL in finding.where or "_qsa_controls" in finding.construct or "QsaControl" in finding.construct:
            self.controls_flagged += 1
            self.obligations -= 1
            return
        self.findings.append(finding)

    def floor(self, n, minimum, what):
        if n < minimum:
            raise AnalysisError(
                f"rule {self.rule}: vacuity floor not met: {what} = {n} < {minimum} "
                f"(the rule no longer matches the code it was written for)"
            )

    def need_controls(self, n):
        self.controls_expected = n


class Ctx:
    """Shared analysis context for one check run."""

    def __init__(self, tier="quick", seed=0, overlay=None, root=None, controls=True):
        self.tier = tier
        self.seed = seed
        self.root = root or REPO
        ov = dict(overlay or {})
        if controls:
            from .controls import CONTROL_SOURCE
            ov.setdefault(CONTROL_REL, CONTROL_SOURCE)
        with warnings.catch_warnings():
            warnings.simplefilter("ignore")
            self.prog = Program(root=self.root, include_experimental=(tier == "thorough"), overlay=ov)
        self._eff = None
        self.t0 = time.time()

    @property
    def eff(self):
        if self._eff is None:
            from .effects import Effects
            self._eff = Effects(self.prog)
        return self._eff

    def is_control(self, f_or_rel):
        rel = f_or_rel if isinstance(f_or_rel, str) else f_or_rel.module.relpath
        return rel == CONTROL_REL


def load_known():
    if not os.path.exists(KNOWN_PATH):
        return []
    with open(KNOWN_PATH) as f:
        return json.load(f)


def tree_digest(prog):
    h = hashlib.sha256()
    for rel in sorted(prog.by_relpath):
        if rel == CONTROL_REL:
            continue
        h.update(rel.encode())
        h.update(hashlib.sha256(prog.by_relpath[rel].src.encode()).digest())
    return h.hexdigest()[:16]


def run_property(pid, rules, tier, seed, explanation, assumptions, replay=None, selftest=None):
    """Run all rules of a property; print the interface lines; write the
    evidence file; return the exit status."""
    t0 = time.time()
    ctx = Ctx(tier=tier, seed=seed)
    results = []
    # a rule that has lost its anchor (vacuity floor, vanished construct) does not hide what the other rules
    # report: its AnalysisError is deferred, the remaining rules run, and the run ends as a violation (exit 1)
    # if any of them reports one, as analysis-broken (exit 2) otherwise -- never as a pass
    deferred = []
    for rule in rules:
        try:
            r = rule(ctx)
        except AnalysisError as e:
            deferred.append(e)
            continue
        if isinstance(r, (list, tuple)):
            results.extend(r)
        else:
            results.append(r)
    # positive controls must have been flagged
    for r in results:
        if r.controls_flagged < r.controls_expected:
            raise AnalysisError(
                f"rule {r.rule}: positive control not flagged "
                f"({r.controls_flagged}/{r.controls_expected}) — the rule has lost its teeth"
            )
    known = [k for k in load_known() if k.get("property") == pid]
    known_open = {k["key"]: k for k in known if k.get("status") == "known"}
    findings = []
    seen_keys = set()
    for r in results:
        for f in r.findings:
            if f.key not in seen_keys:  # several sites of one construct share a key
                seen_keys.add(f.key)
                findings.append(f)
    viol, kf = [], []
    for f in findings:
        if f.key in known_open:
            kf.append(f)
        else:
            viol.append(f)
    # QSA_OUT redirects the replay/evidence files (used when a scratch tree, not /repo, is analysed)
    out_root = os.environ.get("QSA_OUT") or VERIF
    os.makedirs(os.path.join(out_root, "replays"), exist_ok=True)
    os.makedirs(os.path.join(out_root, "evidence"), exist_ok=True)
    for f in kf:
        print(f"KNOWN-FINDING: property={pid} {f.key} :: {known_open[f.key].get('what', f.what)}")
    replay_hit = None
    for f in viol:
        hid = hashlib.sha1(f.key.encode()).hexdigest()[:10]
        path = os.path.join(out_root, "replays", f"{pid}-{hid}.json")
        with open(path, "w") as fh:
            json.dump({"property": pid, **f.to_json()}, fh, indent=1)
        print(f"VIOLATION property={pid} replay={path}")
        print(f"  rule={f.rule} construct={f.construct} {('operand=' + f.operand) if f.operand else ''}")
        print(f"  {f.where}: {f.what}")
        for d in f.detail[:8]:
            print(f"    {d}")
        if replay and replay.get("key") == f.key:
            replay_hit = f
    if deferred and not viol:
        raise deferred[0]
    for e in deferred:
        print(f"ANALYSIS-NOTE property={pid}: {e}")
    # mutation self-check (thorough): measures the checker, never the repo
    st = None
    if selftest is not None and tier == "thorough":
        st = selftest(ctx, seed)
    obligations = sum(r.obligations for r in results)
    discharged = sum(r.discharged for r in results)
    nontrivial = set()
    for r in results:
        nontrivial |= {(r.rule, c) for c in r.nontrivial}
    samples = []
    for r in results:
        for s in r.samples[:3]:
            samples.append({"rule": r.rule, "obligation": s})
    if not samples:
        samples = [{"rule": r.rule, "obligation": r.description} for r in results[:3]]
    rules_cov = []
    for r in results:
        rules_cov.append({
            "rule": r.rule, "what": r.description, "obligations": r.obligations,
            "discharged": r.discharged, "unresolved": r.unresolved,
            "violations": len(r.findings), "exemptions": r.exemptions,
            "positive_controls_flagged": r.controls_flagged,
            "notes": r.notes[:10],
        })
    ev = {
        "property_id": pid,
        "tier": tier,
        "seed": seed,
        "level": "other",
        "coverage": {
            "explanation": explanation,
            "rule": "each obligation is one (rule, construct) instance enumerated from the parsed tree; "
                    "non-trivial = the construct contained at least one site the rule had to reason about",
            "obligations": obligations,
            "discharged": discharged,
            "evaluations": max(obligations, 1),
            "distinct_nontrivial": len(nontrivial),
            "exhaustive": True,
            "samples": samples[:12],
            "rules": rules_cov,
            "modules_parsed": len(ctx.prog.modules),
            "functions_parsed": sum(len(m.all_functions) for m in ctx.prog.modules.values()),
            "tree_digest": tree_digest(ctx.prog),
            "known_findings_reported": [f.key for f in kf],
            "checker_cmd": f"/venv/bin/python check.py {pid} --tier {tier}",
            "trusted_base": ["CPython ast parser", "the rule tables in /verif/qsa/rules"],
        },
        "assumptions": assumptions,
        "wall_s": round(time.time() - t0, 3),
        "violations": len(viol),
    }
    if st is not None:
        ev["coverage"]["mutation_selfcheck"] = st
    with open(os.path.join(out_root, "evidence", f"{pid}.json"), "w") as fh:
        json.dump(ev, fh, indent=1)
    print(
        f"{pid}: {obligations} obligations over {len(results)} rules, {discharged} discharged, "
        f"{len(kf)} known findings, {len(viol)} violations, {ev['wall_s']}s"
    )
    if replay is not None:
        if replay_hit is None and not any(f.key == replay.get("key") for f in kf):
            print(f"replay: {replay.get('key')} is no longer reported")
            return 0
        print(f"replay: {replay.get('key')} still reported")
        return 1
    return 1 if viol else 0


def main(argv, registry):
    import argparse

    ap = argparse.ArgumentParser()
    ap.add_argument("pid")
    ap.add_argument("--tier", default=os.environ.get("VERIF_TIER", "quick"))
    ap.add_argument("--replay", default=None)
    a = ap.parse_args(argv)
    seed = int(os.environ.get("VERIF_SEED", "0") or 0)
    tier = a.tier if a.tier in ("quick", "thorough") else "quick"
    try:
        if a.pid not in registry:
            raise AnalysisError(f"unknown property {a.pid}")
        spec = registry[a.pid]
        replay = None
        if a.replay:
            with open(a.replay) as fh:
                replay = json.load(fh)
        rc = run_property(
            a.pid, spec["rules"], tier, seed, spec["explanation"], spec["assumptions"],
            replay=replay, selftest=spec.get("selftest"),
        )
        sys.stdout.flush()
        return rc
    except AnalysisError as e:
        print(f"ANALYSIS-ERROR property={a.pid}: {e}")
        return 2
    except Exception:
        print(f"ANALYSIS-ERROR property={a.pid}: internal error")
        traceback.print_exc()
        return 2
