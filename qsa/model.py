"""Program model: modules, imports, classes (C3 MRO), functions, the
``partialmethod`` alias desugaring, and name / method resolution.

Built from the working tree on every run.  ``overlay`` lets the self-tests and
positive controls substitute or add source text for a module without touching
the disk.
"""

import ast
import os

from . import REPO, AnalysisError


class FuncInfo:
    __slots__ = (
        "name", "module", "cls", "node", "params", "posparams", "kwonly",
        "defaults", "has_varkw", "has_vararg", "varkw", "vararg",
        "decorators", "alias_target", "alias_kwargs", "parent", "lineno",
        "alias_node",
    )

    def __init__(self, name, module, cls, node, parent=None):
        self.name = name
        self.module = module
        self.cls = cls
        self.node = node
        self.parent = parent
        self.alias_target = None
        self.alias_kwargs = {}
        self.alias_node = None
        self.lineno = getattr(node, "lineno", 0)
        self.decorators = []
        self.posparams = []
        self.kwonly = []
        self.defaults = {}
        self.has_varkw = False
        self.has_vararg = False
        self.varkw = None
        self.vararg = None
        if isinstance(node, (ast.FunctionDef, ast.AsyncFunctionDef, ast.Lambda)):
            a = node.args
            pos = [x.arg for x in a.posonlyargs] + [x.arg for x in a.args]
            self.posparams = pos
            self.kwonly = [x.arg for x in a.kwonlyargs]
            nd = len(a.defaults)
            for nm, d in zip(pos[len(pos) - nd:], a.defaults):
                self.defaults[nm] = d
            for x, d in zip(a.kwonlyargs, a.kw_defaults):
                if d is not None:
                    self.defaults[x.arg] = d
            self.has_varkw = a.kwarg is not None
            self.has_vararg = a.vararg is not None
            self.varkw = a.kwarg.arg if a.kwarg else None
            self.vararg = a.vararg.arg if a.vararg else None
            if not isinstance(node, ast.Lambda):
                self.decorators = [dotted(d.func if isinstance(d, ast.Call) else d) for d in node.decorator_list]
        self.params = self.posparams + self.kwonly

    @property
    def qualname(self):
        if self.parent is not None:
            return f"{self.parent.qualname}.<locals>.{self.name}"
        if self.cls is not None:
            return f"{self.cls.name}.{self.name}"
        return self.name

    @property
    def fq(self):
        return f"{self.module.relpath}:{self.qualname}"

    @property
    def is_alias(self):
        return self.alias_target is not None

    @property
    def is_static(self):
        return "staticmethod" in self.decorators

    @property
    def is_classmethod(self):
        return "classmethod" in self.decorators

    @property
    def is_property(self):
        return "property" in self.decorators or any(
            d and d.endswith(".setter") for d in self.decorators
        )

    def accepts(self, kw):
        return kw in self.params or self.has_varkw

    def __repr__(self):
        return f"<Func {self.fq}>"


class ClassInfo:
    def __init__(self, name, module, node):
        self.name = name
        self.module = module
        self.node = node
        self.methods = {}
        self.attrs = {}
        self.bases = []
        self.unresolved_bases = []
        self.mro = [self]
        self.subclasses = []

    @property
    def fq(self):
        return f"{self.module.relpath}:{self.name}"

    def find(self, name):
        for c in self.mro:
            if name in c.methods:
                return c.methods[name]
        return None

    def find_attr(self, name):
        for c in self.mro:
            if name in c.attrs:
                return c.attrs[name]
        return None

    def find_after(self, cls, name):
        """super() lookup: first definition of ``name`` after ``cls`` in this
        class's MRO."""
        seen = False
        for c in self.mro:
            if seen and name in c.methods:
                return c.methods[name]
            if c is cls:
                seen = True
        return None

    def isa(self, other):
        return other in self.mro

    def all_subclasses(self):
        out, todo = [], list(self.subclasses)
        while todo:
            c = todo.pop()
            if c not in out:
                out.append(c)
                todo.extend(c.subclasses)
        return out

    def __repr__(self):
        return f"<Class {self.fq}>"


class Module:
    def __init__(self, name, relpath, src, tree):
        self.name = name
        self.relpath = relpath
        self.src = src
        self.tree = tree
        self.functions = {}
        self.classes = {}
        self.assigns = {}
        self.imports = {}
        self.star_imports = []
        self.is_pkg = relpath.endswith("__init__.py")
        self.all_functions = []

    @property
    def package(self):
        return self.name if self.is_pkg else self.name.rpartition(".")[0]

    def __repr__(self):
        return f"<Module {self.name}>"


def dotted(node):
    """Dotted-name text of a Name/Attribute chain, else None."""
    parts = []
    while isinstance(node, ast.Attribute):
        parts.append(node.attr)
        node = node.value
    if isinstance(node, ast.Name):
        parts.append(node.id)
        return ".".join(reversed(parts))
    return None


def _is_partialmethod(call):
    return (
        isinstance(call, ast.Call)
        and dotted(call.func) in ("functools.partialmethod", "partialmethod")
        and call.args
    )


class Program:
    def __init__(self, root=None, include_experimental=True, overlay=None, pkg="quimb"):
        self.root = root or REPO
        self.pkg = pkg
        self.modules = {}
        self.by_relpath = {}
        self.overlay = overlay or {}
        self.include_experimental = include_experimental
        self._load()
        self._index()
        self._resolve_classes()

    # ------------------------------------------------------------------ load
    def _load(self):
        base = os.path.join(self.root, self.pkg)
        if not os.path.isdir(base):
            raise AnalysisError(f"package directory {base} not found")
        paths = []
        for dp, dns, fns in os.walk(base):
            dns.sort()
            for fn in sorted(fns):
                if fn.endswith(".py"):
                    paths.append(os.path.join(dp, fn))
        rels = {os.path.relpath(p, self.root) for p in paths}
        rels |= set(self.overlay)
        for rel in sorted(rels):
            if not self.include_experimental and "/experimental/" in rel:
                continue
            if rel in self.overlay:
                src = self.overlay[rel]
            else:
                with open(os.path.join(self.root, rel), encoding="utf-8") as f:
                    src = f.read()
            try:
                tree = ast.parse(src, filename=rel)
            except SyntaxError as e:
                raise AnalysisError(f"cannot parse {rel}: {e}")
            name = rel[:-3].replace(os.sep, ".")
            if name.endswith(".__init__"):
                name = name[: -len(".__init__")]
            m = Module(name, rel, src, tree)
            self.modules[name] = m
            self.by_relpath[rel] = m
        if len(self.modules) < 50:
            raise AnalysisError(f"only {len(self.modules)} modules parsed")

    # ----------------------------------------------------------------- index
    def _index(self):
        for m in self.modules.values():
            self._index_body(m, m.tree.body)
        # star imports resolved after all modules are indexed (two rounds are
        # enough for the shim -> core -> ... chains in the repo)
        for _ in range(3):
            for m in self.modules.values():
                for target in m.star_imports:
                    t = self.modules.get(target)
                    if t is None:
                        continue
                    for nm in self._public_names(t):
                        m.imports.setdefault(nm, (target, nm))

    def _public_names(self, m):
        allv = m.assigns.get("__all__")
        if isinstance(allv, (ast.List, ast.Tuple)):
            names = [e.value for e in allv.elts if isinstance(e, ast.Constant)]
            if names:
                return names
        names = set(m.functions) | set(m.classes) | set(m.assigns) | set(m.imports)
        return [n for n in names if not n.startswith("_")]

    def _index_body(self, m, body):
        for st in body:
            if isinstance(st, (ast.FunctionDef, ast.AsyncFunctionDef)):
                fi = FuncInfo(st.name, m, None, st)
                m.functions[st.name] = fi
                m.all_functions.append(fi)
                self._index_nested(m, fi)
            elif isinstance(st, ast.ClassDef):
                ci = ClassInfo(st.name, m, st)
                m.classes[st.name] = ci
                self._index_class(m, ci)
            elif isinstance(st, ast.Assign):
                for t in st.targets:
                    if isinstance(t, ast.Name):
                        m.assigns[t.id] = st.value
                    elif isinstance(t, ast.Attribute) and isinstance(t.value, ast.Name) and t.value.id in m.classes:
                        # methods attached after the class body (avoiding circular imports):
                        #   TensorNetwork.gate_inds = tensor_network_gate_inds
                        #   TensorNetwork.gate_inds_ = functools.partialmethod(tensor_network_gate_inds, inplace=True)
                        ci = m.classes[t.value.id]
                        if _is_partialmethod(st.value):
                            fi = FuncInfo(t.attr, m, ci, st)
                            fi.alias_target = dotted(st.value.args[0])
                            fi.alias_node = st
                            fi.alias_kwargs = {k.arg: k.value for k in st.value.keywords if k.arg}
                            fi.lineno = st.lineno
                            ci.methods[t.attr] = fi
                        else:
                            ci.attrs[t.attr] = st.value
            elif isinstance(st, ast.AnnAssign):
                if isinstance(st.target, ast.Name) and st.value is not None:
                    m.assigns[st.target.id] = st.value
            elif isinstance(st, ast.Import):
                for a in st.names:
                    if a.asname:
                        m.imports[a.asname] = (a.name, None)
                    else:
                        top = a.name.split(".")[0]
                        m.imports[top] = (top, None)
            elif isinstance(st, ast.ImportFrom):
                target = self._abs_module(m, st.module, st.level)
                for a in st.names:
                    if a.name == "*":
                        m.star_imports.append(target)
                    else:
                        m.imports[a.asname or a.name] = (target, a.name)
            elif isinstance(st, (ast.If, ast.Try)):
                # conditional definitions / optional imports at module level
                for sub in _sub_bodies(st):
                    self._index_body(m, sub)

    def _abs_module(self, m, mod, level):
        if level == 0:
            return mod
        base = m.package.split(".")
        if level > 1:
            base = base[: len(base) - (level - 1)]
        if mod:
            base = base + mod.split(".")
        return ".".join(base)

    def _index_class(self, m, ci):
        for st in ci.node.body:
            if isinstance(st, (ast.FunctionDef, ast.AsyncFunctionDef)):
                fi = FuncInfo(st.name, m, ci, st)
                # property setters share the name; keep the getter under the
                # name and the setter under name + '.setter'
                if any(d and d.endswith(".setter") for d in fi.decorators):
                    ci.methods[st.name + ".setter"] = fi
                else:
                    ci.methods[st.name] = fi
                m.all_functions.append(fi)
                self._index_nested(m, fi)
            elif isinstance(st, ast.Assign):
                for t in st.targets:
                    if not isinstance(t, ast.Name):
                        continue
                    if _is_partialmethod(st.value):
                        tgt = dotted(st.value.args[0])
                        fi = FuncInfo(t.id, m, ci, st)
                        fi.alias_target = tgt
                        fi.alias_node = st
                        fi.alias_kwargs = {k.arg: k.value for k in st.value.keywords if k.arg}
                        fi.lineno = st.lineno
                        ci.methods[t.id] = fi
                    elif isinstance(st.value, ast.Name) and st.value.id in ci.methods:
                        # plain alias:  __copy__ = copy
                        ci.methods[t.id] = ci.methods[st.value.id]
                    else:
                        ci.attrs[t.id] = st.value
            elif isinstance(st, ast.AnnAssign) and isinstance(st.target, ast.Name) and st.value is not None:
                ci.attrs[st.target.id] = st.value

    def _index_nested(self, m, parent):
        for st in ast.walk(parent.node):
            if st is parent.node:
                continue
            if isinstance(st, (ast.FunctionDef, ast.AsyncFunctionDef)):
                # direct or indirect nesting: attach to nearest; cheap version
                fi = FuncInfo(st.name, m, parent.cls, st, parent=parent)
                m.all_functions.append(fi)

    # --------------------------------------------------------------- classes
    def _resolve_classes(self):
        for m in self.modules.values():
            for ci in m.classes.values():
                for b in ci.node.bases:
                    r = self.resolve_expr(m, b)
                    if isinstance(r, ClassInfo):
                        ci.bases.append(r)
                        r.subclasses.append(ci)
                    else:
                        ci.unresolved_bases.append(dotted(b) or ast.dump(b))
        done = {}

        def mro(c, stack=()):
            if c in done:
                return done[c]
            if c in stack:
                raise AnalysisError(f"cyclic bases at {c.fq}")
            seqs = [list(mro(b, stack + (c,))) for b in c.bases] + [list(c.bases)]
            res = [c]
            seqs = [s for s in seqs if s]
            while seqs:
                for s in seqs:
                    h = s[0]
                    if not any(h in t[1:] for t in seqs):
                        break
                else:
                    raise AnalysisError(f"inconsistent MRO at {c.fq}")
                res.append(h)
                for s in seqs:
                    if s and s[0] is h:
                        del s[0]
                seqs = [s for s in seqs if s]
            done[c] = res
            return res

        for m in self.modules.values():
            for ci in m.classes.values():
                ci.mro = mro(ci)
                # class attributes bound to module-level functions are
                # methods:   gate = tensor_network_ag_gate
                for an, av in list(ci.attrs.items()):
                    if isinstance(av, (ast.Name, ast.Attribute)) and an not in ci.methods:
                        r = self.resolve_expr(m, av)
                        if isinstance(r, FuncInfo):
                            ci.methods[an] = r

    # ------------------------------------------------------------ resolution
    def lookup(self, m, name, _depth=0):
        """Resolve a module-level name to FuncInfo / ClassInfo / Module /
        ('value', Module, expr) / None."""
        if _depth > 8 or m is None:
            return None
        if name in m.functions:
            return m.functions[name]
        if name in m.classes:
            return m.classes[name]
        if name in m.imports:
            target, sym = m.imports[name]
            if sym is None:
                return self.modules.get(target)
            tm = self.modules.get(target)
            if tm is None:
                return None
            sub = self.modules.get(target + "." + sym)
            r = self.lookup(tm, sym, _depth + 1)
            if r is None and sub is not None:
                return sub
            return r
        if name in m.assigns:
            v = m.assigns[name]
            # simple module-level alias   f = g
            if isinstance(v, (ast.Name, ast.Attribute)):
                r = self.resolve_expr(m, v, _depth + 1)
                if r is not None:
                    return r
            return ("value", m, v)
        return None

    def resolve_expr(self, m, node, _depth=0):
        if isinstance(node, ast.Name):
            return self.lookup(m, node.id, _depth)
        if isinstance(node, ast.Attribute):
            base = self.resolve_expr(m, node.value, _depth + 1)
            if isinstance(base, Module):
                r = self.lookup(base, node.attr, _depth + 1)
                if r is None:
                    return self.modules.get(base.name + "." + node.attr)
                return r
            if isinstance(base, ClassInfo):
                return base.find(node.attr)
        return None

    def module(self, name):
        m = self.modules.get(name)
        if m is None:
            raise AnalysisError(f"anchor module {name} not found")
        return m

    def cls(self, modname, clsname):
        m = self.module(modname)
        c = m.classes.get(clsname)
        if c is None:
            raise AnalysisError(f"anchor class {modname}:{clsname} not found")
        return c

    def func(self, modname, qual):
        m = self.module(modname)
        if "." in qual:
            cn, fn = qual.split(".", 1)
            c = m.classes.get(cn)
            f = c.methods.get(fn) if c else None
        else:
            f = m.functions.get(qual)
        if f is None:
            raise AnalysisError(f"anchor function {modname}:{qual} not found")
        return f

    def all_classes(self):
        for m in self.modules.values():
            yield from m.classes.values()

    def all_functions(self, nested=True):
        for m in self.modules.values():
            for f in m.all_functions:
                if nested or f.parent is None:
                    yield f
            for c in m.classes.values():
                for f in c.methods.values():
                    if f.is_alias and f.cls is c:
                        yield f

    def deref_alias(self, f, cls=None):
        """Follow partialmethod aliases: returns (real FuncInfo, bound kwargs)
        or (None, kwargs) when the target cannot be found."""
        kw = {}
        seen = 0
        cls = cls or f.cls
        while f is not None and f.is_alias and seen < 5:
            for k, v in f.alias_kwargs.items():
                kw.setdefault(k, v)
            tgt = f.alias_target
            nf = None
            if tgt and "." not in tgt:
                # the alias target is evaluated in the class body: a name
                # already bound there, or inherited lookups are NOT visible —
                # but the repo sometimes names a module-level function
                nf = f.cls.methods.get(tgt) if f.cls else None
                if nf is None or nf is f:
                    r = self.lookup(f.module, tgt)
                    nf = r if isinstance(r, FuncInfo) else None
            elif tgt:
                r = self.resolve_expr(f.module, ast.parse(tgt, mode="eval").body)
                nf = r if isinstance(r, FuncInfo) else None
            f = nf
            seen += 1
        return f, kw

    def methods_named(self, name, within=None):
        out = []
        for c in self.all_classes():
            if within is not None and not any(c.isa(w) for w in within):
                continue
            if name in c.methods:
                out.append(c.methods[name])
        return out


def _sub_bodies(st):
    if isinstance(st, ast.If):
        return [st.body, st.orelse]
    if isinstance(st, ast.Try):
        return [st.body, st.orelse, st.finalbody] + [h.body for h in st.handlers]
    return []


def const_value(node, default=None):
    """Python value of a literal expression (Constant, unary minus, tuples /
    lists / sets / dicts of literals); ``default`` when not a literal."""
    try:
        return ast.literal_eval(node)
    except Exception:
        return default


def src_of(node):
    try:
        return ast.unparse(node)
    except Exception:
        return "<?>"
