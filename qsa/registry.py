"""Property -> rules table."""

from .rules import inplace, maps, exponent, decomp, threads, evo, tebd, record, iso, optflow, registries, dmrg, bp, linalg, symmetry, gating, circuit, capguard, order, opalgebra, memo, envs, caches, kronalg, reduceorder, simplify
import functools

COMMON_ASSUMPTIONS = [
    "the repository's own source is what runs: no monkey-patching, setattr tricks or user code outside /repo",
    "receivers whose class cannot be inferred are resolved by method name over the Tensor/TensorNetwork "
    "hierarchies; sites that stay unresolved are counted, never reported",
    "autoray / cotengra / numpy / scipy / numba internals are trusted",
]

P = functools.partial


def _in_modules(*mods):
    return lambda f: any(f.module.name.startswith(m) for m in mods)


def _c09_family(f):
    return f.module.name in ("quimb.tensor.tn1d.compress",) or (
        f.module.name == "quimb.tensor.tn1d.core" and f.name.lstrip("_").startswith(
            ("compress", "add_M", "apply", "normalize", "permute_arrays", "left_compress", "right_compress", "fill_empty",
             "gate_with", "gate_nonlocal", "swap_", "canonic", "left_canon", "right_canon", "expand_bond", "rand", "trace",
             "partial_trace", "partial_transpose", "dot", "flip", "align", "reindex", "retag", "view", "multiply", "negate",
             "conj", "astype", "squeeze", "fuse")))


def _c12_family(f):
    n = f.name.lstrip("_")
    return (f.module.name in ("quimb.tensor.tn2d.core", "quimb.tensor.tn3d.core", "quimb.tensor.tnag.compress") and n.startswith(
        ("contract_", "compute_", "coarse_grain", "compress", "tensor_network_ag_compress", "canonize", "flatten", "expand_bond")
    )) or (f.module.name == "quimb.tensor.tensor_core" and n.startswith(("contract_compressed", "contract_around", "compress_", "_contract_compressed", "_contract_around", "insert_compressor")))


def _c13_family(f):
    n = f.name.lstrip("_")
    return n.startswith(("compute_local_expectation", "local_expectation", "partial_trace", "normalize", "compute_norm", "norm"))


REGISTRY = {
    "C13": {
        "rules": [order.rule_requested_order, order.rule_where_sorted_with_operator, memo.rule_info_memo_key, memo.rule_sibling_guard_agreement, memo.rule_operator_orientation, memo.rule_density_orientation, memo.rule_unnormalised_exponent, envs.rule_env_exponent, 
            P(optflow.rule_option_delivery, opts=("normalized",), modules=("quimb.tensor",), rule="opt-deliver[normalized]", floor=15,
              description="from every function that accepts `normalized`, each call whose resolved callee (all candidates) accepts "
                          "`normalized` receives a value derived from the caller's own (or an explicit literal): an omitted "
                          "`normalized` silently reverts to the callee's default normalisation"),
            P(optflow.rule_option_delivery, opts=("rehearse",), modules=("quimb.tensor",), rule="opt-deliver[rehearse]", floor=8,
              description="same for `rehearse` (a dropped rehearse flag performs the contraction instead of returning the plan)"),
            P(optflow.rule_option_delivery, opts=("max_bond", "cutoff"), modules=("quimb.tensor.tnag.core",), rule="cap-delivery[local expectation]", floor=5),
            P(registries.rule_mode_total, specs=[
                ("quimb.tensor.tn1d.core", "MatrixProductState.compute_local_expectation", "method"),
                ("quimb.tensor.tnag.core", "TensorNetworkGenVector.partial_trace_exact", "get"),
                ("quimb.tensor.tnag.core", "TensorNetworkGenVector.partial_trace", "method"),
                ("quimb.tensor.tnag.core", "_combine_expansion_expectations", "combine"),
            ]),
            P(inplace.rule_inplace_effect, family=_c13_family, rule="inplace-effect[expectation routes]", floor=5, controls=0),
            P(record.rule_record, only=lambda f: f.name in (
                "local_expectation_canonical", "compute_local_expectation_canonical", "compute_local_expectation",
                "partial_trace_to_dense_canonical", "magnetization", "schmidt_values", "entropy", "schmidt_gap",
                "singular_values", "bipartite_schmidt_state"), min_handoffs=6),
        ],
        "explanation": (
            "static: decides the delivery of `normalized`, `rehearse` and the truncation options along every route to a "
            "local expectation / reduced state, the totality of the route dispatchers, the non-mutation discipline of the "
            "routes that take `inplace`, and (for the 1D canonical routes) the record rules of C08. Does NOT decide agreement "
            "with the dense answer, Hermiticity, site-ordering or operator-transposition conventions (value-level)."
        ),
        "assumptions": COMMON_ASSUMPTIONS,
    },
    "C15": {
        "rules": [
            P(optflow.rule_option_delivery, opts=("ownership",), modules=("quimb.core", "quimb.gen.operators"), rule="ownership-delivery", floor=12,
              exempt_extra={("ham_heis", "kron"): "4x4 two-site building block; the row range applies to the embedding (ikron), which receives it",
                            ("ham_j1j2", "kron"): "two-site building block; the row range applies to the embedding",
                            ("ham_mbl", "kron"): "two-site building block; the row range applies to the embedding"},
              description="from every function that accepts a row-ownership range, each call whose resolved callee accepts `ownership` "
                          "receives the caller's range (by keyword or through the keyword dict that carries it): a dropped range silently "
                          "builds every row of the operator"),
            kronalg.rule_ownership_guard, kronalg.rule_dispatch_sibling_args, kronalg.rule_expec_table, kronalg.rule_ptr_recursion_base, kronalg.rule_ptr_keep_order, reduceorder.rule_reduce_order, threads.rule_no_nested_pool_wait,
            kronalg.rule_permute_layout,
        ],
        "explanation": (
            "static (narrow): decides three structural necessary conditions of C15 — the row-ownership range is delivered along every "
            "call edge of quimb/core.py and quimb/gen/operators.py whose callee accepts it and is validated / trimmed at both ends in kron; "
            "every dense / sparse dispatcher gives both sibling implementations the same arguments; the expectation table is total, looked "
            "up in key order, and its dense and sparse entries use their operands in the same roles. Does NOT decide the Kronecker / "
            "embedding / partial-trace algebra itself (mixed-radix slicing arithmetic, permutations, adjointness), which quantifies over "
            "run-time values."
        ),
        "assumptions": COMMON_ASSUMPTIONS,
    },
    "C07": {
        "rules": [circuit.rule_cache_check, circuit.rule_writers_invalidate, circuit.rule_copy_complete, circuit.rule_gate_registry,
                  circuit.rule_cache_key_siblings, circuit.rule_perm_tracking, circuit.rule_ctor_binding, record.rule_clients,
                  P(order.rule_where_sorted_with_operator, modules=("quimb.tensor.circuit",), rule="where-sorted-with-operator[circuit]", floor=3)],
        "explanation": (
            "static: decides (narrowly) the cache-staleness discipline of the circuit simulators (every memo access is preceded by "
            "the gate-count check; every parameter / state rewrite that keeps the gate count clears the memos), completeness of "
            "copy(), agreement between the gate registries and the convenience methods, and that the MPS simulators thread one "
            "canonical-form record. Does NOT decide unitarity of the registered gates, agreement with U_n...U_1|psi0>, sampler "
            "supports / probabilities, or light-cone cancellation correctness."
        ),
        "assumptions": COMMON_ASSUMPTIONS,
    },
    "C06": {
        "rules": [
            gating.rule_gate_modes, gating.rule_rewire, gating.rule_dagger_total, gating.rule_where_order, gating.rule_fresh_bond_names,
            P(optflow.rule_option_delivery, opts=("transpose", "dagger", "tags", "propagate_tags", "contract", "where"),
              modules=("quimb.tensor.gating", "quimb.tensor.tnag.core", "quimb.tensor.tn1d.core", "quimb.tensor.tn2d.core", "quimb.tensor.tensor_core"),
              want_names=lambda f: "gate" in f.name, rule="opt-deliver[gates]", floor=40,
              exempt_extra={("tensor_network_ag_gate", "filter_valid_site_tags"): "`tags` of filter_valid_site_tags are the old site tags being filtered (name clash)"},
              description="from every gate entry point, each call whose resolved callee accepts transpose / dagger / tags / propagate_tags / "
                          "contract / where receives the caller's value, a value derived from it, or has the flag absorbed into transformed "
                          "arguments (G -> conj(G), transpose = dagger or transpose)"),
            P(registries.rule_mode_total, specs=[
                ("quimb.tensor.tnag.core", "tensor_network_ag_gate", "which"),
                ("quimb.tensor.tnag.core", "tensor_network_apply_op_vec", "which_A"),
            ]),
            P(inplace.rule_inplace_effect, family=lambda f: "gate" in f.name or "apply" in f.name, rule="inplace-effect[gates]", floor=25, controls=0),
            gating.rule_nonlocal_factorisation,
        ],
        "explanation": (
            "static: decides (narrowly) that the gate-mode vocabulary is closed and validated, that the outer labels are rewired "
            "through a paired reindex map on every basic path, that transpose / dagger / tags / contract / where reach the handler, "
            "and that every gate entry point obeys the non-mutation discipline. Does NOT decide that the result equals operator x state, "
            "site-order conventions, or exactness without truncation."
        ),
        "assumptions": COMMON_ASSUMPTIONS,
    },
    "C19": {
        "rules": [opalgebra.rule_scale_substitution, opalgebra.rule_jw_string_span, opalgebra.rule_sector_canonical_order, opalgebra.rule_builder_invalidate, opalgebra.rule_transform_pipeline, opalgebra.rule_blocked_per_call, opalgebra.rule_cyclic_site_wrap, opalgebra.rule_product_order, symmetry.rule_symmetry_dispatch, symmetry.rule_symmetry_strings, threads.rule_stride_siblings],
        "explanation": (
            "static (decision-table extraction + sibling comparison): decides that every symmetry dispatcher handles exactly "
            "the vocabulary {None,Z2,U1,U1U1} / {0,1,2,3}, rejects anything else, unpacks a sector of the right arity and "
            "calls the kernel of its own symmetry with the sector components in order; that both directions of the "
            "rank/config kernels and both COO and matvec kernels exist per symmetry; that the strided kernels and their "
            "launchers agree. Does NOT decide equality of the representations, the Jordan-Wigner / Pauli rewrites, or "
            "bijectivity and sizes of the ranking kernels (combinatorial arithmetic)."
        ),
        "assumptions": COMMON_ASSUMPTIONS,
    },
    "C17": {
        "rules": [exponent.rule_linop_dtype, linalg.rule_backend_use_or_reject, linalg.rule_dense_table, linalg.rule_perm_provenance, linalg.rule_none_vs_zero, linalg.rule_return_arity, linalg.rule_adjoint_distinct, linalg.rule_arm_option_agreement],
        "explanation": (
            "static (registry evaluation + use-or-reject): decides that every registered eigen / singular-value backend accepts "
            "every setting its dispatcher builds and reads each selection-bearing option it accepts, that the dispatcher builds "
            "each setting from its own parameter, that the scipy fallback re-issues the same settings, and that the dense "
            "routine table is total and consistent with its keys. Does NOT decide residuals, orthonormality, selection "
            "correctness, thresholds or block-diagonal equivalence."
        ),
        "assumptions": COMMON_ASSUMPTIONS,
    },
    "C14": {
        "rules": [
            bp.rule_bp_exponent, bp.rule_accumulator_units, bp.rule_bp_normalizers, bp.rule_factor_orientation, bp.rule_damping_order, bp.rule_dual_refresh, bp.rule_bp_cache_invalidate, bp.rule_pair_normaliser_phase, bp.rule_excluded_tensors_accounted, bp.rule_gloop_singletons, bp.rule_query_selects_output, bp.rule_converged_by_tolerance,
            P(registries.rule_mode_total, specs=[
                ("quimb.tensor.belief_propagation.bp_common", "BeliefPropagationCommon.normalize.setter", "normalize"),
                ("quimb.tensor.belief_propagation.bp_common", "BeliefPropagationCommon.distance.setter", "distance"),
                ("quimb.tensor.belief_propagation.hv1bp", "HV1BP.normalize.setter", "normalize"),
                ("quimb.tensor.belief_propagation.hv1bp", "HV1BP.distance.setter", "distance"),
                ("quimb.tensor.belief_propagation.d2bp", "D2BP.partial_trace", "get"),
                ("quimb.tensor.belief_propagation.d2bp", "D2BP.partial_trace_gloop_expand", "combine"),
            ]),
            P(inplace.rule_inplace_effect, family=_in_modules("quimb.tensor.belief_propagation"), rule="inplace-effect[bp]", floor=13, controls=0),
        ],
        "explanation": (
            "static: decides that every BP value route folds in the accumulated sign/exponent, that all readers of one class "
            "use one unit convention (x1 vs x2), that normalisers accrue exactly the factor they divide by, that mode options "
            "reject unknown values, and that no BP constructor / gauging / compression routine mutates the caller's network "
            "under inplace=False. Does NOT decide exactness on trees, marginal consistency or schedule independence."
        ),
        "assumptions": COMMON_ASSUMPTIONS,
    },
    "C10": {
        "rules": [exponent.rule_linop_dtype, dmrg.rule_sandwich_orientation,
            dmrg.rule_lockstep, dmrg.rule_mirror_blocks, registries.rule_dense_linop_agree,
            P(dmrg.rule_sweep_memory, sites=[("quimb.tensor.tn1d.dmrg", "DMRG.solve", ("sweep",), "canonize")]),
            dmrg.rule_skip_licence_intact, dmrg.rule_truncating_update_normalised, dmrg.rule_onesite_cap_enforced,
            P(iso.rule_iso_claim, only_modules=("quimb.tensor.tn1d.dmrg",), rule="iso-claim[dmrg]"),
            P(optflow.rule_option_delivery, opts=("bra",), modules=("quimb.tensor.tn1d.core", "quimb.tensor.tensor_core", "quimb.tensor.tn2d.core"),
              rule="bra-forwarding", floor=10,
              description="every function with a `bra` parameter forwards bra=bra to each callee that accepts `bra` (a dropped bra "
                          "leaves the conjugate state un-updated while the ket moves)"),
            P(registries.rule_mode_total, specs=[("quimb.tensor.tn1d.dmrg", "MovingEnvironment.init_segment", "begin")]),
        ],
        "explanation": (
            "static: decides that DMRG updates ket and bra in lock-step with conjugated data and lower indices, that every "
            "centre-moving / bond-expanding call on the ket passes the bra, that functions taking `bra` forward or mirror it, "
            "Does NOT decide the variational bound, monotonicity or "
            "agreement with exact diagonalisation."
        ),
        "assumptions": COMMON_ASSUMPTIONS,
    },
    "C09": {
        "rules": [
            registries.rule_compress_registry_1d, registries.rule_full_span, registries.rule_centre_shift, exponent.rule_sum_exponents, memo.rule_density_orientation,
            P(iso.rule_iso_claim, only_modules=("quimb.tensor.tensor_core",), rule="iso-claim[arithmetic]"),
            registries.rule_fill_fn_siblings, registries.rule_length_delivered, registries.rule_ctor_length_siblings, registries.rule_transpose_order_domain,
            P(dmrg.rule_sweep_memory, sites=[("quimb.tensor.tn1d.compress", "tensor_network_1d_compress_fit", None, "prepare")], rule="sweep-memory[fit]"),
            P(optflow.rule_option_delivery, opts=("max_bond", "cutoff"), modules=("quimb.tensor.tn1d",), rule="cap-delivery[1d]", floor=40),
            P(registries.rule_mode_total, specs=[
                ("quimb.tensor.tn1d.core", "TensorNetwork1DFlat.compress", "form"),
                ("quimb.tensor.tn1d.compress", "_src_get_local_noise_tensors", "noise_mode"),
                ("quimb.tensor.tnag.core", "tensor_network_apply_op_vec", "which_A"),
            ]),
            P(inplace.rule_inplace_effect, family=_c09_family, rule="inplace-effect[1d]", floor=25, controls=0),
        ],
        "explanation": (
            "static: decides the structural conditions of C09 — every registered 1D compression method accepts what the "
            "dispatcher passes and reads each option it accepts; the bond cap and cutoff are delivered along every call "
            "edge of quimb/tensor/tn1d whose callee accepts them (so no route silently drops the cap); mode dispatchers "
            "reject unknown modes; MPS/MPO arithmetic and all compressors obey the non-mutation discipline. Does NOT decide "
            "dense round-trips, error bounds or convergence of fit methods."
        ),
        "assumptions": COMMON_ASSUMPTIONS,
    },
    "C12": {
        "rules": [
            registries.rule_ag_compress_registry, exponent.rule_view_accrual, capguard.rule_cap_guard, capguard.rule_pair_predicate, capguard.rule_opts_delivered, envs.rule_private_boundary, envs.rule_env_scope, envs.rule_stored_env_private, envs.rule_gauge_double_count, order.rule_gauge_fuse_total,
            P(optflow.rule_option_delivery, opts=("max_bond", "cutoff"),
              modules=("quimb.tensor.tn2d", "quimb.tensor.tn3d", "quimb.tensor.tnag.compress", "quimb.tensor.tensor_core"),
              rule="cap-delivery[boundary]", floor=80),
            P(registries.rule_mode_total, specs=[
                ("quimb.tensor.tensor_core", "TensorNetwork._compute_bond_env", "method"),
                ("quimb.tensor.tensor_core", "TensorNetwork.insert_compressor_between_regions", "mode"),
            ]),
            P(inplace.rule_inplace_effect, family=_c12_family, rule="inplace-effect[boundary]", floor=25, controls=0),
        ],
        "explanation": (
            "static: decides that the bond cap / cutoff (and the compress_opts that carry them) are delivered along every "
            "call edge of the 2D/3D boundary, CTMRG/HOTRG, arbitrary-geometry and compressed-contraction code whose callee "
            "accepts them; that registered arbitrary-geometry methods read their options; that mode dispatchers reject "
            "unknown modes; and that all these schemes obey the non-mutation discipline. Does NOT decide exactness at large "
            "cap, the run-time bond-cap invariant, or environment consistency."
        ),
        "assumptions": COMMON_ASSUMPTIONS,
    },
    "C04": {
        "rules": [order.rule_gauge_order_binding, iso.rule_iso_invalidate, iso.rule_flag_setter_total, iso.rule_iso_claim, iso.rule_gauge_record_agree, iso.rule_merge_collapses_holders, iso.rule_exp_compensate, iso.rule_strip_member, exponent.rule_view_accrual, simplify.rule_output_protected, order.rule_gauge_fuse_total,
                  functools.partial(inplace.rule_inplace_effect, family=iso.rewrite_family, rule="inplace-effect[rewrites]", floor=40, controls=0)],
        "explanation": (
            "static: decides (a) the isometry flag left_inds as a typestate — dropped by every data write, low-level "
            "setters reserved to meaning-preserving callers, own flag re-asserted only with isometry-preserving data, "
            "no caller-supplied array flagged; (b) scale compensation — log10(F) accrued into exponent only where F "
            "divides tensor data, distribute_exponent and the gauging scale are paired, strip_exponent only on "
            "tensors the network really holds; (c) the rewrite families (gauge/canonize/simplify/compress/...) obey "
            "the non-mutation discipline. Does NOT decide that a rewrite preserves the dense tensor numerically nor "
            "that promised forms are achieved."
        ),
        "assumptions": COMMON_ASSUMPTIONS,
    },
    "C08": {
        "rules": [record.rule_record, record.rule_record_written, record.rule_forked_record_object, record.rule_swap_precondition, iso.rule_flag_setter_total, record.rule_absorb_keyed, record.rule_clients, record.rule_record_consumers, iso.rule_iso_claim, iso.rule_iso_invalidate],
        "explanation": (
            "static (typestate-style rules over the record-aware functions of tn1d/core.py and their circuit "
            "clients): decides that the canonical-form record is threaded to every record-aware callee, is only "
            "ever updated for the object that is handed back (else forked), is re-asserted after structural "
            "changes, and that absorb-/option-keyed stores name the right site. Does NOT decide numerical "
            "isometry of the sites nor the values computed through the canonical form."
        ),
        "assumptions": COMMON_ASSUMPTIONS,
    },
    "C11": {
        "rules": [tebd.rule_id_cache, tebd.rule_trotter_coeffs, tebd.rule_time_bookkeeping, tebd.rule_term_sharing,
                  tebd.rule_memo_key_complete, tebd.rule_default_orientation, tebd.rule_gate_orientation, tebd.rule_renorm_at_centre],
        "explanation": (
            "static (cache-key/lifetime rule, constant folding, statement-order rules): decides that id()-keyed "
            "operator caches stay coherent with the terms they key, that the product-formula coefficients satisfy "
            "their order conditions (sum w = 1, sum w^3 = 0, palindromic order 2), that TEBD's time and queue "
            "bookkeeping is paired, and that single-site terms are shared without changing the sum. Does NOT "
            "decide equality with the product formula, convergence order or norm preservation."
        ),
        "assumptions": COMMON_ASSUMPTIONS,
    },
    "C18": {
        "rules": [evo.rule_kind_dispatch, evo.rule_update_order, evo.rule_evo_eq_table, evo.rule_integrator_setup, evo.rule_congruence, evo.rule_faithful_state, evo.rule_evo_clock],
        "explanation": (
            "static (dispatch-table extraction over Evolution.__init__ and its set-up helpers): decides that every "
            "method x state-kind combination is dispatched on self._isdop or rejected, that unsupported "
            "Hamiltonian kinds are rejected, that unknown methods raise, and that every update routine assigns "
            "state and time before the callback and uses one consistent time origin. Does NOT decide agreement "
            "with exp(-iHt), conservation laws or integrator tolerance."
        ),
        "assumptions": COMMON_ASSUMPTIONS,
    },
    "C16": {
        "rules": [threads.rule_kernel_template, threads.rule_pool_discipline, threads.rule_divisor_nonzero,
                  threads.rule_stride_siblings, threads.rule_accumulator_initialised, reduceorder.rule_reduce_order, threads.rule_no_nested_pool_wait, threads.rule_growth_seed_positive],
        "explanation": (
            "static (template conformance + sign/zero abstract interpretation + sibling comparison): decides "
            "the shapes from which schedule independence follows — every block kernel partitions its own size "
            "with its own parameters, iterates only its own blocks, writes only at the block index; the "
            "partition helper never divides by zero; the pool submits exactly one task per rank and observes "
            "worker failures; strided kernels and their launchers agree. Does NOT decide the tiling identity "
            "stop(b) == start(b+1) (arithmetic) nor numerical equality with serial numpy."
        ),
        "assumptions": COMMON_ASSUMPTIONS + ["numba-compiled kernels are analysed as Python source; only sign/zero facts are used, which numba's typing does not change"],
    },
    "C05": {
        "rules": [decomp.rule_absorb_tables, decomp.rule_cutoff_tables, decomp.rule_guard_agree,
                  decomp.rule_clamp, decomp.rule_use_or_reject, decomp.rule_split_flags, decomp.rule_cache_immut, decomp.rule_cache_typed, decomp.rule_alias_normalised, decomp.rule_renorm_power_siblings, decomp.rule_full_spectrum_before_trim, decomp.rule_delegation_complete, decomp.rule_nonneg_before_sqrt, decomp.rule_partial_selection, decomp.rule_error_after_clamp, decomp.rule_fixed_form_claim,
                  P(iso.rule_iso_claim, only_modules=("quimb.tensor.tensor_core", "quimb.tensor.decomp"), rule="iso-claim[split]")],
        "explanation": (
            "static (constant evaluation of the module-level tables + decision-table extraction + sibling "
            "comparison): decides that the absorb / cutoff-mode vocabularies are decoded identically by the "
            "generic and numba implementations and by the isometry-flag parser, that all truncation sentinels "
            "follow one convention, that the kept rank is clamped to [1, cap], that accepted options are read, "
            "and that tensor_split flags isometries exactly as the parser says. Does NOT decide reconstruction "
            "exactness, optimality, the reported error, or numerical isometry."
        ),
        "assumptions": COMMON_ASSUMPTIONS,
    },
    "C01": {
        "rules": [exponent.rule_partial_contraction_inds, exponent.rule_linop_dtype, exponent.rule_sum_exponents, exponent.rule_conj_mangle_universe, exponent.rule_linop_private_tensors, exponent.rule_exp_drop, exponent.rule_exp_flow, exponent.rule_exp_combine, exponent.rule_linop,
                  exponent.rule_carrier_derivation, exponent.rule_hyper_count],
        "explanation": (
            "static (AST def-use flag closure): decides exponent accounting — every evaluator that turns tensors "
            "extracted from a network into a non-network value reads that network's stored exponent or delegates "
            "to a callee that receives the network; tensor_contract applies its exponent argument on both paths; "
            "network combination carries the exponent; TNLinearOperator forwards all of its state and honours "
            "is_conj in every evaluating method. Does NOT decide equality across optimizers/paths/backends, "
            "output label order, or hyper-index summation semantics (numerical, delegated to cotengra)."
        ),
        "assumptions": COMMON_ASSUMPTIONS,
    },
    "C02": {
        "rules": [maps.rule_map_owner, maps.rule_rename_notifies, maps.rule_pairing,
                  maps.rule_copy_complete, maps.rule_extra_props, maps.rule_collision_provenance, maps.rule_tid_rebind],
        "explanation": (
            "static (AST who-may-write + structural pairing rules): decides the structural conditions under "
            "which the lookup maps can never go stale — only the maintaining methods write tensor_map / ind_map / "
            "tag_map / inner-outer sets / owner registry (incl. through local aliases and live tag/index entries); "
            "those methods pair their updates; renames notify owners before rebinding; copies duplicate rather "
            "than alias the maps; subclass state is declared in _EXTRA_PROPS. Does NOT decide value-level "
            "agreement of index sizes or weak-reference/GC timing."
        ),
        "assumptions": COMMON_ASSUMPTIONS,
    },
    "C03": {
        "rules": [caches.rule_derived_cache_invalidate, caches.rule_stale_receiver, caches.rule_inplace_returns, inplace.rule_inplace_effect, inplace.rule_alias_spelling, inplace.rule_array_immut, inplace.rule_operator_pure, inplace.rule_axis_by_label, inplace.rule_positional_handover, order.rule_gauge_order_binding],
        "explanation": (
            "static (AST + interprocedural alias/effect analysis): decides the non-mutation clause of C03 — "
            "every plain spelling of an (f, f_) pair leaves its receiver, the tensors it shares and their "
            "arrays untouched; f_ is f with inplace=True; no in-place array writes on tensor data. "
            "Does NOT decide axis-order independence or numerical equality of f(x) and f_(copy(x))."
        ),
        "assumptions": COMMON_ASSUMPTIONS,
    },
}


TECHNIQUE = {
    "C07": "static analysis: dominance-style rule (staleness check before every memo access), writers-must-invalidate rule, copy completeness, static evaluation of the gate registries vs convenience methods",
    "C06": "static analysis: closed-vocabulary rule for gate modes, structural rewiring (reindex-before-attach) rule, option delivery (OPTFLOW) over the gate entry points, effect analysis",
    "C15": "static analysis: option delivery (OPTFLOW) of the row-ownership range, dispatcher sibling-argument comparison, decision-table extraction of the expectation table",
    "C19": "static analysis: decision-table extraction of the symmetry dispatchers, kernel-name/arity agreement, sibling comparison of strided kernels and launchers",
    "C17": "static analysis: static evaluation of the backend registries, interface + use-or-reject rules, consistency of the dense routine table",
    "C14": "static analysis: sibling comparison of accumulator readers (unit convention) inside each BP class, delivery of sign/exponent to every combining call, pairing rule for normalisers, effect analysis",
    "C10": "static analysis: ket/bra lock-step and conjugation pairing rules over the DMRG classes, bra forwarding (OPTFLOW) and mirror-block rules",
    "C13": "static analysis: option-delivery (OPTFLOW) for normalized / rehearse / truncation options, mode totality, effect analysis, canonical-record typestate rules",
    "C09": "static analysis: registry/dispatcher interface and use-or-reject rules, option-delivery (OPTFLOW) over the 1D call edges, effect analysis of compressors and MPS/MPO arithmetic",
    "C12": "static analysis: option-delivery (OPTFLOW) over boundary / compressed-contraction call edges, registry use-or-reject, mode totality, effect analysis",
    "C04": "static analysis: typestate rules for the isometry flag (invalidate / claim provenance), exponent-compensation pairing rules, membership rule for strip_exponent, effect analysis of the rewrite families",
    "C08": "static analysis: typestate rules on the info['cur_orthog'] record (threading, object-following with copy/alias classification, re-assertion after structural events, option-keyed stores)",
    "C11": "static analysis: id()-keyed cache coherence rule, constant folding of Trotter coefficients, structural time/queue bookkeeping rules",
    "C18": "static analysis: dispatch-table extraction (method x state kind) with helper following; statement-order rules on the update routines",
    "C16": "static analysis: kernel-template conformance and write-disjointness rules, sign/zero abstract interpretation of the partition helper, future-observation rule, strided-sibling comparison",
    "C05": "static analysis: constant evaluation of registries, decision-table extraction and generic/numba sibling comparison, sentinel-convention and option use-or-reject rules",
    "C01": "static analysis: def-use flag closure (network / extracted-tensors / exponent-read) per evaluator + constructor-forwarding and sibling rules on TNLinearOperator",
    "C02": "static analysis: who-may-write scan with local alias tracking + structural pairing/ordering rules on the owner methods",
    "C03": "static analysis: interprocedural alias/effect analysis under inplace=True/False contexts; alias-table and array-write rules",
}
LEVEL_TEXT = {}
_PENDING = "check not built yet in this session (planned per DESIGN.md)"
NOT_APPLICABLE = {
    "C20": "every clause is a numerical identity / bound / invariance of returned values; no table, pairing or "
           "ownership structure in the code implies any of them — see DESIGN.md §3 C20",
}
for _p in ["C01", "C04", "C05", "C06", "C07", "C08", "C09", "C10", "C11", "C12", "C13", "C14", "C16", "C17", "C18", "C19"]:
    if _p not in REGISTRY:
        NOT_APPLICABLE[_p] = _PENDING


# rules added after the first build: one sentence each, appended to the explanation / technique texts
_ALSO = {
    "C01": " Also: every routine that contracts a subset of a network's tensors and puts the result back decides the kept labels with "
           "network-wide holder information (compute_contracted_inds / an ind_map), never with tensor_contract's local default; the "
           "dtype TNLinearOperator advertises is computed over all of its tensors.",
    "C02": " _unlink_inds is decided by abstract interpretation over the number of holders that remain (0, 1, >= 2).",
    "C03": " Also: stored tensor data is never combined by broadcasting with a freshly built lower-rank array (positional alignment).",
    "C05": " Also: memoised option parsers that distinguish True from 1 are typed caches; `absorb is None` is only tested on a "
           "normalised value; generic and numba truncation take the renormalisation power from the same option; the cumulative "
           "cutoff rules count on an uncapped spectrum. split-flags is decided by def-use, not by text.",
    "C16": " Also: arrays handed to the accumulate-only matvec kernels are fresh zeros or fully zeroed on every path; the size a "
           "threaded kernel partitions is an extent of an array it indexes directly by the block index.",
    "C06": " Also: every entry point accepting `dagger` applies or forwards it; swap routines keep the caller's site order; an index "
           "a gate routine leaves in the caller's network is named by rand_uuid() or a parameter, never a literal.",
    "C07": " Also: copy() deep-copies option dicts that hold nested mutable per-object state; sibling memoising methods key their caches on the same components; CircuitPermMPS records the permutation for "
           "exactly the sites a swap moved; record clients follow self._psi.",
    "C09": " Also: a two-part compress(form=...) sweep spans the whole chain; the fit driver's sweep memory (which licenses skipping the "
           "environment rebuild) is a local, initialised to a constant and set after the sweep.",
    "C10": " Also: the matrix-free local operator advertises the common dtype of all its tensors; the dense and LinearOperator forms of the local operator are built from the same index lists; the sweep memory that "
           "licenses canonize=False never outlives, or lags behind, the sweep it remembers.",
    "C11": " Also: memoised gates are keyed on every mutable attribute they depend on; default terms are spread only over bonds with "
           "no term in either orientation; a term stored under the sorted pair is flipped when requested in the opposite order and "
           "TEBD applies each gate on the pair it was requested for.",
    "C12": " Also: norm stripped through a view is accrued on the returned network; every guard comparing a size with max_bond "
           "compresses above / skips within the cap on the measured pair, and the gauge-only shortcut makes isometric the tensor "
           "whose outer size the guard bounded, in each ordering of the two sizes.",
    "C13": " Also (structural parts of site-ordering, cache reuse and the unnormalised value): a set of the requested sites is never "
           "consumed by an order-carrying operation; values cached in a caller-supplied `info` dict are keyed on every semantic "
           "parameter they depend on; boundary environments carry the exponent that equalize_norms stripped.",
    "C14": " Also: sibling agreement on the transposition of the two messages of a bond when reduced factors are built; every value "
           "route reads the (sign, exponent) accumulator.",
    "C17": " Also: tensor-network linear operators advertise the common dtype of all their tensors (solvers allocate work arrays in it); every index array that selects / reorders eigen- or singular values is an argsort of the values of the array it "
           "permutes (through selector helpers), and arrays returned together are permuted together.",
    "C18": " Also: the table of right-hand sides is total over closed-system combinations and each entry's kind agrees with its key "
           "(ket/dop, ham(t) at the integrator's time for time-dependent keys, factor -i, hrho - hrho^dagger); the integrator is "
           "set up from the state kind, sparsity and time-dependence and started at self.t0 from the initial state; `t`/`pt` switch "
           "on the same test; callbacks and `pt` rebuild the state with the same reshape. The method / kind / time-origin rules are "
           "purely structural (AST), no text matching. A symbolic algebra over (transpose, conjugate) flags decides that every "
           "density-operator update is a congruence L rho L^dagger (using only H^dagger = H), and the state handed out under "
           "method='integrate' is the integrator's vector after shape-only operations.",
    "C19": " Also: dimensional analysis of the coefficient update in simplify_single_site_ops (A/a == B/b, A replaced by B => "
           "coefficient times a/b); the Jordan-Wigner string covers [0, reg); dict-form sectors are ordered canonically; every write "
           "of the builder's terms / transform flags reaches _reset_caches() on every path.",
}
_ALSO_TECH = {
    "C06": "; literal-name escape rule",
    "C07": "; sibling cache-key comparison",
    "C09": "; span and sweep-memory (def-use + statement-order) rules",
    "C10": "; dense/linop sibling comparison, sweep-memory rule",
    "C11": "; memo-key def-use rule, orientation rules",
    "C12": "; comparison-guard rule with finite case split over size orderings",
    "C13": "; unordered-collection dataflow rule, memo-key def-use rule",
    "C14": "; transposition-parity sibling rule",
    "C17": "; argsort-provenance dataflow with helper following, companion-permutation rule",
    "C18": "; static evaluation of the right-hand-side table with per-entry kind checks, provenance of the integrator set-up arguments, symbolic transpose/conjugate word algebra for the two-sided updates",
    "C19": "; monomial (dimensional) analysis, interval rule, {clean,dirty} path analysis of cache invalidation",
}
for _pid, _txt in _ALSO.items():
    REGISTRY[_pid]["explanation"] = REGISTRY[_pid]["explanation"] + _txt
for _pid, _txt in _ALSO_TECH.items():
    TECHNIQUE[_pid] = TECHNIQUE[_pid] + _txt

_ALSO2 = {
    "C01": " A routine that adds two networks absorbs or compares their exponents; norm stripped through a temporary view is accrued on the network that survives.",
    "C03": " A cached attribute derived from another cached attribute is reset with it; a method working on `tn = self if inplace else self.copy()` does not read map-backed structure from `self` after the first write to `tn`; a public method whose siblings return the network does not return the result of a procedure that returns nothing.",
    "C04": " tensor_multifuse fuses tensors and gauges from the same index sequence.",
    "C09": " After a compression sweep the centre is moved to `form` from the boundary the sweep ended on; network sums absorb or compare exponents; partial_trace_to_mpo puts the row index on the unconjugated copy.",
    "C10": " The energy network puts the ket on the MPO's column (lower) indices (today a known finding: the sweeps minimise <psi|H^T|psi>).",
    "C11": " Every object used as an id() cache key is retained (an entry of self.terms, of another cache, or the caller's argument); step() drains a queued sweep on every exit that advances time; imaginary-time renormalisation uses the tensor the sweep left the centre on.",
    "C12": " The boundary network handed to a 1D compressor owns its tensors.",
    "C13": " The arms of the tri-state `normalized` dispatch test the option the same way; operators are attached with their row index on the bra side and reduced density operators carry the row index on the unconjugated copy; a route that builds its value from a slice / selection of the state reads self.exponent when the unnormalised value can be requested.",
    "C14": " Every BP class calls the shared damping function with (old, new) in the order its definition fixes; every exit of D2BP.gate_ that wrote self.tn re-initialises the dual tensors.",
    "C17": " Options whose meaningful values include 0 are tested with `is None`; a trailing `a, b, c if flag else d` return is reported when the sibling exits show the whole tuple was meant to be conditional.",
    "C19": " The simplify pass between Jordan-Wigner transform and Pauli decomposition is unconditional; sibling routes take the coupling-map ordering from the symmetry resolved for this call.",
}
_ALSO_TECH2 = {
    "C01": "; sibling rule over sum routines",
    "C03": "; derived-attribute invalidation, receiver-staleness (statement order + def-use), return-of-procedure rule",
    "C04": "; same-sequence binding rule",
    "C09": "; direction/boundary agreement rule, orientation def-use rule",
    "C10": "; orientation def-use rule",
    "C11": "; retained-object provenance for id() keys, symbolic sweep end-point",
    "C12": "; ownership (copy vs virtual view) rule",
    "C13": "; sibling guard comparison, orientation def-use rules, exponent-read obligation",
    "C14": "; argument-order sibling rule against the callee's definition, {clean,dirty} path analysis",
    "C17": "; truthiness-vs-None rule with positive control, operator-precedence return rule",
    "C19": "; pipeline-order rule, sibling option-source rule",
}
for _pid, _txt in _ALSO2.items():
    REGISTRY[_pid]["explanation"] = REGISTRY[_pid]["explanation"] + _txt
for _pid, _txt in _ALSO_TECH2.items():
    TECHNIQUE[_pid] = TECHNIQUE[_pid] + _txt

_ALSO3 = {
    "C01": " conj(mangle_inner, output_inds) renames every label that is not an output (complement over all labels); in `if V is None: ... else: ...` both arms fold the stored exponent into V.",
    "C02": " A method that re-keys tensor_map re-registers the owners.",
    "C03": " `A.modify(data=B.data)` is reached only with B aligned like A on every path (must-analysis).",
    "C04": " The gauge applied by gauge_simple_insert is the gauge it records; diagonal_reduce collapses the merged index on every holder; the flag setter assigns on every path; a decomposition factor is flagged only for the absorb modes (and, for a run-time method, shapes) that make it an isometry.",
    "C05": " A driver delegating to another passes on every truncation option both accept; on every path of the hermitian-eigendecomposition drivers on which a square-root absorb mode is possible the spectrum is non-negative; inline absorb tables put the singular values on the factor their code names.",
    "C06": " gate_nonlocal factorises the gate with the state's site tags and the caller's cutoff.",
    "C07": " Circuit constructors bind their options to the base constructor's parameters of the same name.",
    "C08": " Every routine that stores the record itself does so (or hands the record on) on every path that follows a change of the network; the absorb chain of swap_sites_with_compress is total.",
    "C09": " MPS and MPO from_fill_fn decide bonds by the same tests; generators deliver L together with sites; data combined from two operands does not inherit one operand's isometry flag.",
    "C10": " A rewrite of the state between two sweeps re-decides the canonize flag; the two-site update flags a factor isometric only for the matching sweep direction.",
    "C12": " No predicate over a pair of tensors repeats a conjunct; an option dict that is completed is handed on.",
    "C14": " Message writers drop the matching entries of every lazily filled memo; normalize_message_pair divides out the phase of the overlap; rank-0 tensors left out of the batches are multiplied into the batched value; every generalized-loop expansion chains in the single tensor regions.",
    "C15": " par_reduce combines only operand-adjacent partial results (abstract interpretation over operand intervals).",
    "C16": " par_reduce combines only operand-adjacent partial results; a threaded kernel's index state is not carried across its blocks.",
    "C17": " A LinearOperator's _rmatvec is not identical to its _matvec.",
    "C18": " Every site that advances the state through the update slot leaves the clock at the requested time.",
}
_ALSO_TECH3 = {
    "C03": "; must-analysis over branches",
    "C05": "; path enumeration with a sign abstraction, delegation sibling rule",
    "C08": "; must-analysis of record stores",
    "C10": "; effect-engine query inside the sweep loop",
    "C14": "; memo / writer pairing, sibling region rule",
    "C15": "; abstract interpretation over an operand-interval domain with bounded unrolling",
    "C16": "; abstract interpretation over an operand-interval domain; loop-carried state rule",
}
for _pid, _txt in _ALSO3.items():
    REGISTRY[_pid]["explanation"] = REGISTRY[_pid]["explanation"] + _txt
for _pid, _txt in _ALSO_TECH3.items():
    TECHNIQUE[_pid] = TECHNIQUE[_pid] + _txt

_ALSO4 = {
    "C04": " An index consumed by a simplification pass on the whole network is proven not to be an output index on every path; the result of isometrize() is flagged on the side its shape makes isometric.",
    "C05": " A split driver with a fixed form is judged isometric by its registered default, not by the requested absorb; the eigenvalue selection of the iterative hermitian driver, the error after the bond cap and the window size are decided by sibling / ordering rules.",
    "C06": " The pair a swap-based gate acts on is the requested (i, j) in order.",
    "C03": " Per-index gauges and the fuse that follows them enumerate the indices through one binding (the stored axis order of a tensor cannot separate them).",
    "C07": " Sites re-bound to a sorted version are not handed on next to the unpermuted operator (permutation-tracking MPS).",
    "C16": " A buffer capacity that grows by doubling is seeded with a value that is positive whenever the sizes are (sign / zero abstract evaluation).",
    "C08": " The record is updated only for the object handed back (satisfiability of fork vs in-place receiver); a compressed swap canonicalizes the pair before it moves the record.",
    "C09": " The axes list the MPS / MPO constructors hand to transpose() enumerates the result layout (not the inverse permutation).",
    "C10": " A truncating two-site update renormalises the kept spectrum; the one-site sweep enforces the bond cap explicitly.",
    "C11": " A single-site term keeps the side it was assigned to when its bond is flipped; cyclic imaginary-time sweeps renormalise with the full norm.",
    "C12": " Environments stored from a working network that is contracted further are private copies; a copy used together with `gauges=G` is taken before G is re-inserted; norms are stripped from the contracted boundary only.",
    "C13": " singular_values (and the Schmidt values / entropies built on it) read the stored exponent; a pair of sites is sorted together with its operator; no exit returns evaluated values before the exponent is applied; a sorted copy of the requested sites does not order the axes of a dense result.",
    "C14": " The output axis of a marginal contraction is selected by the queried index; the driver declares convergence only from a value that depends on a tolerance parameter.",
    "C15": " The dims handed to permute() describe the current layout and are not computed from the inverse permutation passed as perm. The sparse partial trace recursion reaches its base case with the reduced dims; (known finding) partial_trace orders the kept subsystems ascending whereas pkron honours the order given.",
    "C17": " The window driver hands k to both routes.",
    "C19": " The wrap-around bond of a cyclic chain is embedded at (L-1, 0); same-site operator products keep the order of the term.",
}
_ALSO_TECH4 = {
    "C04": "; path-sensitive must-analysis of membership facts",
    "C08": "; boolean satisfiability over branch atoms",
    "C12": "; typestate (extracted / inserted gauges) with correlated-branch handling, view / copy provenance of stored environments",
    "C14": "; control-dependence of the output spec on the query parameter",
}
for _pid, _txt in _ALSO4.items():
    REGISTRY[_pid]["explanation"] = REGISTRY[_pid]["explanation"] + _txt
for _pid, _txt in _ALSO_TECH4.items():
    TECHNIQUE[_pid] = TECHNIQUE[_pid] + _txt

from .selftest import make_selftest  # noqa: E402

for _pid, _spec in REGISTRY.items():
    _spec["selftest"] = make_selftest(_pid)
