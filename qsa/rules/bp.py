"""C14: belief propagation folds in the accumulated sign / exponent, in one
consistent unit per class; BP never mutates the caller's network unless asked."""

import ast

from ..framework import RuleResult, Finding
from ..model import dotted, src_of, const_value
from .. import AnalysisError

BPMODS = ("d1bp", "d2bp", "hd1bp", "hv1bp", "l1bp", "l2bp")
COMBINERS = {"combine_local_contractions", "process_loop_series_expansion_weights", "contract_hyper_messages"}


def _bp_classes(ctx):
    common = ctx.prog.cls("quimb.tensor.belief_propagation.bp_common", "BeliefPropagationCommon")
    return common, [c for c in common.all_subclasses()]


def _unit_of(expr):
    """(kind, multiplier) for an expression reading the accumulator:
    self.exponent -> 1 ; self.exponent * 2 / 2 * self.exponent -> 2;
    self.sign -> 1 ; self.sign ** 2 -> 2 ; None if it does not read it."""
    s = src_of(expr).replace(" ", "")
    for attr in ("exponent", "sign"):
        if s == f"self.{attr}":
            return attr, 1
        if s in (f"self.{attr}*2", f"2*self.{attr}", f"self.{attr}**2", f"self.{attr}*self.{attr}"):
            return attr, 2
    return None


def rule_bp_exponent(ctx):
    r = RuleResult(
        "bp-exponent",
        "the BP constructor captures tn.exponent; every call of combine_local_contractions / "
        "process_loop_series_expansion_weights inside a BP class delivers exponent= and mantissa= derived from "
        "self.exponent and self.sign (a route that forgets them is wrong for any network with a stored exponent)",
    )
    common, classes = _bp_classes(ctx)
    init = common.methods["__init__"]
    tnparam = [p_ for p_ in init.posparams if p_ != "self"][0]
    captures = any(isinstance(a, ast.Assign) and any(src_of(t) == "self.exponent" for t in a.targets)
                   and any(isinstance(x, ast.Attribute) and x.attr == "exponent" and isinstance(x.value, ast.Name) and x.value.id in (tnparam, "tn") for x in ast.walk(a.value))
                   for a in ast.walk(init.node))
    sign1 = any(isinstance(a, ast.Assign) and any(src_of(t) == "self.sign" for t in a.targets) and const_value(a.value, None) in (1, 1.0) for a in ast.walk(init.node))
    if captures and sign1:
        r.ok("BeliefPropagationCommon.__init__", sample={"captures": "self.exponent = tn.exponent; self.sign = 1.0"})
    else:
        r.bad(Finding("bp-exponent", "BeliefPropagationCommon.__init__", "does not capture tn.exponent / initialise sign", where=f"{init.module.relpath}:{init.lineno}"))
    n = 0
    for c in classes:
        for name, f in c.methods.items():
            if f.cls is not c or f.is_alias or isinstance(f.node, ast.Lambda):
                continue
            defs = {}
            for x in ast.walk(f.node):
                if isinstance(x, ast.Assign) and len(x.targets) == 1 and isinstance(x.targets[0], ast.Name):
                    defs[x.targets[0].id] = x.value
                elif isinstance(x, ast.Assign) and len(x.targets) == 1 and isinstance(x.targets[0], ast.Tuple):
                    # tn, sign, exponent = self.get_normalized_tn()  (delegation to a method of the BP object)
                    for e in x.targets[0].elts:
                        if isinstance(e, ast.Name):
                            defs[e.id] = x.value
            for call in ast.walk(f.node):
                if isinstance(call, ast.Call) and (dotted(call.func) or "").split(".")[-1] in COMBINERS:
                    if any(k.arg == "return_all" and const_value(k.value, None) is True for k in call.keywords):
                        continue  # used for per-loop correction factors only, not for a value
                    n += 1
                    kws = {k.arg: k.value for k in call.keywords if k.arg}
                    q = f"{c.name}.{name}"
                    where = f"{f.module.relpath}:{call.lineno}"
                    for kw, attr in (("exponent", "exponent"), ("mantissa", "sign")):
                        v = kws.get(kw)
                        if isinstance(v, ast.Name) and v.id in defs:
                            v = defs[v.id]
                        delegated = isinstance(v, ast.Call) and isinstance(v.func, ast.Attribute) and src_of(v.func.value) == "self"
                        if v is not None and (f"self.{attr}" in src_of(v) or delegated):
                            r.ok(f"{q}[{kw}]", sample={"route": q, kw: src_of(kws[kw])})
                        else:
                            r.bad(Finding("bp-exponent", q,
                                          f"{(dotted(call.func) or '').split('.')[-1]}(...) (line {call.lineno}) is not given {kw}= derived from self.{attr}",
                                          where=where, operand=kw))
    # every value route (a contract* method with a strip_exponent switch) reads the accumulator, itself or through self-calls
    def reads(c, f, seen):
        got = set()
        for x in ast.walk(f.node):
            if isinstance(x, ast.Attribute) and isinstance(x.value, ast.Name) and x.value.id == "self" and x.attr in ("exponent", "sign") and isinstance(x.ctx, ast.Load):
                got.add(x.attr)
            if isinstance(x, ast.Call) and isinstance(x.func, ast.Attribute) and isinstance(x.func.value, ast.Name) and x.func.value.id == "self":
                g = c.find(x.func.attr)
                if g is not None and not g.is_alias and g.qualname not in seen and len(seen) < 12:
                    seen.add(g.qualname)
                    got |= reads(c, g, seen)
        return got
    nv = 0
    for c in classes:
        for name, f in c.methods.items():
            if f.cls is not c or f.is_alias or isinstance(f.node, ast.Lambda):
                continue
            if not name.startswith("contract") or "strip_exponent" not in f.params:
                continue
            nv += 1
            got = reads(c, f, {f.qualname})
            q = f"{c.name}.{name}"
            for attr in ("exponent", "sign"):
                if attr in got:
                    r.ok(f"{q}[reads {attr}]", nontrivial=False)
                else:
                    r.bad(Finding("bp-exponent", q, f"value route never reads self.{attr} (directly or through the self-methods it calls): what was stripped into the accumulator is lost from the result",
                                  where=f"{f.module.relpath}:{f.lineno}", operand=f"reads-{attr}"))
    r.floor(n, 10, "combining calls in BP classes")
    r.floor(nv, 10, "BP value routes")
    return r


def rule_accumulator_units(ctx):
    r = RuleResult(
        "accumulator-units",
        "inside one BP class all readers of the (sign, exponent) accumulator use one convention: at each reader "
        "the multiplier on self.exponent (x1 or x2) equals the power on self.sign, and all readers of the class "
        "agree with each other (a class that reads x2 in one value route and x1 in another is off by "
        "10**exponent in one of them after normalize_tensors)",
    )
    common, classes = _bp_classes(ctx)
    nreaders = 0
    for c in classes:
        readers = []  # (method, unit, line, text)
        for name, f in c.methods.items():
            if f.cls is not c or f.is_alias or isinstance(f.node, ast.Lambda):
                continue
            defs = {}
            for x in ast.walk(f.node):
                if isinstance(x, ast.Assign) and len(x.targets) == 1 and isinstance(x.targets[0], ast.Name):
                    defs[x.targets[0].id] = x.value
            for call in ast.walk(f.node):
                if isinstance(call, ast.Call):
                    kws = {k.arg: k.value for k in call.keywords if k.arg}
                    if "exponent" in kws and "mantissa" in kws:
                        ev, mv = kws["exponent"], kws["mantissa"]
                        if isinstance(ev, ast.Name) and ev.id in defs:
                            ev = defs[ev.id]
                        if isinstance(mv, ast.Name) and mv.id in defs:
                            mv = defs[mv.id]
                        ue, um = _unit_of(ev), _unit_of(mv)
                        if ue and um:
                            nreaders += 1
                            if ue[1] != um[1]:
                                r.bad(Finding("accumulator-units", f"{c.name}.{name}",
                                              f"reads exponent x{ue[1]} but sign **{um[1]} (line {call.lineno})",
                                              where=f"{f.module.relpath}:{call.lineno}", operand="mismatch"))
                            readers.append((name, ue[1], call.lineno, f"exponent={src_of(kws['exponent'])}"))
            # rho *= self.sign * 10 ** self.exponent
            for x in ast.walk(f.node):
                if isinstance(x, ast.AugAssign) and isinstance(x.op, ast.Mult):
                    attrs = {y.attr for y in ast.walk(x.value) if isinstance(y, ast.Attribute) and isinstance(y.value, ast.Name) and y.value.id == "self"}
                    if {"sign", "exponent"} <= attrs:
                        nreaders += 1
                        doubled = any(
                            isinstance(y, ast.BinOp) and isinstance(y.op, ast.Mult) and (
                                (src_of(y.left) == "self.exponent" and const_value(y.right, None) == 2) or (src_of(y.right) == "self.exponent" and const_value(y.left, None) == 2))
                            for y in ast.walk(x.value))
                        unit = 2 if doubled else 1
                        readers.append((name, unit, x.lineno, src_of(x)[:50]))
        if not readers:
            continue
        units = {u for _, u, _, _ in readers}
        where = f"{c.module.relpath}:{c.node.lineno}"
        if len(units) == 1:
            r.ok(c.name, sample={"class": c.name, "unit": f"x{units.pop()}", "readers": [f"{m}:{t}" for m, _, _, t in readers][:6]})
        else:
            listing = "; ".join(f"{m} x{u}" for m, u, _, _ in sorted(readers))
            r.bad(Finding("accumulator-units", c.name,
                          f"value routes of {c.name} read the (sign, exponent) accumulator in different units ({listing}): after "
                          f"normalize_tensors (or with a stored network exponent) some of them are off by 10**exponent",
                          where=where, operand="mixed-units"))
    r.floor(nreaders, 12, "accumulator readers")
    return r


def rule_bp_normalizers(ctx):
    r = RuleResult(
        "bp-compensate",
        "every BP normaliser that rescales tensors of self.tn accrues the factor: in normalize_tensors the value "
        "whose log10 is added to self.exponent and whose phase multiplies self.sign is the same local contraction "
        "value the tensor is divided by (or its square root), gated only by strip_exponent",
    )
    common, classes = _bp_classes(ctx)
    n = 0
    for c in classes:
        f = c.methods.get("normalize_tensors")
        if f is None or f.cls is not c or f.is_alias:
            continue
        n += 1
        where = f"{f.module.relpath}:{f.lineno}"
        defs = {}
        for x in ast.walk(f.node):
            if isinstance(x, ast.Assign) and len(x.targets) == 1 and isinstance(x.targets[0], ast.Name):
                defs[x.targets[0].id] = x.value

        def names(e):
            return {y.id for y in ast.walk(e) if isinstance(y, ast.Name)}

        def roots(name, depth=0):
            """names the value of `name` is computed from (transitively)"""
            out = {name}
            if depth < 6 and name in defs:
                for y in names(defs[name]):
                    if y != name:
                        out |= roots(y, depth + 1)
            return out

        exp_store = [x for x in ast.walk(f.node) if isinstance(x, (ast.Assign, ast.AugAssign)) and any(
            src_of(t) == "self.exponent" for t in (x.targets if isinstance(x, ast.Assign) else [x.target]))]
        sign_store = [x for x in ast.walk(f.node) if isinstance(x, (ast.Assign, ast.AugAssign)) and any(
            src_of(t) == "self.sign" for t in (x.targets if isinstance(x, ast.Assign) else [x.target]))]
        divs = [x for x in ast.walk(f.node) if isinstance(x, ast.AugAssign) and isinstance(x.op, ast.Div) and isinstance(x.target, ast.Name)]
        problems = []
        if not exp_store or not sign_store:
            problems.append("does not accrue into self.exponent and self.sign")
        if not divs:
            problems.append("does not rescale any tensor")
        if not problems:
            # the accrued log must be log10 of |V| for some V that the divisor is computed from
            logged = set()
            for x in exp_store:
                for nm in names(x.value) - {"self"}:
                    d = defs.get(nm)
                    if d is not None and "log10" in src_of(d):
                        logged |= roots(nm)
            divisor_roots = set()
            for dv in divs:
                for nm in names(dv.value):
                    divisor_roots |= roots(nm)
            common_vals = {v for v in logged & divisor_roots if v in defs and isinstance(defs[v], ast.Call) and "contract" in src_of(defs[v])}
            if not common_vals:
                problems.append("the value whose log10 is accrued is not the local contraction value the tensors are divided by")
            phase_ok = any(any("log10" not in src_of(defs.get(nm, ast.Constant(0))) and (roots(nm) & common_vals) for nm in names(x.value) - {"self"}) for x in sign_store)
            if common_vals and not phase_ok:
                problems.append("the phase accrued into self.sign is not derived from the same local contraction value")
            gated = all(any(isinstance(g, ast.If) and "strip_exponent" in src_of(g.test) and any(x is y for y in ast.walk(g)) for g in ast.walk(f.node)) for x in exp_store + sign_store)
            if not gated and "strip_exponent" in f.params:
                problems.append("accrual is not gated by strip_exponent consistently")
        if problems:
            for p_ in problems:
                r.bad(Finding("bp-compensate", f"{c.name}.normalize_tensors", p_, where=where, operand=p_[:30]))
        else:
            r.ok(f"{c.name}.normalize_tensors", sample={"class": c.name, "accrues": "log10|v| and phase of the local contraction value v", "divides": "tensor by a value computed from v"})
    r.floor(n, 2, "normalize_tensors implementations")
    return r


# ---------------------------------------------------------------------------
# orientation of the two messages of a bond when they are turned into reduced factors
# ---------------------------------------------------------------------------

def _own_walk(node):
    todo = [node]
    while todo:
        n = todo.pop()
        yield n
        for c in ast.iter_child_nodes(n):
            if not isinstance(c, (ast.FunctionDef, ast.AsyncFunctionDef, ast.Lambda)):
                todo.append(c)


def _transpose_parity(f, e, line, depth=0):
    """number (mod 2) of transpositions between the stored message and expression e, following locals, single-argument
    wrappers (conditioner(x), reshape(x, ...)) and local helper functions; None if the chain cannot be followed."""
    if depth > 8:
        return None
    if isinstance(e, ast.Attribute) and e.attr in ("T", "H"):
        p = _transpose_parity(f, e.value, line, depth + 1)
        return None if p is None else (p + 1) % 2
    if isinstance(e, ast.Call):
        fn = getattr(e.func, "attr", None) or getattr(e.func, "id", None)
        if fn in ("transpose", "dag") and e.args:
            p = _transpose_parity(f, e.args[0], line, depth + 1)
            return None if p is None else (p + 1) % 2
        if fn in ("transpose",) and isinstance(e.func, ast.Attribute) and not e.args:
            p = _transpose_parity(f, e.func.value, line, depth + 1)
            return None if p is None else (p + 1) % 2
        # local helper defined inside the function: follow its returns (all must agree)
        if isinstance(e.func, ast.Name):
            for d in ast.walk(f.node):
                if isinstance(d, ast.FunctionDef) and d.name == e.func.id and d is not f.node:
                    return ("helper", d)
        if e.args:  # wrapper: conditioner(m), ar.reshape(m, shape), do("reshape", m, ...)
            a0 = e.args[0]
            if isinstance(a0, ast.Constant) and len(e.args) > 1:
                a0 = e.args[1]
            return _transpose_parity(f, a0, line, depth + 1)
        return None
    if isinstance(e, ast.IfExp):
        a = _transpose_parity(f, e.body, line, depth + 1)
        b = _transpose_parity(f, e.orelse, line, depth + 1)
        return a if a == b else None
    if isinstance(e, ast.Subscript):
        if "messages" in src_of(e.value):
            return 0
        return _transpose_parity(f, e.value, line, depth + 1)
    if isinstance(e, ast.Attribute) and e.attr == "data":
        return _transpose_parity(f, e.value, line, depth + 1)
    if isinstance(e, ast.Name):
        best = None
        for a in _own_walk(f.node):
            if isinstance(a, ast.Assign) and a.lineno < line:
                for t in a.targets:
                    if isinstance(t, ast.Name) and t.id == e.id:
                        if best is None or a.lineno > best[0]:
                            best = (a.lineno, a.value, None)
                    elif isinstance(t, (ast.Tuple, ast.List)):
                        for k, el in enumerate(t.elts):
                            if isinstance(el, ast.Name) and el.id == e.id and (best is None or a.lineno > best[0]):
                                best = (a.lineno, a.value, k)
        if best is None:
            return None
        ln, v, k = best
        if k is None:
            return _transpose_parity(f, v, ln, depth + 1)
        p = _transpose_parity(f, v, ln, depth + 1)
        if isinstance(p, tuple) and p[0] == "helper":
            helper = p[1]
            outs = set()
            for rt in ast.walk(helper):
                if isinstance(rt, ast.Return) and isinstance(rt.value, ast.Tuple) and k < len(rt.value.elts):
                    fake = type("F", (), {"node": helper})
                    outs.add(_transpose_parity(fake, rt.value.elts[k], rt.lineno, depth + 1))
                elif isinstance(rt, ast.Return):
                    outs.add(None)
            return outs.pop() if len(outs) == 1 else None
        if isinstance(v, ast.Tuple) and k < len(v.elts):
            return _transpose_parity(f, v.elts[k], ln, depth + 1)
        return p if not isinstance(p, tuple) else None
    return None


def rule_factor_orientation(ctx):
    r = RuleResult(
        "factor-orientation",
        "sibling agreement over every place a BP class turns the two messages of a bond into reduced factors "
        "(squared_op_to_reduced_factor(..., right=True) for the left environment, right=False for the right one): following "
        "the first argument back to the stored message, the right=False factor is built from the message transposed an odd "
        "number of times relative to the right=True one, in every sibling (D2BP.compress, its raw-message re-projection, "
        "L2BP.compress); a dropped .T uses the conjugate environment for complex data",
    )
    n = 0
    table = {}
    for modname in ("quimb.tensor.belief_propagation.d2bp", "quimb.tensor.belief_propagation.l2bp"):
        mod = ctx.prog.modules.get(modname)
        if mod is None:
            raise AnalysisError(f"module {modname} not found")
        for f in mod.all_functions:
            if f.is_alias or isinstance(f.node, ast.Lambda):
                continue
            for c in _own_walk(f.node):
                if isinstance(c, ast.Call) and (getattr(c.func, "attr", None) or getattr(c.func, "id", None)) == "squared_op_to_reduced_factor" and c.args:
                    right = next((k.value.value for k in c.keywords if k.arg == "right" and isinstance(k.value, ast.Constant)), None)
                    if right is None:
                        continue
                    p = _transpose_parity(f, c.args[0], c.lineno)
                    if isinstance(p, tuple):
                        p = None
                    n += 1
                    table.setdefault(f.qualname, []).append((c.lineno, right, p, src_of(c.args[0]), f))
    for q, rows in table.items():
        rows.sort()
        f = rows[0][4]
        # consecutive (right=True, right=False) pairs
        for i in range(0, len(rows) - 1, 2):
            (l1, r1, p1, s1, _), (l2, r2, p2, s2, _) = rows[i], rows[i + 1]
            where = f"{f.module.relpath}:{l2}"
            construct = q
            if {r1, r2} != {True, False}:
                r.skip(f"{construct}@{l1}", "reduced-factor calls are not a (right=True, right=False) pair")
                continue
            if p1 is None or p2 is None:
                r.skip(f"{construct}@{l1}", f"message provenance of `{s1}` / `{s2}` not followed")
                continue
            pt, pf = (p1, p2) if r1 else (p2, p1)
            if pt == 0 and pf == 1:
                r.ok(f"{construct}[{s1},{s2}]", sample={"function": q, "right=True from": s1 if r1 else s2, "right=False from": (s2 if r1 else s1) + " (transposed)"})
            else:
                r.bad(Finding(
                    "factor-orientation", construct,
                    f"the right=False reduced factor is built from `{s2 if r1 else s1}`, which is transposed {pf} time(s) relative to the stored message "
                    f"(the right=True one: {pt}); its siblings transpose the message from the other side exactly once — for complex data the factor "
                    "now describes the conjugate environment",
                    where=where, operand=f"{s2 if r1 else s1}"))
    r.floor(n, 6, "reduced-factor constructions from BP messages")
    return r


def rule_damping_order(ctx):
    r = RuleResult(
        "damping-order",
        "sibling agreement on the argument order of the damping function (defined once as _damping_fn(old, new) = "
        "damping*old + (1 - damping)*new): at every call site the first argument is the stored message (read from "
        "self.messages / the message being replaced) and the second the freshly computed one; a swapped call inverts the "
        "damping strength (damping=0.1 behaves like 0.9)",
    )
    common, classes = _bp_classes(ctx)
    n = 0
    for c in classes:
        for name, f in c.methods.items():
            if f.cls is not c or f.is_alias or isinstance(f.node, ast.Lambda):
                continue
            for fn in [f.node] + [x for x in ast.walk(f.node) if isinstance(x, ast.FunctionDef) and x is not f.node]:
                if fn is f.node and any(isinstance(x, ast.FunctionDef) and x is not f.node for x in ast.walk(f.node)):
                    own_calls = {id(c_) for c_ in _own_walk(fn)}
                else:
                    own_calls = None
                for call in ast.walk(fn):
                    if not (isinstance(call, ast.Call) and isinstance(call.func, ast.Attribute) and call.func.attr == "_damping_fn" and len(call.args) == 2):
                        continue
                    if own_calls is not None and id(call) not in own_calls:
                        continue  # belongs to a nested function: analysed in its own scope
                    defs = {}
                    for a in ast.walk(fn):
                        if isinstance(a, ast.Assign) and len(a.targets) == 1 and isinstance(a.targets[0], ast.Name) and a.lineno < call.lineno:
                            defs.setdefault(a.targets[0].id, []).append(a.value)

                    def stored(e, depth=0):
                        if depth > 3:
                            return False
                        if any(isinstance(x, ast.Attribute) and x.attr == "messages" for x in ast.walk(e)):
                            return True
                        for x in ast.walk(e):
                            if isinstance(x, ast.Name) and x.id in defs and any(stored(d, depth + 1) for d in defs[x.id]):
                                return True
                        return False

                    a0, a1 = call.args
                    s0, s1 = stored(a0), stored(a1)
                    key = (c.name, name, call.lineno)
                    n += 1
                    construct = f"{c.name}.{name}"
                    if s0 and not s1:
                        r.ok(f"{construct}@{call.lineno}", sample={"class": c.name, "call": src_of(call)[:50], "old": src_of(a0)[:20], "new": src_of(a1)[:20]})
                    elif s1 and not s0:
                        r.bad(Finding("damping-order", construct, f"`{src_of(call)[:60]}` passes the new message first and the stored one second: the damping weight is applied to the new "
                                      "message instead of the old one", where=f"{f.module.relpath}:{call.lineno}", operand="swapped"))
                    else:
                        r.skip(f"{construct}@{call.lineno}", "cannot tell which argument is the stored message")
    # nested function walk visits inner calls twice (outer + inner scope): obligations are deduplicated by the framework keys
    r.floor(n, 4, "damping calls")
    return r


def rule_dual_refresh(ctx):
    r = RuleResult(
        "dual-refresh",
        "D2BP keeps, per tensor, the conjugate tensor and pre-built contraction expressions (tensor_dual_map, exprs): on "
        "every path through a method that rewrites tensors of self.tn in place (a gate_ on the network or on a view of it), a "
        "call of _init_tid / _initialize_contract_expressions follows before the method exits — path analysis over "
        "{clean, dirty}; an exit in the dirty state leaves the messages being updated against the old tensors",
    )
    cls = ctx.prog.cls("quimb.tensor.belief_propagation.d2bp", "D2BP")
    n = 0
    for name, f in sorted(cls.methods.items()):
        if f.cls is not cls or f.is_alias or isinstance(f.node, ast.Lambda):
            continue
        is_w = lambda c: isinstance(c, ast.Call) and isinstance(c.func, ast.Attribute) and c.func.attr == "gate_" and not (isinstance(c.func.value, ast.Name) and c.func.value.id == "self")
        is_r = lambda c: isinstance(c, ast.Call) and isinstance(c.func, ast.Attribute) and c.func.attr in ("_init_tid", "_initialize_contract_expressions")
        if name not in ("gate_", "gate") or not any(is_w(c) for c in ast.walk(f.node)):
            # gauge_insert / gauge_temp / compress gate an arbitrary network handed to them (a copy unless inplace, where compress
            # re-initialises everything): only the method that gates the BP object's own network is a writer here
            continue
        n += 1
        exits = []

        def events(st):
            ev = [(c.lineno, c.col_offset, "W" if is_w(c) else "R") for c in ast.walk(st) if is_w(c) or is_r(c)]
            return [k for _, _, k in sorted(ev)]

        def run(stmts, dirty):
            for st in stmts:
                if isinstance(st, ast.If):
                    d1, d2 = run(st.body, dirty), run(st.orelse, dirty)
                    if d1 == "EXIT" and d2 == "EXIT":
                        return "EXIT"
                    dirty = d2 if d1 == "EXIT" else d1 if d2 == "EXIT" else (d1 or d2)
                    continue
                if isinstance(st, (ast.With, ast.For, ast.While, ast.Try)):
                    d1 = run(st.body, dirty)
                    dirty = dirty if d1 == "EXIT" else d1
                    continue
                for k in events(st):
                    dirty = (k == "W") and st.lineno or (False if k == "R" else dirty)
                if isinstance(st, ast.Return):
                    if dirty:
                        exits.append((st.lineno, dirty))
                    return "EXIT"
                if isinstance(st, ast.Raise):
                    return "EXIT"
            return dirty

        d = run(f.node.body, False)
        if d not in (False, "EXIT"):
            exits.append((f.node.end_lineno, d))
        construct = f"D2BP.{name}"
        if exits:
            line, wl = exits[0]
            r.bad(Finding("dual-refresh", construct, f"tensors are gated in place at line {wl} and the method can leave at line {line} without _init_tid / _initialize_contract_expressions: "
                          "tensor_dual_map and the contraction expressions still describe the ungated tensor", where=f"{f.module.relpath}:{line}", operand="exit-dirty"))
        else:
            r.ok(construct, sample={"method": name, "refresh": "on every path after the in-place gate"})
    r.floor(n, 1, "D2BP methods gating tensors in place")
    return r


def rule_bp_cache_invalidate(ctx):
    r = RuleResult(
        "bp-cache-invalidate",
        "a belief-propagation object may keep lazily filled memos of quantities computed from its messages (conditioned messages, local "
        "contractions ...): every method that writes a message (stores into / rebinds / updates self.messages) also drops the affected "
        "entries of every such memo — in the same method or through a helper it calls — otherwise a later value route is served a number "
        "computed from the old messages",
    )
    n = 0
    MSG = ("messages", "_messages")
    for m in ctx.prog.modules.values():
        if not m.name.startswith("quimb.tensor.belief_propagation"):
            continue
        for c in m.classes.values():
            methods = {name: f for name, f in c.methods.items() if not f.is_alias and not isinstance(f.node, ast.Lambda)}
            if not methods:
                continue
            # which methods read the messages (transitively through self-calls)
            reads = {name for name, f in methods.items() if any(isinstance(x, ast.Attribute) and x.attr in MSG and isinstance(x.value, ast.Name) and x.value.id == "self"
                                                                   and isinstance(x.ctx, ast.Load) for x in ast.walk(f.node))}
            changed = True
            while changed:
                changed = False
                for name, f in methods.items():
                    if name in reads:
                        continue
                    for x in ast.walk(f.node):
                        if isinstance(x, ast.Call) and isinstance(x.func, ast.Attribute) and isinstance(x.func.value, ast.Name) and x.func.value.id == "self" and x.func.attr in reads:
                            reads.add(name)
                            changed = True
                            break
            # lazily filled memos: self._X[k] = V with V computed from the messages
            memos = {}
            for name, f in methods.items():
                if f.cls is not c:
                    continue
                for a in ast.walk(f.node):
                    if not isinstance(a, ast.Assign):
                        continue
                    for t in a.targets:
                        if isinstance(t, ast.Subscript) and isinstance(t.value, ast.Attribute) and isinstance(t.value.value, ast.Name) and t.value.value.id == "self" \
                                and t.value.attr not in MSG and t.value.attr.startswith("_"):
                            dep = any(isinstance(y, ast.Attribute) and y.attr in MSG for y in ast.walk(a.value)) or any(
                                isinstance(y, ast.Call) and isinstance(y.func, ast.Attribute) and isinstance(y.func.value, ast.Name) and y.func.value.id == "self" and y.func.attr in reads
                                for y in ast.walk(a.value))
                            # through one local
                            if not dep:
                                for y in ast.walk(a.value):
                                    if isinstance(y, ast.Name):
                                        for d in ast.walk(f.node):
                                            if isinstance(d, ast.Assign) and any(isinstance(tt, ast.Name) and tt.id == y.id for tt in d.targets) and (
                                                    any(isinstance(z, ast.Attribute) and z.attr in MSG for z in ast.walk(d.value))
                                                    or any(isinstance(z, ast.Call) and isinstance(z.func, ast.Attribute) and isinstance(z.func.value, ast.Name) and z.func.value.id == "self"
                                                           and z.func.attr in reads for z in ast.walk(d.value))):
                                                dep = True
                            if dep:
                                memos.setdefault(t.value.attr, name)
            if not memos:
                continue

            def touches(f, attr, depth=0):
                for x in ast.walk(f.node):
                    if isinstance(x, ast.Call) and isinstance(x.func, ast.Attribute) and x.func.attr in ("clear", "pop") and isinstance(x.func.value, ast.Attribute) and x.func.value.attr == attr:
                        return True
                    if isinstance(x, ast.Assign) and any(isinstance(t, ast.Attribute) and t.attr == attr for t in x.targets):
                        return True
                    if isinstance(x, ast.Delete) and any(isinstance(t, ast.Subscript) and isinstance(t.value, ast.Attribute) and t.value.attr == attr for t in x.targets):
                        return True
                    if depth < 2 and isinstance(x, ast.Call) and isinstance(x.func, ast.Attribute) and isinstance(x.func.value, ast.Name) and x.func.value.id == "self":
                        g = methods.get(x.func.attr)
                        if g is not None and g is not f and touches(g, attr, depth + 1):
                            return True
                return False

            for name, f in sorted(methods.items()):
                if f.cls is not c or name == "__init__":
                    continue
                writes = [x for x in ast.walk(f.node) if
                          (isinstance(x, (ast.Assign, ast.AugAssign)) and any(
                              (isinstance(t, ast.Subscript) and isinstance(t.value, ast.Attribute) and t.value.attr in MSG and isinstance(t.value.value, ast.Name) and t.value.value.id == "self")
                              or (isinstance(t, ast.Attribute) and t.attr in MSG and isinstance(t.value, ast.Name) and t.value.id == "self")
                              for t in (x.targets if isinstance(x, ast.Assign) else [x.target])))
                          or (isinstance(x, ast.Call) and isinstance(x.func, ast.Attribute) and x.func.attr in ("update", "pop", "clear") and isinstance(x.func.value, ast.Attribute)
                              and x.func.value.attr in MSG)]
                # creating an entry that did not exist (`if key not in self.messages: self.messages[key] = ...`) cannot leave a stale memo
                def creates_only(w):
                    for st in ast.walk(f.node):
                        if isinstance(st, ast.If) and any(y is w for b_ in st.body for y in ast.walk(b_)):
                            for cmp_ in ast.walk(st.test):
                                if isinstance(cmp_, ast.Compare) and len(cmp_.ops) == 1 and isinstance(cmp_.ops[0], ast.NotIn) \
                                        and isinstance(cmp_.comparators[0], ast.Attribute) and cmp_.comparators[0].attr in MSG:
                                    return True
                    return False
                writes = [w for w in writes if not creates_only(w)]
                if not writes:
                    continue
                for attr, filler in sorted(memos.items()):
                    if name == filler and not any(isinstance(x, (ast.Assign, ast.AugAssign)) for x in writes):
                        continue
                    n += 1
                    q = f"{c.name}.{name}[{attr}]"
                    # keyed writes need a keyed (or wholesale) invalidation: self.messages[K] = ...  <->  self._X.pop(K, ...) / del self._X[K] / clear()
                    keyed = [w for w in writes if isinstance(w, (ast.Assign, ast.AugAssign)) and any(isinstance(t, ast.Subscript) for t in (w.targets if isinstance(w, ast.Assign) else [w.target]))]
                    missing_key = None
                    if keyed:
                        wholesale = any((isinstance(x, ast.Call) and isinstance(x.func, ast.Attribute) and x.func.attr == "clear" and isinstance(x.func.value, ast.Attribute) and x.func.value.attr == attr)
                                        or (isinstance(x, ast.Assign) and any(isinstance(t, ast.Attribute) and t.attr == attr for t in x.targets)) for x in ast.walk(f.node))
                        popped = {ast.dump(x.args[0]) for x in ast.walk(f.node) if isinstance(x, ast.Call) and isinstance(x.func, ast.Attribute) and x.func.attr == "pop"
                                  and isinstance(x.func.value, ast.Attribute) and x.func.value.attr == attr and x.args}
                        popped |= {ast.dump(t.slice) for x in ast.walk(f.node) if isinstance(x, ast.Delete) for t in x.targets
                                   if isinstance(t, ast.Subscript) and isinstance(t.value, ast.Attribute) and t.value.attr == attr}
                        if not wholesale and popped:
                            for w in keyed:
                                for t in (w.targets if isinstance(w, ast.Assign) else [w.target]):
                                    if isinstance(t, ast.Subscript) and ast.dump(t.slice) not in popped:
                                        missing_key = t
                    if missing_key is not None:
                        r.bad(Finding("bp-cache-invalidate", f"{c.name}.{name}",
                                      f"writes `{src_of(missing_key)[:40]}` but drops other entries of the memo `self.{attr}` only: the entry for this key stays stale",
                                      where=f"{m.relpath}:{missing_key.lineno}", operand=f"{attr}:key"))
                    elif touches(f, attr):
                        r.ok(q, sample={"class": c.name, "message writer": name, "memo": attr, "filled in": filler, "invalidated": True})
                    else:
                        r.bad(Finding("bp-cache-invalidate", f"{c.name}.{name}",
                                      f"writes messages (line {writes[0].lineno}: `{src_of(writes[0])[:50]}`) but never drops the entries of the memo `self.{attr}` "
                                      f"(filled in {filler} from the messages): a later call is served a value computed from the old messages",
                                      where=f"{m.relpath}:{writes[0].lineno}", operand=attr))
    r.floor(n, 1, "(message writer, memo) pairs in the belief-propagation classes")
    return r


def rule_pair_normaliser_phase(ctx):
    r = RuleResult(
        "pair-normaliser-phase",
        "normalize_message_pair makes the overlap <mi|mj> of the two messages of a bond equal to one (the loop / cluster expansions "
        "drop these overlaps as unit factors): when the magnitude it divides by is taken with abs(...), the sign / phase of the overlap "
        "— overlap / abs(overlap) — also divides one of the returned messages; dividing by the magnitude alone leaves <mi|mj> = phase",
    )
    f = ctx.prog.func("quimb.tensor.belief_propagation.bp_common", "normalize_message_pair")
    if f is None:
        raise AnalysisError("pair-normaliser-phase: bp_common.normalize_message_pair not found")
    params = f.posparams[:2]
    defs = {a.targets[0].id: a.value for a in ast.walk(f.node) if isinstance(a, ast.Assign) and len(a.targets) == 1 and isinstance(a.targets[0], ast.Name)}

    def is_abs(e):
        return isinstance(e, ast.Call) and ((dotted(e.func) or "").split(".")[-1] in ("abs", "absolute") or (e.args and const_value(e.args[0], None) in ("abs", "absolute")))

    def is_overlap(e, depth=0):
        """mi @ mj of the two parameters (directly or through a local)"""
        if isinstance(e, ast.BinOp) and isinstance(e.op, ast.MatMult):
            names = {y.id for y in ast.walk(e) if isinstance(y, ast.Name)}
            return set(params) <= names
        if isinstance(e, ast.Name) and e.id in defs and depth < 3:
            return is_overlap(defs[e.id], depth + 1)
        return False

    abs_of_overlap = [c for c in ast.walk(f.node) if is_abs(c) and any(is_overlap(a) for a in c.args)]
    rets = [x.value for x in ast.walk(f.node) if isinstance(x, ast.Return) and x.value is not None]
    where = f"{f.module.relpath}:{f.lineno}"
    if not abs_of_overlap:
        r.ok("normalize_message_pair", sample={"magnitude": "not taken with abs() — the full overlap is divided out"})
        return r
    # a phase local: <overlap> / <abs of overlap>, used (transitively) in a returned expression
    phase_locals = set()
    for name, v in defs.items():
        if isinstance(v, ast.BinOp) and isinstance(v.op, ast.Div) and is_overlap(v.left):
            right_ok = is_abs(v.right) or (isinstance(v.right, ast.Name) and v.right.id in defs and is_abs(defs[v.right.id]))
            if right_ok:
                phase_locals.add(name)
    used = set()
    frontier = [y.id for v in rets for y in ast.walk(v) if isinstance(y, ast.Name)]
    while frontier:
        x = frontier.pop()
        if x in used:
            continue
        used.add(x)
        if x in defs:
            frontier += [y.id for y in ast.walk(defs[x]) if isinstance(y, ast.Name)]
    if phase_locals & used:
        r.ok("normalize_message_pair", sample={"magnitude": "abs(overlap)", "phase": sorted(phase_locals & used)})
    else:
        r.bad(Finding("pair-normaliser-phase", "normalize_message_pair",
                      "divides the pair by a magnitude taken with abs(<mi|mj>) but never by the overlap's sign / phase: after normalisation <mi|mj> is that phase, not 1, "
                      "and every expansion that drops the bond overlaps returns the wrong sign / phase", where=where, operand="phase"))
    return r


def rule_excluded_tensors_accounted(ctx):
    r = RuleResult(
        "excluded-tensors-accounted",
        "the vectorised BP (HV1BP) leaves tensors without indices out of its batched arrays (`if rank == 0: continue` while batching): "
        "they exchange no messages but are still factors of the network's value, so the batched value route contract() has to multiply "
        "them in — it must contain its own pass over the tensors that selects those with ndim == 0",
    )
    m = ctx.prog.modules.get("quimb.tensor.belief_propagation.hv1bp")
    if m is None:
        raise AnalysisError("excluded-tensors-accounted: hv1bp module not found")

    def zero_rank_tests(fnode):
        out = []
        for x in ast.walk(fnode):
            if isinstance(x, ast.Compare) and len(x.ops) == 1 and isinstance(x.ops[0], ast.Eq) and const_value(x.comparators[0], None) == 0:
                l = x.left
                if (isinstance(l, ast.Attribute) and l.attr == "ndim") or isinstance(l, ast.Name):
                    out.append(x)
        return out

    # where batching skips tensors
    skipping = []
    for f in m.all_functions:
        if f.is_alias or isinstance(f.node, ast.Lambda):
            continue
        for st in ast.walk(f.node):
            if isinstance(st, ast.If) and any(isinstance(b, ast.Continue) for b in st.body):
                for t in zero_rank_tests(st.test):
                    # the tested name is a tensor's ndim
                    if isinstance(t.left, ast.Attribute) or any(isinstance(a, ast.Assign) and any(isinstance(tt, ast.Name) and tt.id == t.left.id for tt in a.targets)
                                                                and isinstance(a.value, ast.Attribute) and a.value.attr == "ndim" for a in ast.walk(f.node)):
                        skipping.append((f, st))
    if not skipping:
        r.ok("HV1BP", sample={"batching": "no tensor is left out of the batches"})
        return r
    cls = m.classes.get("HV1BP")
    c = cls.methods.get("contract") if cls else None
    if c is None:
        raise AnalysisError("excluded-tensors-accounted: HV1BP.contract not found")
    accounted = any(isinstance(lp, ast.For) and any(isinstance(y, ast.Attribute) and y.attr == "tensor_map" for y in ast.walk(lp.iter)) and zero_rank_tests(lp)
                    for lp in ast.walk(c.node))
    f0, st0 = skipping[0]
    if accounted:
        r.ok("HV1BP.contract", sample={"skipped while batching": f"{f0.qualname}:{st0.lineno}", "multiplied in": "contract() passes over tensors with ndim == 0"})
    else:
        r.bad(Finding("excluded-tensors-accounted", "HV1BP.contract",
                      f"{f0.qualname} (line {st0.lineno}) leaves rank-0 tensors out of the batches and contract() only multiplies the batched region estimates: "
                      "a scalar tensor of the network is dropped from the value", where=f"{m.relpath}:{c.lineno}", operand="rank-0"))
    return r


def rule_gloop_singletons(ctx):
    r = RuleResult(
        "gloop-singletons",
        "sibling agreement between the generalized-loop expansions of the whole network value (`contract_gloop_expand` of the BP classes): "
        "the regions handed to gen_region_counts are the loops *chained with every single tensor region* — a tensor that no loop covers "
        "otherwise contributes nothing (a tree expands to 1)",
    )
    n = 0
    for m in ctx.prog.modules.values():
        if not m.name.startswith("quimb.tensor.belief_propagation"):
            continue
        for c in m.classes.values():
            f = c.methods.get("contract_gloop_expand")
            if f is None or f.cls is not c or f.is_alias:
                continue
            calls = [x for x in ast.walk(f.node) if isinstance(x, ast.Call) and (dotted(x.func) or "").split(".")[-1] == "gen_region_counts"]
            if not calls:
                continue
            for call in calls:
                n += 1
                a0 = call.args[0] if call.args else None
                # through one local
                if isinstance(a0, ast.Name):
                    ds = [a.value for a in ast.walk(f.node) if isinstance(a, ast.Assign) and any(isinstance(t, ast.Name) and t.id == a0.id for t in a.targets)]
                    exprs = ds + [a0]
                else:
                    exprs = [a0]
                singles = any(isinstance(g, ast.GeneratorExp) and isinstance(g.elt, ast.Tuple) and len(g.elt.elts) == 1
                              and any(isinstance(y, ast.Attribute) and y.attr == "tensor_map" for y in ast.walk(g.generators[0].iter))
                              for e in exprs if e is not None for g in ast.walk(e))
                q = f"{c.name}.contract_gloop_expand"
                if singles:
                    r.ok(q, sample={"class": c.name, "regions": src_of(call.args[0])[:70] if call.args else ""})
                else:
                    r.bad(Finding("gloop-singletons", q, f"`{src_of(call)[:60]}` expands over the loops only: the single tensor regions its siblings chain in are missing, "
                                                         "so tensors outside every loop are left out of the value", where=f"{m.relpath}:{call.lineno}", operand="singletons"))
    r.floor(n, 3, "contract_gloop_expand implementations")
    return r


def rule_query_selects_output(ctx):
    r = RuleResult(
        "query-selects-output",
        "a BP method that answers a query about one named index (a parameter it looks up in ind_map) through an explicit "
        "`array_contract(..., output=...)` must choose that output axis *by the query*: every definition of the output spec lies "
        "under a test that reads the queried parameter (or is computed from it) — an output chosen by any other predicate answers "
        "for whichever dangling index comes last",
    )
    n = 0
    for m in ctx.prog.modules.values():
        if not m.name.startswith("quimb.tensor.belief_propagation"):
            continue
        for f in m.all_functions:
            if f.is_alias or isinstance(f.node, ast.Lambda) or f.cls is None or f.parent is not None:
                continue
            walk = list(_own_walk(f.node))
            # queried parameters: used as the key of an ind_map lookup
            queried = set()
            for x in walk:
                if isinstance(x, ast.Subscript) and isinstance(x.value, ast.Attribute) and x.value.attr == "ind_map" and isinstance(x.slice, ast.Name) and x.slice.id in f.params:
                    queried.add(x.slice.id)
            if not queried:
                continue
            for call in walk:
                if not (isinstance(call, ast.Call) and (dotted(call.func) or "").split(".")[-1] == "array_contract"):
                    continue
                out = next((k.value for k in call.keywords if k.arg == "output"), call.args[2] if len(call.args) > 2 else None)
                if not isinstance(out, ast.Name):
                    continue
                n += 1
                q = f"{f.qualname}"
                bad = []

                def visit(stmts, guarded):
                    for s in stmts:
                        if isinstance(s, ast.Assign) and any(isinstance(t, ast.Name) and t.id == out.id for t in s.targets):
                            from_query = any(isinstance(y, ast.Name) and y.id in queried for y in ast.walk(s.value))
                            if not (guarded or from_query):
                                bad.append(s)
                        if isinstance(s, ast.If):
                            g = any(isinstance(y, ast.Name) and y.id in queried for y in ast.walk(s.test))
                            visit(s.body, guarded or g)
                            # the else arm of a test on the query is *not* selected by it
                            visit(s.orelse, guarded)
                        elif isinstance(s, (ast.For, ast.While)):
                            visit(s.body, guarded)
                            visit(s.orelse, guarded)
                        elif isinstance(s, ast.With):
                            visit(s.body, guarded)
                        elif isinstance(s, ast.Try):
                            visit(s.body, guarded)
                            for h in s.handlers:
                                visit(h.body, guarded)
                            visit(s.orelse, guarded)
                            visit(s.finalbody, guarded)

                visit(f.node.body, False)
                if not bad:
                    r.ok(q, sample={"query": sorted(queried), "output spec": out.id})
                else:
                    s = bad[0]
                    r.bad(Finding("query-selects-output", q,
                                  f"`{src_of(s)[:50]}` sets the output of the contraction that answers the query for `{sorted(queried)[0]}` "
                                  "without any test on the queried index: the value returned is that of another index",
                                  where=f"{m.relpath}:{s.lineno}", operand="output"))
    r.floor(n, 1, "query contractions with an explicit output spec")
    return r


def rule_converged_by_tolerance(ctx):
    r = RuleResult(
        "converged-by-tolerance",
        "the BP driver may declare convergence only from a measured message change compared with a tolerance: every store to "
        "`self.converged` in a `run` method, other than the initialising constant, has a value that depends (def-use closure over the "
        "locals) on one of the method's tolerance parameters — an empty work list, an iteration count or a flag of the update rule says "
        "nothing about a fixed point when messages are damped",
    )
    n = 0
    for m in ctx.prog.modules.values():
        if not m.name.startswith("quimb.tensor.belief_propagation"):
            continue
        for c in m.classes.values():
            f = c.methods.get("run")
            if f is None or f.cls is not c or f.is_alias:
                continue
            tols = {p for p in f.params if p.startswith("tol")}
            if not tols:
                continue
            ldefs = {}
            for a in _own_walk(f.node):
                if isinstance(a, ast.Assign):
                    for t in a.targets:
                        for y in ast.walk(t):
                            if isinstance(y, ast.Name) and isinstance(y.ctx, ast.Store):
                                ldefs.setdefault(y.id, []).append(a.value)

            def depends(e):
                seen, todo = set(), [e]
                while todo:
                    x = todo.pop()
                    for y in ast.walk(x):
                        if isinstance(y, ast.Name):
                            if y.id in tols:
                                return True
                            if y.id not in seen:
                                seen.add(y.id)
                                todo.extend(ldefs.get(y.id, []))
                return False

            for a in _own_walk(f.node):
                tgt = val = None
                if isinstance(a, ast.Assign) and len(a.targets) == 1:
                    tgt, val = a.targets[0], a.value
                elif isinstance(a, ast.AugAssign):
                    tgt, val = a.target, a.value
                if not (isinstance(tgt, ast.Attribute) and tgt.attr == "converged" and isinstance(tgt.value, ast.Name) and tgt.value.id == "self"):
                    continue
                if isinstance(val, ast.Constant) and val.value is False:
                    continue
                n += 1
                q = f"{c.name}.run:converged@{src_of(val)[:30]}"
                if depends(val):
                    r.ok(q, sample={"driver": f"{c.name}.run", "converged from": src_of(val)[:50], "tolerances": sorted(tols)})
                elif any(isinstance(y, ast.Call) and isinstance(y.func, ast.Attribute) and isinstance(y.func.value, ast.Name) and y.func.value.id == "self" for y in ast.walk(val)):
                    # decided inside a helper method of the object (which may hold the tolerance itself): not judged here
                    r.skip(q, f"convergence decided by `{src_of(val)[:40]}`, a method of the object")
                else:
                    r.bad(Finding("converged-by-tolerance", f"{c.name}.run",
                                  f"`{src_of(a)[:60]}` declares convergence from a value that does not depend on any of {sorted(tols)}: no message change was compared with a "
                                  "tolerance on this route (with damping, messages that are not re-queued are still moving)",
                                  where=f"{m.relpath}:{a.lineno}", operand=f"converged:{src_of(val)[:30]}"))
    r.floor(n, 2, "stores to self.converged in BP drivers")
    return r
