"""C03: lazily cached derived attributes are invalidated by every writer of what they derive from.

A getter of the form  `if getattr(self, "_X", None) is None: self._X = <expr over self>`  caches a value derived from
other state (possibly through further properties and caches).  Any method that assigns one of the stored attributes the
cached value transitively depends on must reset the cache (assign None, or call reset_cached_properties) — otherwise the
in-place spelling of an operation leaves a stale cache behind while the plain spelling (a fresh copy has cold caches)
does not, and the two disagree."""

import ast

from ..framework import RuleResult, Finding
from ..model import src_of, const_value
from .. import AnalysisError

MODULES = ("quimb.tensor.tnag.core", "quimb.tensor.tn1d.core", "quimb.tensor.tn2d.core", "quimb.tensor.tn3d.core")


def _self_reads(node):
    return {x.attr for x in ast.walk(node) if isinstance(x, ast.Attribute) and isinstance(x.value, ast.Name) and x.value.id == "self" and isinstance(x.ctx, ast.Load)}


def _cache_getters(cls):
    """{cache attr: (method, compute expr)} for getters of cls itself."""
    out = {}
    for name, f in cls.methods.items():
        if f.cls is not cls or f.is_alias or isinstance(f.node, ast.Lambda):
            continue
        for n in ast.walk(f.node):
            if isinstance(n, ast.If) and isinstance(n.test, ast.Compare) and isinstance(n.test.ops[0], ast.Is) and const_value(n.test.comparators[0], 0) is None \
                    and isinstance(n.test.left, ast.Call) and getattr(n.test.left.func, "id", None) == "getattr" and len(n.test.left.args) >= 2:
                attr = const_value(n.test.left.args[1], None)
                for st in n.body:
                    if isinstance(st, ast.Assign) and any(isinstance(t, ast.Attribute) and t.attr == attr for t in st.targets):
                        out[attr] = (f, st.value)
    return out


def rule_derived_cache_invalidate(ctx):
    r = RuleResult(
        "derived-cache-invalidate",
        "for every lazily cached attribute of the geometry classes (getattr(self, '_X', None) is None -> compute and store): "
        "the stored attributes it transitively derives from (followed through properties, methods and other caches of the "
        "class hierarchy) are computed, and every method that assigns one of them resets the cache (self._X = None or "
        "reset_cached_properties()) — a writer that resets some dependent caches but not others leaves a stale value that "
        "only the in-place spelling sees",
    )
    n = 0
    for modname in MODULES:
        mod = ctx.prog.modules.get(modname)
        if mod is None:
            raise AnalysisError(f"module {modname} not found")
        for cls in mod.classes.values():
            caches = {}
            for c in cls.mro:
                for k, v in _cache_getters(c).items():
                    caches.setdefault(k, v)
            own = _cache_getters(cls)
            if not own:
                continue

            def deps_of(expr, seen):
                out = set()
                for a in _self_reads(expr):
                    if a in seen:
                        continue
                    seen.add(a)
                    m = cls.find(a)
                    if m is not None and not m.is_alias and not isinstance(m.node, ast.Lambda):
                        out |= deps_of(m.node, seen)
                    else:
                        out.add(a)
                return out

            # writers: methods of the hierarchy (visible from cls) assigning self.<attr>
            writers = {}
            for c in cls.mro:
                for name, f in c.methods.items():
                    if f.is_alias or isinstance(f.node, ast.Lambda) or name in ("__init__", "reset_cached_properties", "__setstate__", "copy", "_update_properties"):
                        continue
                    if cls.find(name) is not f and not name.endswith(".setter"):
                        continue
                    for a in ast.walk(f.node):
                        if isinstance(a, ast.Assign):
                            for t in a.targets:
                                if isinstance(t, ast.Attribute) and isinstance(t.value, ast.Name) and t.value.id == "self" and const_value(a.value, 0) is not None:
                                    writers.setdefault(t.attr, []).append(f)
            getters = {g for g, _ in caches.values()}
            for cache, (getter, expr) in sorted(own.items()):
                deps = deps_of(expr, {cache})
                # another cache is not underlying state: its own dependencies are (already followed through its getter)
                stored = {d for d in deps if d.startswith("_") and d not in caches}
                n += 1
                bad = False
                for d in sorted(stored):
                    for w in writers.get(d, []):
                        if w is getter or w in getters:
                            continue
                        resets = any(
                            (isinstance(a, ast.Assign) and any(isinstance(t, ast.Attribute) and t.attr == cache for t in a.targets) and const_value(a.value, 0) is None)
                            or (isinstance(a, ast.Call) and isinstance(a.func, ast.Attribute) and a.func.attr == "reset_cached_properties")
                            for a in ast.walk(w.node))
                        if not resets:
                            bad = True
                            r.bad(Finding(
                                "derived-cache-invalidate", w.qualname,
                                f"assigns self.{d}, from which the cached `{cache}` ({getter.qualname}) is derived, without resetting that cache: after the "
                                f"in-place operation `{getter.name}` keeps returning the value computed for the old {d}",
                                where=f"{w.module.relpath}:{w.lineno}", operand=f"{cache}<-{d}"))
                if not bad:
                    r.ok(f"{cls.name}.{cache}", sample={"cache": f"{cls.name}.{cache}", "derived from": sorted(stored), "writers": sorted({w.qualname for d in stored for w in writers.get(d, [])})[:4]})
    r.floor(n, 5, "lazily cached derived attributes")
    return r


STRUCT_READS = {
    "compute_contracted_inds", "_get_tids_from_inds", "_get_tids_from_tags", "_get_tids_from", "_inds_get", "_tids_get", "ind_map", "tensor_map",
    "tag_map", "ind_size", "ind_sizes", "inds_size", "_get_neighbor_tids", "get_multibonds", "tids_are_connected", "select_tensors", "select",
    "select_any", "select_all", "_select_tids", "outer_inds", "inner_inds", "_inner_inds", "_outer_inds", "num_tensors", "tensors",
}


def rule_stale_receiver(ctx):
    r = RuleResult(
        "stale-receiver",
        "in a method that works on `tn = self if inplace else self.copy()`, once `tn` is being rewritten inside a loop the "
        "structure of the network (index / tag / tensor maps, contracted-index computation, neighbourhood queries) must be "
        "read from `tn`: reading it from `self` consults the untouched original under inplace=False — stale tids and index "
        "sets, so the plain spelling no longer does what the in-place spelling does on a copy",
    )
    n = 0
    for f in ctx.prog.all_functions(nested=False):
        if f.is_alias or isinstance(f.node, ast.Lambda) or not f.module.name.startswith("quimb.tensor") or "inplace" not in f.params or f.cls is None:
            continue
        local = None
        for a in f.node.body:
            if isinstance(a, ast.Assign) and isinstance(a.value, ast.IfExp) and isinstance(a.value.test, ast.Name) and a.value.test.id == "inplace" \
                    and isinstance(a.value.body, ast.Name) and a.value.body.id == "self" and isinstance(a.targets[0], ast.Name):
                local = (a.targets[0].id, a.lineno)
        if local is None:
            continue
        tn, line0 = local
        loops = [lp for lp in ast.walk(f.node) if isinstance(lp, (ast.For, ast.While)) and lp.lineno > line0]
        mutating = []
        for lp in loops:
            muts = [c for c in ast.walk(lp) if isinstance(c, ast.Call) and isinstance(c.func, ast.Attribute) and isinstance(c.func.value, ast.Name) and c.func.value.id == tn
                    and (c.func.attr.endswith("_") or c.func.attr in ("pop_tensor", "add_tensor", "add", "_pop_tensor", "add_tensor_network", "_contract_between_tids",
                                                                   "_compress_between_tids", "_canonize_between_tids", "_split_tensor_tid", "contract_ind", "replace_with_svd"))]
            muts += [c for c in ast.walk(lp) if isinstance(c, ast.Call) and isinstance(c.func, ast.Attribute) and c.func.attr == "modify"]
            if muts:
                mutating.append(lp)
        if not mutating:
            continue
        n += 1
        bad = []
        for lp in mutating:
            for x in ast.walk(lp):
                if isinstance(x, ast.Attribute) and isinstance(x.value, ast.Name) and x.value.id == "self" and x.attr in STRUCT_READS and isinstance(x.ctx, ast.Load):
                    bad.append(x)
        # nested generator functions defined in the method and driven by such a loop count too
        seen = set()
        if bad:
            for x in bad:
                if x.attr in seen:
                    continue
                seen.add(x.attr)
                r.bad(Finding("stale-receiver", f.qualname,
                              f"`self.{x.attr}` (line {x.lineno}) is read inside a loop that rewrites `{tn}`: under inplace=False this consults the original network, "
                              f"whose tids and index sets no longer match `{tn}`", where=f"{f.module.relpath}:{x.lineno}", operand=x.attr))
        else:
            r.ok(f.qualname, sample={"method": f.qualname, "working copy": tn, "rewriting loops": len(mutating)}, nontrivial=False)
    r.floor(n, 15, "methods rewriting a working copy inside a loop")
    return r


def rule_inplace_returns(ctx):
    r = RuleResult(
        "inplace-returns",
        "a method that works on `tn = self if inplace else self.copy()` hands the working network back: a `return tn.<helper>(...)` "
        "whose helper (resolved through the class hierarchy, all overriding candidates) never returns a value returns None — "
        "with inplace=False the finished copy is then lost to the caller (the in-place spelling 'works' only because the "
        "receiver was mutated)",
    )
    n = 0
    for f in ctx.prog.all_functions(nested=False):
        if f.is_alias or isinstance(f.node, ast.Lambda) or not f.module.name.startswith("quimb.tensor") or "inplace" not in f.params or f.cls is None:
            continue
        local = None
        for a in f.node.body:
            if isinstance(a, ast.Assign) and isinstance(a.value, ast.IfExp) and isinstance(a.value.test, ast.Name) and a.value.test.id == "inplace" \
                    and isinstance(a.value.body, ast.Name) and a.value.body.id == "self" and isinstance(a.targets[0], ast.Name):
                local = a.targets[0].id
        if local is None:
            continue
        rets = [x for x in ast.walk(f.node) if isinstance(x, ast.Return) and isinstance(x.value, ast.Call) and isinstance(x.value.func, ast.Attribute)
                and isinstance(x.value.func.value, ast.Name) and x.value.func.value.id == local]
        if not rets:
            continue
        for rt in rets:
            name = rt.value.func.attr
            cands = [m for m in ([f.cls.find(name)] + [sc.methods.get(name) for sc in f.cls.all_subclasses()]) if m is not None]
            if not cands:
                continue
            n += 1
            voids = []
            for m in cands:
                real = ctx.prog.deref_alias(m)[0] if m.is_alias else m
                if real is None or isinstance(real.node, ast.Lambda):
                    continue
                own_returns = [x for x in _walk_own(real.node) if isinstance(x, ast.Return) and x.value is not None]
                if not own_returns:
                    voids.append(real.qualname)
            construct = f"{f.qualname}->{name}"
            if voids:
                r.bad(Finding("inplace-returns", f.qualname,
                              f"`return {local}.{name}(...)` (line {rt.lineno}) — {voids[0]} never returns a value: the method returns None instead of the network it worked on",
                              where=f"{f.module.relpath}:{rt.lineno}", operand=name))
            else:
                r.ok(construct, nontrivial=False)
    r.floor(n, 5, "delegating returns of methods with a working copy")
    return r


def _walk_own(node):
    todo = [node]
    while todo:
        x = todo.pop()
        yield x
        for c in ast.iter_child_nodes(x):
            if not isinstance(c, (ast.FunctionDef, ast.AsyncFunctionDef, ast.Lambda)):
                todo.append(c)
