"""C12: guards that decide *whether* a bond is compressed must agree with the cap.

Every `if` in the boundary / compressed-contraction code that compares a size
with the cap `max_bond` takes one of three shapes:

  compress   `if size(pair) > max_bond: <call that receives max_bond>`
  skip       `if size(pair) <= max_bond: continue|return`
  shortcut   `if size_a <= max_bond or size_b <= max_bond: <gauge only>; return`

For the first two the comparison direction is decided (a flipped comparison
skips exactly the bonds that exceed the cap) and the measured pair must be the
pair that is then compressed.  For the shortcut — the only path that returns
from a truncating routine without delivering the cap to anything — the QR
direction must be chosen by comparing the two sizes the guard tested, and the
three possible orderings (a<b, a==b, a>b) are evaluated abstractly: the
tensor made isometric must be one whose outer size the guard bounded.
"""

import ast

from ..framework import RuleResult, Finding
from ..model import src_of, dotted
from .. import AnalysisError

SITES = [
    # (module, qualname) — every function in these with a max_bond comparison is analysed
    ("quimb.tensor.tensor_core", "TensorNetwork._compress_between_tids"),
    ("quimb.tensor.tn2d.core", None),
    ("quimb.tensor.tn3d.core", None),
]
SIZE_FUNCS = {"bonds_size", "inds_size", "bond_size", "ind_size"}
GAUGE_ONLY = {"tensor_canonize_bond", "_canonize_between_tids", "strip_exponent"}


def _cap_compares(test, cap="max_bond"):
    """[(size_expr, op)] with the comparison normalised to `size OP cap`."""
    out = []
    flip = {ast.Lt: ast.Gt, ast.LtE: ast.GtE, ast.Gt: ast.Lt, ast.GtE: ast.LtE}
    for c in ast.walk(test):
        if isinstance(c, ast.Compare) and len(c.ops) == 1:
            l, r, op = c.left, c.comparators[0], type(c.ops[0])
            if op not in flip:
                continue
            if isinstance(r, ast.Name) and r.id == cap:
                out.append((l, op))
            elif isinstance(l, ast.Name) and l.id == cap:
                out.append((r, flip[op]))
    return out


def _delivers_cap(stmts, cap="max_bond"):
    for s in stmts:
        for n in ast.walk(s):
            if isinstance(n, ast.Call):
                for kw in n.keywords:
                    if kw.arg == cap and isinstance(kw.value, ast.Name) and kw.value.id == cap:
                        return n
                for a in n.args:
                    if isinstance(a, ast.Name) and a.id == cap:
                        return n
    return None


def _pure_skip(stmts):
    return all(isinstance(s, (ast.Continue, ast.Return, ast.Pass)) or (isinstance(s, ast.Expr) and isinstance(s.value, ast.Constant)) for s in stmts) and any(
        isinstance(s, (ast.Continue, ast.Return)) for s in stmts
    )


def _local_defs(fnode):
    """name -> list of (lineno, value-expr, index-in-tuple or None)."""
    defs = {}
    for n in ast.walk(fnode):
        if isinstance(n, ast.Assign):
            for t in n.targets:
                if isinstance(t, ast.Name):
                    defs.setdefault(t.id, []).append((n.lineno, n.value, None))
                elif isinstance(t, (ast.Tuple, ast.List)):
                    for k, e in enumerate(t.elts):
                        if isinstance(e, ast.Name):
                            defs.setdefault(e.id, []).append((n.lineno, n.value, k))
    return defs


def _nearest_def(defs, name, lineno):
    cands = [d for d in defs.get(name, []) if d[0] <= lineno]
    return max(cands, key=lambda d: d[0]) if cands else None


def _pair_terms(size_expr, defs):
    """source texts that identify the tensors whose bond is measured."""
    terms = []
    if not (isinstance(size_expr, ast.Call) and size_expr.args):
        return terms
    for a in size_expr.args:
        if isinstance(a, ast.Name):
            d = _nearest_def(defs, a.id, size_expr.lineno)
            if d is not None and isinstance(d[1], ast.Call) and d[2] is not None and d[2] < len(d[1].args):
                terms.append(src_of(d[1].args[d[2]]))  # t1, tn = self._tids_get(tid1, tidn)
            else:
                terms.append(a.id)
        elif isinstance(a, ast.Subscript) and isinstance(a.value, ast.Name) and a.value.id == "self":
            terms.append(src_of(a.slice))  # self[site_tag(i, j)]
        else:
            terms.append(src_of(a))
    return terms


def _arg_texts(stmts):
    out = set()
    for s in stmts:
        for n in ast.walk(s):
            if isinstance(n, ast.Call):
                for a in list(n.args) + [k.value for k in n.keywords]:
                    for x in ast.walk(a):
                        if isinstance(x, ast.expr):
                            out.add(src_of(x))
    return out


def _eval_order(test, a, b, order):
    """evaluate a comparison-only test between names a and b under order in {-1,0,1} (sign of a-b)."""
    if isinstance(test, ast.BoolOp):
        vals = [_eval_order(v, a, b, order) for v in test.values]
        if None in vals:
            return None
        return all(vals) if isinstance(test.op, ast.And) else any(vals)
    if isinstance(test, ast.UnaryOp) and isinstance(test.op, ast.Not):
        v = _eval_order(test.operand, a, b, order)
        return None if v is None else not v
    if isinstance(test, ast.Compare) and len(test.ops) == 1 and isinstance(test.left, ast.Name) and isinstance(test.comparators[0], ast.Name):
        l, r = test.left.id, test.comparators[0].id
        if {l, r} != {a, b}:
            return None
        o = order if l == a else -order
        op = type(test.ops[0])
        return {ast.Lt: o < 0, ast.LtE: o <= 0, ast.Gt: o > 0, ast.GtE: o >= 0, ast.Eq: o == 0, ast.NotEq: o != 0}.get(op)
    return None


def _choice_under(fnode, body, name, a, b, order):
    """value (string constant) of local `name` at its use in `body`, when chosen by comparing a and b."""
    for s in body:
        for n in ast.walk(s):
            if isinstance(n, ast.Assign) and any(isinstance(t, ast.Name) and t.id == name for t in n.targets):
                v = n.value
                if isinstance(v, ast.IfExp):
                    t = _eval_order(v.test, a, b, order)
                    if t is None:
                        return ("underived", src_of(v.test))
                    pick = v.body if t else v.orelse
                    if isinstance(pick, ast.Constant):
                        return ("const", pick.value)
                    return ("underived", src_of(pick))
                if isinstance(v, ast.Constant):
                    return ("const", v.value)
                return ("underived", src_of(v))
            if isinstance(n, ast.If):
                # if a <= b: name = "right" else: name = "left"
                tv = _eval_order(n.test, a, b, order)
                arms = []
                for arm in (n.body, n.orelse):
                    vals = [x.value for st in arm for x in ast.walk(st) if isinstance(x, ast.Assign) and any(isinstance(t, ast.Name) and t.id == name for t in x.targets)]
                    arms.append(vals)
                if arms[0] or arms[1]:
                    if tv is None:
                        return ("underived", src_of(n.test))
                    vals = arms[0] if tv else arms[1]
                    if len(vals) == 1 and isinstance(vals[0], ast.Constant):
                        return ("const", vals[0].value)
                    if len(vals) == 1 and isinstance(vals[0], ast.IfExp):
                        t2 = _eval_order(vals[0].test, a, b, order)
                        if t2 is not None:
                            pick = vals[0].body if t2 else vals[0].orelse
                            if isinstance(pick, ast.Constant):
                                return ("const", pick.value)
                    return ("underived", src_of(n.test))
    return None


def _check_shortcut(r, f, ifnode, compares, defs, construct, where):
    """the gauge-only early return of a truncating routine."""
    body = ifnode.body
    if not any(isinstance(s, ast.Return) for s in body):
        r.skip(construct, "guarded block neither delivers the cap, skips, nor returns")
        return
    sizes = []
    for e, op in compares:
        if op not in (ast.LtE, ast.Lt) or not isinstance(e, ast.Name):
            r.bad(Finding("cap-guard", construct, f"gauge-only shortcut is taken under `{src_of(ifnode.test)}`, which does not bound a tensor's outer size by the cap", where=where, operand="shortcut-guard"))
            return
        sizes.append(e.id)
    if len(sizes) != 2:
        raise AnalysisError(f"cap-guard: shortcut guard of {construct} not recognised: {src_of(ifnode.test)}")
    # which tensor does each size belong to?  size = self.inds_size(ix); ix is element k of tensor_make_single_bond(A, B)
    owner = {}
    for sz in sizes:
        d = _nearest_def(defs, sz, ifnode.lineno)
        if d is None or not (isinstance(d[1], ast.Call) and d[1].args and isinstance(d[1].args[0], ast.Name)):
            raise AnalysisError(f"cap-guard: cannot trace size `{sz}` in {construct}")
        ix = d[1].args[0].id
        dd = _nearest_def(defs, ix, ifnode.lineno)
        if dd is None or dd[2] not in (0, 2) or not (isinstance(dd[1], ast.Call) and len(dd[1].args) >= 2):
            raise AnalysisError(f"cap-guard: cannot trace index set `{ix}` in {construct}")
        owner[sz] = src_of(dd[1].args[0 if dd[2] == 0 else 1])
    # first gauge move in the block
    first = None
    for s in body:
        for n in ast.walk(s):
            if isinstance(n, ast.Call) and (getattr(n.func, "id", None) or getattr(n.func, "attr", None)) == "tensor_canonize_bond":
                first = n
                break
        if first is not None:
            break
    if first is None or len(first.args) < 2:
        r.bad(Finding("cap-guard", construct, "shortcut returns without any gauge move that could reduce the bond", where=where, operand="shortcut-move"))
        return
    t1, t2 = src_of(first.args[0]), src_of(first.args[1])
    absorb = next((k.value for k in first.keywords if k.arg == "absorb"), None)
    a, b = sizes
    for order, label in ((-1, f"{a} < {b}"), (1, f"{a} > {b}")):
        if isinstance(absorb, ast.Constant):
            ch = ("const", absorb.value)
        elif isinstance(absorb, ast.Name):
            ch = _choice_under(f.node, body, absorb.id, a, b, order)
        else:
            ch = None
        if ch is None or ch[0] != "const":
            r.bad(Finding(
                "cap-guard", construct,
                f"shortcut QR direction `{src_of(absorb) if absorb is not None else '<default>'}` is not chosen by comparing the sizes "
                f"`{a}`/`{b}` the guard bounded ({ch[1] if ch else 'no definition found'}): when the larger tensor is the one made "
                "isometric the bond is not reduced to the cap, and the routine returns as if it were",
                where=where, operand="shortcut-direction"))
            return
        # absorb="right" makes the first tensor isometric, "left" the second: new bond <= that tensor's outer size
        iso = t1 if ch[1] == "right" else t2 if ch[1] == "left" else None
        small = owner[a] if order < 0 else owner[b]
        if iso is None or iso != small:
            r.bad(Finding(
                "cap-guard", construct,
                f"when {label} the shortcut makes `{iso}` isometric (absorb={ch[1]!r}) but only `{small}`'s outer size is known "
                "to be within the cap: the bond is left above max_bond",
                where=where, operand="shortcut-orientation"))
            return
    r.ok(construct + "[shortcut]", sample={"guard": src_of(ifnode.test), "direction": "QR of the tensor with the smaller outer size in each ordering", "owners": owner})


def rule_cap_guard(ctx):
    r = RuleResult(
        "cap-guard",
        "every `if` comparing a bond/outer size with max_bond in the boundary-contraction code: a block that compresses "
        "runs when size > cap, a skip (continue/return) when size <= cap, on the pair that is measured; the gauge-only "
        "shortcut of _compress_between_tids makes isometric, in each ordering of the two outer sizes, the tensor whose "
        "size the guard bounded",
    )
    n = 0
    nshort = 0
    for modname, qual in SITES:
        mod = ctx.prog.modules.get(modname)
        if mod is None:
            raise AnalysisError(f"cap-guard: module {modname} not found")
        funcs = [ctx.prog.func(modname, qual)] if qual else [f for f in mod.all_functions if not f.is_alias]
        for f in funcs:
            if f is None:
                raise AnalysisError(f"cap-guard: {modname}.{qual} not found")
            argnames = {a.arg for a in f.node.args.args + f.node.args.kwonlyargs}
            if "max_bond" not in argnames:
                continue
            defs = None
            for node in ast.walk(f.node):
                if not isinstance(node, ast.If):
                    continue
                compares = _cap_compares(node.test)
                if not compares:
                    continue
                if defs is None:
                    defs = _local_defs(f.node)
                where = f"{f.module.relpath}:{node.lineno}"
                construct = f.qualname
                n += 1
                call = _delivers_cap(node.body)
                if call is not None:
                    e, op = compares[0]
                    if op in (ast.Lt, ast.LtE):
                        r.bad(Finding("cap-guard", construct, f"`{src_of(node.test)}` compresses only bonds already within the cap; bonds above it are skipped", where=where, operand="compress-direction"))
                        continue
                    terms = _pair_terms(e, defs)
                    args = _arg_texts([ast.Expr(call)])
                    missing = [t for t in terms if t not in args]
                    if isinstance(e, ast.Call) and (getattr(e.func, "id", None) or getattr(e.func, "attr", None)) in SIZE_FUNCS and missing:
                        r.bad(Finding("cap-guard", construct, f"the bond measured by `{src_of(e)}` ({terms}) is not the pair handed to `{src_of(call.func)}`", where=where, operand="compress-pair"))
                        continue
                    r.ok(construct + "[compress]", sample={"guard": src_of(node.test), "then": src_of(call.func), "pair": terms})
                elif _pure_skip(node.body):
                    e, op = compares[0]
                    if op in (ast.Gt, ast.GtE):
                        r.bad(Finding("cap-guard", construct, f"`{src_of(node.test)}` skips exactly the bonds that exceed the cap", where=where, operand="skip-direction"))
                        continue
                    r.ok(construct + "[skip]", sample={"guard": src_of(node.test), "then": "skip", "pair": _pair_terms(e, defs)})
                else:
                    # guard may be nested: `if max_bond is not None and cutoff == 0: ... if (lsize <= max_bond) or ...`
                    nshort += 1
                    _check_shortcut(r, f, node, compares, defs, construct, where)
    r.floor(n, 4, "max_bond comparison guards")
    r.floor(nshort, 1, "gauge-only shortcut")
    return r



def rule_pair_predicate(ctx):
    r = RuleResult(
        "pair-predicate",
        "a condition over a pair of tensors that repeats one conjunct / disjunct verbatim tests one member twice and the other never "
        "(the skip-compression predicate of the compressed contraction looks at *both* tensors): no boolean operation in quimb.tensor "
        "has two structurally identical operands",
    )
    n = 0
    for g in ctx.prog.all_functions(nested=True):
        if g.is_alias or isinstance(g.node, ast.Lambda) or not (g.module.name.startswith("quimb.tensor") or ctx.is_control(g)):
            continue
        for x in _own_walk_all(g.node):
            if isinstance(x, ast.BoolOp):
                if not ctx.is_control(g):
                    n += 1
                dumps = [ast.dump(v) for v in x.values]
                dup = next((v for v, d in zip(x.values, dumps) if dumps.count(d) > 1), None)
                if dup is not None:
                    names = sorted({y.id for y in ast.walk(dup) if isinstance(y, ast.Name)})
                    r.bad(Finding("pair-predicate", g.qualname,
                                  f"`{src_of(dup)[:70]}` appears twice in `{src_of(x)[:40]}...` (line {x.lineno}): one operand of the pair is tested twice, "
                                  f"its partner never — the predicate also holds when the partner does not satisfy it",
                                  where=f"{g.module.relpath}:{x.lineno}", operand="duplicate:" + ",".join(names)[:40]))
    if not r.findings:
        r.ok("quimb.tensor", sample={"boolean operations scanned": n, "duplicated operands": 0})
    r.floor(n, 300, "boolean operations in quimb.tensor")
    r.need_controls(1)
    return r


def _own_walk_all(fnode):
    """nodes of a function without descending into nested function definitions (they are visited on their own)"""
    stack = list(ast.iter_child_nodes(fnode))
    while stack:
        x = stack.pop()
        yield x
        if isinstance(x, (ast.FunctionDef, ast.AsyncFunctionDef, ast.Lambda)):
            continue
        stack.extend(ast.iter_child_nodes(x))


def rule_opts_delivered(ctx):
    r = RuleResult(
        "opts-delivered",
        "an option dict that a routine of the compressed-contraction family completes (rebinds to a fresh dict and stores defaults / "
        "exclusions into) is handed on afterwards: a dict that is written and never read again means the caller's options — and the "
        "entries just added — silently never reach the callee",
    )
    n = 0
    for g in ctx.prog.all_functions(nested=False):
        if g.is_alias or isinstance(g.node, ast.Lambda) or not (g.module.name.startswith("quimb.tensor") or ctx.is_control(g)):
            continue
        walk = list(ast.walk(g.node))
        for a in walk:
            if not (isinstance(a, ast.Assign) and len(a.targets) == 1 and isinstance(a.targets[0], ast.Name)):
                continue
            name = a.targets[0].id
            if not (name.endswith("opts") or name.endswith("kwargs")):
                continue
            v = a.value
            fresh = isinstance(v, ast.Dict) or (isinstance(v, ast.Call) and (dotted(v.func) or "").split(".")[-1] in ("ensure_dict", "dict")) \
                or (isinstance(v, ast.BinOp) and isinstance(v.op, ast.BitOr))
            if not fresh:
                continue
            # writes into it after the rebinding
            writes = [x for x in walk if isinstance(x, ast.stmt) and x.lineno > a.lineno and (
                (isinstance(x, ast.Assign) and any(isinstance(t, ast.Subscript) and isinstance(t.value, ast.Name) and t.value.id == name for t in x.targets))
                or (isinstance(x, ast.Expr) and isinstance(x.value, ast.Call) and isinstance(x.value.func, ast.Attribute) and x.value.func.attr in ("setdefault", "update")
                    and isinstance(x.value.func.value, ast.Name) and x.value.func.value.id == name))]
            if not writes:
                continue
            if not ctx.is_control(g):
                n += 1
            last = max(w.end_lineno for w in writes)
            in_loop = any(isinstance(l, (ast.For, ast.While)) and any(y is writes[-1] for y in ast.walk(l)) and
                          any(isinstance(y, ast.Name) and y.id == name and isinstance(y.ctx, ast.Load) and not any(y is z for w in writes for z in ast.walk(w)) for y in ast.walk(l))
                          for l in walk)
            nested_use = any(isinstance(h, (ast.FunctionDef, ast.Lambda)) and h is not g.node and any(isinstance(y, ast.Name) and y.id == name for y in ast.walk(h)) for h in walk)
            reads_after = [y for y in walk if isinstance(y, ast.Name) and y.id == name and isinstance(y.ctx, ast.Load) and y.lineno > last]
            construct = f"{g.qualname}:{name}"
            if reads_after or in_loop or nested_use:
                r.ok(construct, sample={"function": g.qualname, "option dict": name, "handed on": True}, nontrivial=False)
            else:
                r.bad(Finding("opts-delivered", g.qualname,
                              f"`{name}` is completed (line {a.lineno}: `{src_of(a)[:50]}`; last write line {last}) and never read afterwards: the options the caller "
                              f"passed as `{name}` and the entries added here do not reach any callee",
                              where=f"{g.module.relpath}:{a.lineno}", operand=name))
    r.floor(n, 20, "option dicts completed inside quimb.tensor routines")
    r.need_controls(1)
    return r
