"""C07 (narrow): cache staleness discipline, registry / API agreement."""

import ast

from ..framework import RuleResult, Finding
from ..model import dotted, src_of, const_value, FuncInfo
from .. import AnalysisError

CORE = "quimb.tensor.circuit.core"
CACHE_ATTRS = {"_storage", "_sampled_conditionals", "_marginal_storage_size"}
CACHE_OWNERS = {"__init__", "copy", "clear_storage", "_maybe_init_storage", "__getstate__", "__setstate__"}


def _circuit_classes(ctx):
    base = ctx.prog.cls(CORE, "CircuitBase")
    return base, [base] + base.all_subclasses()


def rule_cache_check(ctx):
    r = RuleResult(
        "cache-check-before-use",
        "in every circuit class each method that reads or writes self._storage / self._sampled_conditionals / "
        "self._marginal_storage_size calls self._maybe_init_storage() — the gate-count staleness test — as an "
        "unconditional statement before its first access, so a query after further gates can never be served "
        "from a memo of the shorter circuit",
    )
    base, classes = _circuit_classes(ctx)
    n = 0
    for c in classes:
        for name, f in c.methods.items():
            if f.cls is not c or f.is_alias or isinstance(f.node, ast.Lambda) or name in CACHE_OWNERS:
                continue
            acc = [x for x in ast.walk(f.node) if isinstance(x, ast.Attribute) and x.attr in CACHE_ATTRS and isinstance(x.value, ast.Name) and x.value.id == "self"]
            if not acc:
                continue
            n += 1
            first = min(a.lineno for a in acc)
            guards = [st.lineno for st in f.node.body if isinstance(st, ast.Expr) and isinstance(st.value, ast.Call) and src_of(st.value.func) == "self._maybe_init_storage"]
            q = f"{c.name}.{name}"
            if guards and min(guards) < first:
                r.ok(q, sample={"method": q, "first cache access": f"line {first}", "guard": f"self._maybe_init_storage() at line {min(guards)}"})
            else:
                r.bad(Finding("cache-check-before-use", q,
                              f"touches the memo caches (line {first}) without an unconditional self._maybe_init_storage() before: after more gates are "
                              f"applied it can return results cached for the shorter circuit", where=f"{f.module.relpath}:{f.lineno}"))
    r.floor(n, 8, "cache-touching circuit methods")
    # the staleness test itself
    m = base.methods["_maybe_init_storage"]
    s = src_of(m.node).replace(" ", "")
    if "self._sample_n_gates!=self.num_gates" in s and "self.clear_storage()" in s:
        r.ok("CircuitBase._maybe_init_storage", sample={"test": "self._sample_n_gates != self.num_gates -> clear_storage()"})
    else:
        r.bad(Finding("cache-check-before-use", "CircuitBase._maybe_init_storage", "staleness test on the gate count lost", where=f"{m.module.relpath}:{m.lineno}"))
    cs = base.methods["clear_storage"]
    s = src_of(cs.node).replace(" ", "")
    need = ["self._storage.clear()", "self._sampled_conditionals.clear()", "self._marginal_storage_size=0", "self._sample_n_gates=self.num_gates"]
    miss = [x for x in need if x not in s]
    if not miss:
        r.ok("CircuitBase.clear_storage", sample={"clears": need})
    else:
        r.bad(Finding("cache-check-before-use", "CircuitBase.clear_storage", f"does not perform {miss}", where=f"{cs.module.relpath}:{cs.lineno}"))
    return r


def rule_writers_invalidate(ctx):
    r = RuleResult(
        "writers-invalidate",
        "every circuit method (outside the gate-application path, which changes the gate count) that rewrites "
        "recorded gates, gate parameters, named parameters or the state in place reaches self.clear_storage() on "
        "every normal exit after the write: parameter updates keep the gate count, so only an explicit clear "
        "prevents stale memoised results",
    )
    base, classes = _circuit_classes(ctx)
    n = 0

    def writes(f):
        out = []
        for x in ast.walk(f.node):
            if isinstance(x, (ast.Assign, ast.AugAssign)):
                ts = x.targets if isinstance(x, ast.Assign) else [x.target]
                for t in ts:
                    s = src_of(t)
                    if s.startswith("self._gates[") or s in ("self._named_params", "self._named_param_exprs") or (s.startswith("self._psi[") and s.endswith(".params")):
                        out.append((x.lineno, s))
            if isinstance(x, ast.Call) and isinstance(x.func, ast.Attribute):
                s = src_of(x.func)
                if s in ("self._named_params.update", "self._named_params.pop", "self._named_param_exprs.update", "self._set_gate_params", "self._apply_named_param_updates"):
                    out.append((x.lineno, s + "(...)"))
        return out

    helpers = {"_set_gate_params", "_apply_named_param_updates", "_apply_gate", "__init__", "copy"}
    exempt = {
        "apply_to_arrays": "representation-only by contract (dtype / backend conversion of every array, see "
                           "TensorNetwork.apply_to_arrays): cached networks keep the same numerical meaning",
    }
    for c in classes:
        for name, f in c.methods.items():
            if f.cls is not c or f.is_alias or isinstance(f.node, ast.Lambda) or name in helpers:
                continue
            w = writes(f)
            if not w:
                continue
            n += 1
            q = f"{c.name}.{name}"
            if name in exempt:
                r.exempt(q, exempt[name])
                continue
            clears = [st.lineno for st in ast.walk(f.node) if isinstance(st, ast.Expr) and isinstance(st.value, ast.Call) and src_of(st.value.func) == "self.clear_storage"]
            top_clears = [st.lineno for st in f.node.body if isinstance(st, ast.Expr) and isinstance(st.value, ast.Call) and src_of(st.value.func) == "self.clear_storage"]
            last_write = max(l for l, _ in w)
            rets_after = [x for x in ast.walk(f.node) if isinstance(x, ast.Return) and min(l for l, _ in w) < x.lineno and not any(cl < x.lineno for cl in clears)]
            if top_clears and max(top_clears) > last_write and not rets_after:
                r.ok(q, sample={"method": q, "writes": [s for _, s in w][:3], "then": "self.clear_storage()"})
            else:
                r.bad(Finding("writers-invalidate", q,
                              f"rewrites {w[0][1]} (line {w[0][0]}) but does not reach an unconditional self.clear_storage() after the last write: "
                              f"cached light-cone networks / marginals of the old parameters stay live",
                              where=f"{f.module.relpath}:{f.lineno}"))
    r.floor(n, 3, "parameter-writing circuit methods")
    # in-place state rewrites of lazy MPS simulator
    mps = ctx.prog.module("quimb.tensor.circuit.mps")
    lazy = mps.classes.get("CircuitMPSLazy")
    if lazy is None:
        raise AnalysisError("CircuitMPSLazy not found")
    comp = lazy.methods.get("_compress")
    s = src_of(comp.node)
    tail = [st for st in comp.node.body if isinstance(st, ast.Expr) and isinstance(st.value, ast.Call) and src_of(st.value.func) == "self.clear_storage"]
    compress_calls = [x.lineno for x in ast.walk(comp.node) if isinstance(x, ast.Call) and (dotted(x.func) or "").split(".")[-1].startswith("tensor_network_1d_compress")]
    if tail and compress_calls and tail[-1].lineno > max(compress_calls):
        r.ok("CircuitMPSLazy._compress", sample={"rewrites": "self._psi in place (compression)", "then": "self.clear_storage()"})
    else:
        r.bad(Finding("writers-invalidate", "CircuitMPSLazy._compress", "compresses self._psi in place without clearing the memo caches afterwards", where=f"{comp.module.relpath}:{comp.lineno}"))
    return r


def rule_copy_complete(ctx):
    r = RuleResult(
        "circuit-copy-complete",
        "CircuitBase.copy assigns on the new object every attribute that __init__ assigns on self (so no state is "
        "lost or shared by accident), builds containers by copying expressions, and subclass overrides call it",
    )
    base, classes = _circuit_classes(ctx)
    init = base.methods["__init__"]
    cp = base.methods["copy"]

    def assigned(fnode, recv):
        out = {}
        for x in ast.walk(fnode):
            if isinstance(x, ast.Assign):
                for t in x.targets:
                    for tt in (t.elts if isinstance(t, ast.Tuple) else [t]):
                        if isinstance(tt, ast.Attribute) and isinstance(tt.value, ast.Name) and tt.value.id == recv:
                            out[tt.attr] = x.value
        return out

    a_init = assigned(init.node, "self")
    newname = None
    for x in ast.walk(cp.node):
        if isinstance(x, ast.Return) and isinstance(x.value, ast.Name):
            newname = x.value.id
    if newname is None:
        raise AnalysisError("CircuitBase.copy: returned object not found")
    a_copy = assigned(cp.node, newname)
    where = f"{cp.module.relpath}:{cp.lineno}"
    missing = sorted(set(a_init) - set(a_copy))
    if missing:
        r.bad(Finding("circuit-copy-complete", "CircuitBase.copy", f"does not carry over {missing} which __init__ assigns", where=where, operand=",".join(missing)))
    else:
        r.ok("CircuitBase.copy[attributes]", sample={"attributes": sorted(a_copy)})
    for attr, val in sorted(a_copy.items()):
        s = src_of(val)
        if s == f"self.{attr}" and attr in ("_storage", "_sampled_conditionals", "_gates", "_named_params", "_named_param_exprs", "gate_opts"):
            r.bad(Finding("circuit-copy-complete", "CircuitBase.copy", f"container `{attr}` is shared with the original (bare alias)", where=where, operand=attr))
        else:
            r.ok(f"CircuitBase.copy[{attr}]", nontrivial=False)
    for c in classes[1:]:
        m = c.methods.get("copy")
        if m is not None and m.cls is c and not m.is_alias:
            if "super().copy" in src_of(m.node):
                r.ok(f"{c.name}.copy[super]", sample={"override": c.name, "delegates": "super().copy()"})
            else:
                r.bad(Finding("circuit-copy-complete", f"{c.name}.copy", "override does not call super().copy()", where=f"{m.module.relpath}:{m.lineno}"))
    return r


# ------------------------------------------------------------ gate registry
def rule_gate_registry(ctx):
    r = RuleResult(
        "gate-registry",
        "statically evaluated register_*_gate calls: every convenience method of CircuitBase applies a label that is "
        "registered, passes as many parameters and qubits as the registration declares, and offers `parametrize` "
        "iff the gate is parametrized; every registered gate has a consistent arity across the constant / "
        "parametrized / special registries",
    )
    gm = ctx.prog.module("quimb.tensor.circuit.gates")
    reg = {}
    for n in ast.walk(gm.tree):
        if isinstance(n, ast.Call) and isinstance(n.func, ast.Name) and n.func.id.startswith("register_") and n.func.id.endswith("_gate") and n.args:
            label = const_value(n.args[0], None)
            if not isinstance(label, str):
                continue
            kind = n.func.id[len("register_"):-len("_gate")]
            nq = None
            if len(n.args) >= 3:
                nq = const_value(n.args[2], None)
            for k in n.keywords:
                if k.arg in ("num_qubits",):
                    nq = const_value(k.value, None)
            reg.setdefault(label.upper(), []).append((kind, nq, n))
    # decorator-style registrations
    for f in gm.all_functions:
        if isinstance(f.node, ast.Lambda):
            continue
        for d in f.node.decorator_list:
            if isinstance(d, ast.Call) and isinstance(d.func, ast.Name) and d.func.id.startswith("register_") and d.args:
                label = const_value(d.args[0], None)
                if isinstance(label, str):
                    nq = const_value(d.args[1], None) if len(d.args) > 1 else None
                    for k in d.keywords:
                        if k.arg == "num_qubits":
                            nq = const_value(k.value, None)
                    reg.setdefault(label.upper(), []).append((d.func.id[len("register_"):-len("_gate")], nq, d))
    r.floor(len(reg), 40, "registered gate labels")
    base = ctx.prog.cls(CORE, "CircuitBase")
    n = 0
    for name, f in base.methods.items():
        if f.cls is not base or f.is_alias or isinstance(f.node, ast.Lambda):
            continue
        calls = [c for c in ast.walk(f.node) if isinstance(c, ast.Call) and src_of(c.func) == "self.apply_gate" and c.args and isinstance(c.args[0], ast.Constant) and isinstance(c.args[0].value, str)]
        if len(calls) != 1 or len(f.node.body) > 3:
            continue
        c = calls[0]
        label = c.args[0].value.upper()
        n += 1
        q = f"CircuitBase.{name}"
        where = f"{f.module.relpath}:{f.lineno}"
        if label not in reg:
            r.bad(Finding("gate-registry", q, f"applies label {label!r} which is not registered in circuit/gates.py", where=where, operand=label))
            continue
        kinds = {k for k, _, _ in reg[label]}
        nqs = {q_ for _, q_, _ in reg[label] if isinstance(q_, int)}
        # positional params of the convenience method (minus self) that are forwarded
        fwd = [src_of(a) for a in c.args[1:]]
        problems = []
        if any(a not in f.posparams for a in fwd if a.isidentifier()):
            problems.append(f"forwards {fwd}, not all of which are its own parameters")
        if "parametrize" in f.params and not ({"param", "parametrized"} & kinds):
            problems.append("offers `parametrize` although the gate is registered as constant")
        if ({"param", "parametrized"} & kinds) and "parametrize" not in f.params and "kwargs" != f.varkw and not f.has_varkw:
            problems.append("gate is parametrized but the method offers no `parametrize`")
        if nqs:
            nq = max(nqs)
            # count qubit arguments = forwarded positional names that are not parameter names of the generator
            if len(fwd) < nq:
                problems.append(f"forwards {len(fwd)} positional arguments, fewer than the {nq} qubits the gate acts on")
        if problems:
            for p_ in problems:
                r.bad(Finding("gate-registry", q, p_, where=where, operand=f"{label}:{p_[:20]}"))
        else:
            r.ok(q, sample={"method": name, "label": label, "registered as": sorted(kinds), "forwards": fwd})
    r.floor(n, 40, "convenience gate methods")
    return r
