"""C07 (narrow): cache staleness discipline, registry / API agreement."""

import ast

from ..framework import RuleResult, Finding
from ..model import dotted, src_of, const_value, FuncInfo
from .. import AnalysisError

CORE = "quimb.tensor.circuit.core"
CACHE_ATTRS = {"_storage", "_sampled_conditionals", "_marginal_storage_size"}
CACHE_OWNERS = {"__init__", "copy", "clear_storage", "_maybe_init_storage", "__getstate__", "__setstate__"}


def _circuit_classes(ctx):
    base = ctx.prog.cls(CORE, "CircuitBase")
    return base, [base] + base.all_subclasses()


def rule_cache_check(ctx):
    r = RuleResult(
        "cache-check-before-use",
        "in every circuit class each method that reads or writes self._storage / self._sampled_conditionals / "
        "self._marginal_storage_size calls self._maybe_init_storage() — the gate-count staleness test — as an "
        "unconditional statement before its first access, so a query after further gates can never be served "
        "from a memo of the shorter circuit",
    )
    base, classes = _circuit_classes(ctx)
    n = 0

    def guard_line(f):
        g = [st.lineno for st in f.node.body if isinstance(st, ast.Expr) and isinstance(st.value, ast.Call) and src_of(st.value.func) == "self._maybe_init_storage"]
        return min(g) if g else None

    # methods that touch the caches before (or without) their own guard expose the access to their callers
    exposed = {}
    changed = True
    while changed:
        changed = False
        for c in classes:
            for name, f in c.methods.items():
                if f.cls is not c or f.is_alias or isinstance(f.node, ast.Lambda) or name in CACHE_OWNERS or (c.name, name) in exposed:
                    continue
                lines = [x.lineno for x in ast.walk(f.node) if isinstance(x, ast.Attribute) and x.attr in CACHE_ATTRS and isinstance(x.value, ast.Name) and x.value.id == "self"]
                for x in ast.walk(f.node):
                    if isinstance(x, ast.Call) and isinstance(x.func, ast.Attribute) and isinstance(x.func.value, ast.Name) and x.func.value.id == "self":
                        tgt = c.find(x.func.attr)
                        if tgt is not None and tgt.cls is not None and (tgt.cls.name, x.func.attr) in exposed:
                            lines.append(x.lineno)
                g = guard_line(f)
                if lines and (g is None or g > min(lines)):
                    exposed[(c.name, name)] = min(lines)
                    changed = True
    for c in classes:
        for name, f in c.methods.items():
            if f.cls is not c or f.is_alias or isinstance(f.node, ast.Lambda) or name in CACHE_OWNERS:
                continue
            acc = [x for x in ast.walk(f.node) if isinstance(x, ast.Attribute) and x.attr in CACHE_ATTRS and isinstance(x.value, ast.Name) and x.value.id == "self"]
            via = [x for x in ast.walk(f.node) if isinstance(x, ast.Call) and isinstance(x.func, ast.Attribute) and isinstance(x.func.value, ast.Name) and x.func.value.id == "self"
                   and c.find(x.func.attr) is not None and c.find(x.func.attr).cls is not None and (c.find(x.func.attr).cls.name, x.func.attr) in exposed]
            if not acc and not via:
                continue
            n += 1
            first = min(a.lineno for a in acc + via)
            g = guard_line(f)
            q = f"{c.name}.{name}"
            is_public = not name.startswith("_")
            if g is not None and g < first:
                r.ok(q, sample={"method": q, "first cache access": f"line {first}", "guard": f"self._maybe_init_storage() at line {g}"})
            elif not is_public and (c.name, name) in exposed:
                # a private helper without its own guard: the obligation moves to each caller (checked there)
                r.ok(q, sample={"method": q, "guard": "delegated to callers (private helper)"}, nontrivial=False)
            else:
                r.bad(Finding("cache-check-before-use", q,
                              f"touches the memo caches (line {first}{' via an unguarded helper' if not acc else ''}) without an unconditional self._maybe_init_storage() before: after more gates are "
                              f"applied it can return results cached for the shorter circuit", where=f"{f.module.relpath}:{f.lineno}"))
    r.floor(n, 8, "cache-touching circuit methods")
    # the staleness test itself (structural: an if comparing the recorded gate count with num_gates whose branch clears)
    m = base.methods["_maybe_init_storage"]

    def _attrs(e):
        return {x.attr for x in ast.walk(e) if isinstance(x, ast.Attribute) and isinstance(x.value, ast.Name) and x.value.id == "self"}

    def _calls_clear(stmts):
        return any(isinstance(x, ast.Call) and isinstance(x.func, ast.Attribute) and x.func.attr == "clear_storage" for st in stmts for x in ast.walk(st))

    stale_ok = False
    for n_ in ast.walk(m.node):
        if isinstance(n_, ast.If):
            for c_ in ast.walk(n_.test):
                if isinstance(c_, ast.Compare) and len(c_.ops) == 1 and {"_sample_n_gates", "num_gates"} <= _attrs(c_):
                    if isinstance(c_.ops[0], ast.NotEq) and _calls_clear(n_.body):
                        stale_ok = True
                    if isinstance(c_.ops[0], ast.Eq) and _calls_clear(n_.orelse):
                        stale_ok = True
    if stale_ok:
        r.ok("CircuitBase._maybe_init_storage", sample={"test": "recorded gate count differs from num_gates -> clear_storage()"})
    else:
        r.bad(Finding("cache-check-before-use", "CircuitBase._maybe_init_storage", "staleness test on the gate count lost", where=f"{m.module.relpath}:{m.lineno}"))
    cs = base.methods["clear_storage"]
    cleared = {x.func.value.attr for x in ast.walk(cs.node) if isinstance(x, ast.Call) and isinstance(x.func, ast.Attribute) and x.func.attr == "clear"
               and isinstance(x.func.value, ast.Attribute) and isinstance(x.func.value.value, ast.Name) and x.func.value.value.id == "self"}
    assigned = {}
    for a_ in ast.walk(cs.node):
        if isinstance(a_, ast.Assign):
            for t_ in a_.targets:
                if isinstance(t_, ast.Attribute) and isinstance(t_.value, ast.Name) and t_.value.id == "self":
                    assigned[t_.attr] = a_.value
    miss = [x for x in ("_storage", "_sampled_conditionals") if x not in cleared and x not in assigned]
    if not (isinstance(assigned.get("_marginal_storage_size"), ast.Constant) and assigned["_marginal_storage_size"].value == 0):
        miss.append("_marginal_storage_size = 0")
    if "num_gates" not in _attrs(assigned.get("_sample_n_gates", ast.Constant(value=None))):
        miss.append("_sample_n_gates = self.num_gates")
    if not miss:
        r.ok("CircuitBase.clear_storage", sample={"clears": sorted(cleared), "resets": sorted(assigned)})
    else:
        r.bad(Finding("cache-check-before-use", "CircuitBase.clear_storage", f"does not reset {miss}", where=f"{cs.module.relpath}:{cs.lineno}"))
    return r


def rule_writers_invalidate(ctx):
    r = RuleResult(
        "writers-invalidate",
        "every circuit method (outside the gate-application path, which changes the gate count) that rewrites "
        "recorded gates, gate parameters, named parameters or the state in place reaches self.clear_storage() on "
        "every normal exit after the write: parameter updates keep the gate count, so only an explicit clear "
        "prevents stale memoised results",
    )
    base, classes = _circuit_classes(ctx)
    n = 0

    def writes(f):
        out = []
        for x in ast.walk(f.node):
            if isinstance(x, (ast.Assign, ast.AugAssign)):
                ts = x.targets if isinstance(x, ast.Assign) else [x.target]
                for t in ts:
                    s = src_of(t)
                    if s.startswith("self._gates[") or s in ("self._named_params", "self._named_param_exprs") or (s.startswith("self._psi[") and s.endswith(".params")):
                        out.append((x.lineno, s))
            if isinstance(x, ast.Call) and isinstance(x.func, ast.Attribute):
                s = src_of(x.func)
                if s in ("self._named_params.update", "self._named_params.pop", "self._named_param_exprs.update", "self._set_gate_params", "self._apply_named_param_updates"):
                    out.append((x.lineno, s + "(...)"))
        return out

    helpers = {"_set_gate_params", "_apply_named_param_updates", "_apply_gate", "__init__", "copy"}
    exempt = {
        "apply_to_arrays": "representation-only by contract (dtype / backend conversion of every array, see "
                           "TensorNetwork.apply_to_arrays): cached networks keep the same numerical meaning",
    }
    for c in classes:
        for name, f in c.methods.items():
            if f.cls is not c or f.is_alias or isinstance(f.node, ast.Lambda) or name in helpers:
                continue
            w = writes(f)
            if not w:
                continue
            n += 1
            q = f"{c.name}.{name}"
            if name in exempt:
                r.exempt(q, exempt[name])
                continue
            clears = [st.lineno for st in ast.walk(f.node) if isinstance(st, ast.Expr) and isinstance(st.value, ast.Call) and src_of(st.value.func) == "self.clear_storage"]
            top_clears = [st.lineno for st in f.node.body if isinstance(st, ast.Expr) and isinstance(st.value, ast.Call) and src_of(st.value.func) == "self.clear_storage"]
            last_write = max(l for l, _ in w)
            rets_after = [x for x in ast.walk(f.node) if isinstance(x, ast.Return) and min(l for l, _ in w) < x.lineno and not any(cl < x.lineno for cl in clears)]
            if top_clears and max(top_clears) > last_write and not rets_after:
                r.ok(q, sample={"method": q, "writes": [s for _, s in w][:3], "then": "self.clear_storage()"})
            else:
                r.bad(Finding("writers-invalidate", q,
                              f"rewrites {w[0][1]} (line {w[0][0]}) but does not reach an unconditional self.clear_storage() after the last write: "
                              f"cached light-cone networks / marginals of the old parameters stay live",
                              where=f"{f.module.relpath}:{f.lineno}"))
    r.floor(n, 3, "parameter-writing circuit methods")
    # in-place state rewrites of lazy MPS simulator
    mps = ctx.prog.module("quimb.tensor.circuit.mps")
    lazy = mps.classes.get("CircuitMPSLazy")
    if lazy is None:
        raise AnalysisError("CircuitMPSLazy not found")
    comp = lazy.methods.get("_compress")
    s = src_of(comp.node)
    tail = [st for st in comp.node.body if isinstance(st, ast.Expr) and isinstance(st.value, ast.Call) and src_of(st.value.func) == "self.clear_storage"]
    compress_calls = [x.lineno for x in ast.walk(comp.node) if isinstance(x, ast.Call) and (dotted(x.func) or "").split(".")[-1].startswith("tensor_network_1d_compress")]
    if tail and compress_calls and tail[-1].lineno > max(compress_calls):
        r.ok("CircuitMPSLazy._compress", sample={"rewrites": "self._psi in place (compression)", "then": "self.clear_storage()"})
    else:
        r.bad(Finding("writers-invalidate", "CircuitMPSLazy._compress", "compresses self._psi in place without clearing the memo caches afterwards", where=f"{comp.module.relpath}:{comp.lineno}"))
    return r


def rule_copy_complete(ctx):
    r = RuleResult(
        "circuit-copy-complete",
        "CircuitBase.copy assigns on the new object every attribute that __init__ assigns on self (so no state is "
        "lost or shared by accident), builds containers by copying expressions, and subclass overrides call it",
    )
    base, classes = _circuit_classes(ctx)
    init = base.methods["__init__"]
    cp = base.methods["copy"]

    def assigned(fnode, recv):
        out = {}
        for x in ast.walk(fnode):
            if isinstance(x, ast.Assign):
                for t in x.targets:
                    for tt in (t.elts if isinstance(t, ast.Tuple) else [t]):
                        if isinstance(tt, ast.Attribute) and isinstance(tt.value, ast.Name) and tt.value.id == recv:
                            out[tt.attr] = x.value
        return out

    a_init = assigned(init.node, "self")
    # cache state created lazily: whatever clear_storage assigns is part of the object's state as soon as the staleness marker
    # (which copy() carries over) says the caches are initialised
    clr = base.methods.get("clear_storage")
    a_lazy = assigned(clr.node, "self") if clr is not None else {}
    newname = None
    for x in ast.walk(cp.node):
        if isinstance(x, ast.Return) and isinstance(x.value, ast.Name):
            newname = x.value.id
    if newname is None:
        raise AnalysisError("CircuitBase.copy: returned object not found")
    a_copy = assigned(cp.node, newname)
    where = f"{cp.module.relpath}:{cp.lineno}"
    missing = sorted(set(a_init) - set(a_copy))
    marker_copied = any(k in a_copy for k in a_lazy if k in a_init)
    lazy_missing = sorted(k for k in a_lazy if k not in a_copy) if marker_copied else []
    if lazy_missing:
        r.bad(Finding("circuit-copy-complete", "CircuitBase.copy", f"copies the marker that says the caches are initialised but not {lazy_missing}, which only clear_storage creates: "
                                                                    "the copy hits an AttributeError (or a stale counter) on its first cache miss", where=where, operand="lazy:" + ",".join(lazy_missing)))
    elif a_lazy:
        r.ok("CircuitBase.copy[lazy cache state]", sample={"created by clear_storage": sorted(a_lazy), "copied": True})
    if missing:
        r.bad(Finding("circuit-copy-complete", "CircuitBase.copy", f"does not carry over {missing} which __init__ assigns", where=where, operand=",".join(missing)))
    else:
        r.ok("CircuitBase.copy[attributes]", sample={"attributes": sorted(a_copy)})
    for attr, val in sorted(a_copy.items()):
        s = src_of(val)
        if s == f"self.{attr}" and attr in ("_storage", "_sampled_conditionals", "_gates", "_named_params", "_named_param_exprs", "gate_opts"):
            r.bad(Finding("circuit-copy-complete", "CircuitBase.copy", f"container `{attr}` is shared with the original (bare alias)", where=where, operand=attr))
        else:
            r.ok(f"CircuitBase.copy[{attr}]", nontrivial=False)
    # option dicts that carry nested mutable per-object state (e.g. gate_opts["info"], the canonical-form record of the MPS
    # simulators) must be copied deeply: a shallow copy makes the original and every copy update one shared record
    nested = {}
    for c in classes:
        ini = c.methods.get("__init__")
        if ini is None or ini.cls is not c or ini.is_alias:
            continue
        for x in ast.walk(ini.node):
            if isinstance(x, ast.Call) and isinstance(x.func, ast.Attribute) and x.func.attr == "setdefault" and len(x.args) == 2 \
                    and isinstance(x.args[1], (ast.Dict, ast.List, ast.Set)) and src_of(x.func.value).split(".")[-1] in a_copy:
                nested.setdefault(src_of(x.func.value).split(".")[-1], []).append((c.name, const_value(x.args[0], "?")))
            if isinstance(x, ast.Assign) and isinstance(x.targets[0], ast.Subscript) and isinstance(x.value, (ast.Dict, ast.List, ast.Set)) \
                    and src_of(x.targets[0].value).split(".")[-1] in a_copy:
                nested.setdefault(src_of(x.targets[0].value).split(".")[-1], []).append((c.name, const_value(x.targets[0].slice, "?")))
    for attr, users in sorted(nested.items()):
        val = a_copy[attr]
        deep = False
        if isinstance(val, ast.Call):
            fn = (dotted(val.func) or "").split(".")[-1]
            deep = fn in ("tree_map", "deepcopy", "tree_copy")
        if isinstance(val, ast.DictComp) and isinstance(val.value, ast.Call):
            deep = True
        if deep:
            r.ok(f"CircuitBase.copy[{attr} deep]", sample={"attribute": attr, "nested mutable entries": [f"{c}: {k!r}" for c, k in users], "copied with": src_of(val)[:50]})
        else:
            r.bad(Finding("circuit-copy-complete", "CircuitBase.copy",
                          f"`{attr}` is copied with `{src_of(val)[:50]}` (shallow) although {users[0][0]}.__init__ stores the mutable entry {users[0][1]!r} in it: "
                          "the original and its copies then share that entry (for the MPS simulators the canonical-form record), while each has its own state",
                          where=where, operand=f"{attr}:shallow"))
    for c in classes[1:]:
        m = c.methods.get("copy")
        if m is not None and m.cls is c and not m.is_alias:
            if "super().copy" in src_of(m.node):
                r.ok(f"{c.name}.copy[super]", sample={"override": c.name, "delegates": "super().copy()"})
            else:
                r.bad(Finding("circuit-copy-complete", f"{c.name}.copy", "override does not call super().copy()", where=f"{m.module.relpath}:{m.lineno}"))
    return r


# ------------------------------------------------------------ gate registry
def rule_gate_registry(ctx):
    r = RuleResult(
        "gate-registry",
        "statically evaluated register_*_gate calls: every convenience method of CircuitBase applies a label that is "
        "registered, passes as many parameters and qubits as the registration declares, and offers `parametrize` "
        "iff the gate is parametrized; every registered gate has a consistent arity across the constant / "
        "parametrized / special registries",
    )
    gm = ctx.prog.module("quimb.tensor.circuit.gates")
    reg = {}
    for n in ast.walk(gm.tree):
        if isinstance(n, ast.Call) and isinstance(n.func, ast.Name) and n.func.id.startswith("register_") and n.func.id.endswith("_gate") and n.args:
            label = const_value(n.args[0], None)
            if not isinstance(label, str):
                continue
            kind = n.func.id[len("register_"):-len("_gate")]
            nq = None
            if len(n.args) >= 3:
                nq = const_value(n.args[2], None)
            for k in n.keywords:
                if k.arg in ("num_qubits",):
                    nq = const_value(k.value, None)
            reg.setdefault(label.upper(), []).append((kind, nq, n))
    # decorator-style registrations
    for f in gm.all_functions:
        if isinstance(f.node, ast.Lambda):
            continue
        for d in f.node.decorator_list:
            if isinstance(d, ast.Call) and isinstance(d.func, ast.Name) and d.func.id.startswith("register_") and d.args:
                label = const_value(d.args[0], None)
                if isinstance(label, str):
                    nq = const_value(d.args[1], None) if len(d.args) > 1 else None
                    for k in d.keywords:
                        if k.arg == "num_qubits":
                            nq = const_value(k.value, None)
                    reg.setdefault(label.upper(), []).append((d.func.id[len("register_"):-len("_gate")], nq, d))
    r.floor(len(reg), 40, "registered gate labels")
    base = ctx.prog.cls(CORE, "CircuitBase")
    n = 0
    for name, f in base.methods.items():
        if f.cls is not base or f.is_alias or isinstance(f.node, ast.Lambda):
            continue
        calls = [c for c in ast.walk(f.node) if isinstance(c, ast.Call) and src_of(c.func) == "self.apply_gate" and c.args and isinstance(c.args[0], ast.Constant) and isinstance(c.args[0].value, str)]
        if len(calls) != 1 or len(f.node.body) > 3:
            continue
        c = calls[0]
        label = c.args[0].value.upper()
        n += 1
        q = f"CircuitBase.{name}"
        where = f"{f.module.relpath}:{f.lineno}"
        if label not in reg:
            r.bad(Finding("gate-registry", q, f"applies label {label!r} which is not registered in circuit/gates.py", where=where, operand=label))
            continue
        kinds = {k for k, _, _ in reg[label]}
        nqs = {q_ for _, q_, _ in reg[label] if isinstance(q_, int)}
        # positional params of the convenience method (minus self) that are forwarded
        fwd = [src_of(a) for a in c.args[1:]]
        problems = []
        if any(a not in f.posparams for a in fwd if a.isidentifier()):
            problems.append(f"forwards {fwd}, not all of which are its own parameters")
        if "parametrize" in f.params and not ({"param", "parametrized"} & kinds):
            problems.append("offers `parametrize` although the gate is registered as constant")
        if ({"param", "parametrized"} & kinds) and "parametrize" not in f.params and "kwargs" != f.varkw and not f.has_varkw:
            problems.append("gate is parametrized but the method offers no `parametrize`")
        if nqs:
            nq = max(nqs)
            # count qubit arguments = forwarded positional names that are not parameter names of the generator
            if len(fwd) < nq:
                problems.append(f"forwards {len(fwd)} positional arguments, fewer than the {nq} qubits the gate acts on")
        if problems:
            for p_ in problems:
                r.bad(Finding("gate-registry", q, p_, where=where, operand=f"{label}:{p_[:20]}"))
        else:
            r.ok(q, sample={"method": name, "label": label, "registered as": sorted(kinds), "forwards": fwd})
    r.floor(n, 40, "convenience gate methods")
    return r


def rule_cache_key_siblings(ctx):
    r = RuleResult(
        "cache-key-siblings",
        "all samplers share one memo of conditional marginals (_sampled_conditionals): every site that reads or "
        "writes it builds its key by the same expression over (where, result) — the fixed qubits *and* their "
        "values — so that one sampler can never be served another's entry for a different conditioning; tagged "
        "_storage keys start with a string tag that is used by one computation only",
    )
    sites = []
    for modname in ("quimb.tensor.circuit.exact", "quimb.tensor.circuit.mps"):
        m = ctx.prog.module(modname)
        for f in m.all_functions:
            if isinstance(f.node, ast.Lambda) or f.parent is not None:
                continue
            defs = {}
            for n in ast.walk(f.node):
                if isinstance(n, ast.Assign) and len(n.targets) == 1 and isinstance(n.targets[0], ast.Name):
                    defs.setdefault(n.targets[0].id, []).append(n.value)
            for n in ast.walk(f.node):
                if isinstance(n, ast.Subscript) and isinstance(n.value, ast.Attribute) and n.value.attr == "_sampled_conditionals":
                    k = n.slice
                    if isinstance(k, ast.Name):
                        prev = [d for d in defs.get(k.id, []) if d.lineno <= n.lineno]
                        exprs = prev[-1:] if prev else defs.get(k.id, [])[:1]
                    else:
                        exprs = [k]
                    for e in exprs:
                        # shape of the key with the function's own names abstracted (v0, v1, ... in order of appearance):
                        # siblings may call their locals differently, the *structure* of the key is what has to agree
                        import copy as _copy
                        e2 = _copy.deepcopy(e)
                        order = {}
                        fnames = {id(c_.func) for c_ in ast.walk(e2) if isinstance(c_, ast.Call)}
                        for y in ast.walk(e2):
                            if isinstance(y, ast.Name) and id(y) not in fnames:
                                y.id = order.setdefault(y.id, f"v{len(order)}")
                        sites.append((f, n.lineno, " ".join(src_of(e2).split())))
    r.floor(len(sites), 6, "accesses of _sampled_conditionals")
    shapes = {}
    for f, line, text in sites:
        shapes.setdefault(text, []).append((f, line))
    if len(shapes) == 1:
        text = next(iter(shapes))
        kt = ast.parse(text, mode="eval").body
        has_items = any(isinstance(x, ast.Call) and isinstance(x.func, ast.Attribute) and x.func.attr == "items" for x in ast.walk(kt))
        if isinstance(kt, ast.Tuple) and len(kt.elts) >= 2 and has_items:
            r.ok("_sampled_conditionals[key]", sample={"key": text, "sites": [f"{f.qualname}:{l}" for f, l in shapes[text]][:8]})
        else:
            f0, l0 = shapes[text][0]
            r.bad(Finding("cache-key-siblings", "_sampled_conditionals", f"key `{text}` does not capture both the fixed qubits and their values (where, result.items())",
                          where=f"{f0.module.relpath}:{l0}", operand="key-content"))
    else:
        major = max(shapes, key=lambda t: len(shapes[t]))
        for text, lst in shapes.items():
            if text == major:
                r.ok(f"_sampled_conditionals[{text}]", nontrivial=False)
                continue
            for f, line in lst[:1]:
                r.bad(Finding(
                    "cache-key-siblings", f.qualname,
                    f"builds the key of the shared memo _sampled_conditionals as `{text}` (line {line}) while the other samplers use `{major}`: entries written "
                    f"under one scheme are served to queries of the other", where=f"{f.module.relpath}:{line}", operand="key-shape"))
    # _storage tags
    tags = {}
    for modname in ("quimb.tensor.circuit.exact", "quimb.tensor.circuit.mps", "quimb.tensor.circuit.core"):
        m = ctx.prog.module(modname)
        for f in m.all_functions:
            if isinstance(f.node, ast.Lambda) or f.parent is not None:
                continue
            # locals used to subscript self._storage (whatever they are called)
            knames = {x.slice.id for x in ast.walk(f.node) if isinstance(x, ast.Subscript) and isinstance(x.slice, ast.Name)
                      and isinstance(x.value, ast.Attribute) and x.value.attr == "_storage"}
            knames |= {c_.left.id for c_ in ast.walk(f.node) if isinstance(c_, ast.Compare) and isinstance(c_.left, ast.Name) and len(c_.ops) == 1
                       and isinstance(c_.ops[0], (ast.In, ast.NotIn)) and isinstance(c_.comparators[0], ast.Attribute) and c_.comparators[0].attr == "_storage"}
            for n in ast.walk(f.node):
                if isinstance(n, ast.Assign) and isinstance(n.targets[0], ast.Name) and n.targets[0].id in knames and isinstance(n.value, ast.Tuple) and n.value.elts \
                        and isinstance(n.value.elts[0], ast.Constant) and isinstance(n.value.elts[0].value, str):
                    import copy as _copy
                    e2 = _copy.deepcopy(n.value)
                    order = {}
                    fnames = {id(c_.func) for c_ in ast.walk(e2) if isinstance(c_, ast.Call)}
                    for y in ast.walk(e2):
                        if isinstance(y, ast.Name) and id(y) not in fnames and y.id not in f.params:
                            y.id = order.setdefault(y.id, f"v{len(order)}")
                    tags.setdefault(n.value.elts[0].value, []).append((f, " ".join(src_of(e2).split())))
    for tag, lst in tags.items():
        shapes_t = {t for _, t in lst}
        if len(shapes_t) == 1:
            r.ok(f"_storage[{tag}]", sample={"tag": tag, "key": lst[0][1], "sites": [f.qualname for f, _ in lst]})
        else:
            f0 = lst[0][0]
            r.bad(Finding("cache-key-siblings", f"_storage[{tag}]", f"the tag {tag!r} is used with different key shapes {sorted(shapes_t)}", where=f"{f0.module.relpath}:{f0.lineno}", operand=tag))
    return r


def rule_perm_tracking(ctx):
    r = RuleResult(
        "perm-tracking",
        "CircuitPermMPS.qubits maps physical position -> logical qubit: it is written only by __init__, copy and "
        "_apply_gate, and every index used to subscript / pop / insert into it is a physical position (obtained "
        "from self.qubits.index(...), sorted(...) of such, or an enumerate index) — never a logical label taken "
        "straight from gate.qubits or a `qubits` argument",
    )
    m = ctx.prog.module("quimb.tensor.circuit.mps")
    cls = m.classes.get("CircuitPermMPS")
    if cls is None:
        raise AnalysisError("CircuitPermMPS not found")
    writers_ok = {"__init__", "copy", "_apply_gate"}
    n = 0
    for name, f in cls.methods.items():
        if f.cls is not cls or f.is_alias or isinstance(f.node, ast.Lambda):
            continue
        where = f"{f.module.relpath}:{f.lineno}"
        q = f"CircuitPermMPS.{name}"
        # classify locals, line-sensitively: name -> [(line, kind)] with kind in {"phys", "logical", None}
        binds = {}

        def kind_at(nm, line):
            prev = [k for ln, k in binds.get(nm, []) if ln < line]
            if prev:
                return prev[-1]
            if nm in ("qubits", "where") and nm in f.params:
                return "logical"
            return None

        events = []
        for x in ast.walk(f.node):
            if isinstance(x, ast.Assign):
                events += [(x.lineno, t, x.value) for t in x.targets]
            elif isinstance(x, ast.For):
                events.append((x.lineno, x.target, x.iter))
            elif isinstance(x, ast.comprehension):
                events.append((x.iter.lineno, x.target, x.iter))
        for line, t, v in sorted(events, key=lambda e: e[0]):
            names = [e.id for e in ast.walk(t) if isinstance(e, ast.Name)]
            vs = src_of(v).replace(" ", "")
            vnames = {e.id for e in ast.walk(v) if isinstance(e, ast.Name)}
            if "enumerate(self.qubits)" in vs and len(names) == 2:
                binds.setdefault(names[0], []).append((line, "phys"))
                binds.setdefault(names[1], []).append((line, "logical"))
                continue
            kinds = {kind_at(nm, line + 1 if nm in names else line) for nm in vnames} - {None}
            if "self.qubits.index" in vs:
                k = "phys"
            elif "gate.qubits" in vs or (".qubits" in vs and "self.qubits" not in vs):
                k = "logical"
            elif "self.qubits[" in vs:
                k = "logical"  # reading the list yields logical labels
            elif kinds == {"phys"}:
                k = "phys"
            elif "logical" in kinds:
                k = "logical"
            else:
                k = None
            for nm in names:
                binds.setdefault(nm, []).append((line, k))
        phys = logical = None
        for x in ast.walk(f.node):
            idx = None
            kind = None
            if isinstance(x, ast.Subscript) and src_of(x.value) == "self.qubits":
                idx, kind = x.slice, "store" if isinstance(x.ctx, (ast.Store, ast.Del)) else "load"
            elif isinstance(x, ast.Call) and isinstance(x.func, ast.Attribute) and src_of(x.func.value) == "self.qubits" and x.func.attr in ("pop", "insert") and x.args:
                idx, kind = x.args[0], x.func.attr
            elif isinstance(x, (ast.Assign, ast.AugAssign)) and any(src_of(t) == "self.qubits" for t in (x.targets if isinstance(x, ast.Assign) else [x.target])):
                kind = "rebind"
            if kind is None:
                continue
            n += 1
            if kind in ("store", "pop", "insert", "rebind") and name not in writers_ok:
                r.bad(Finding("perm-tracking", q, f"writes self.qubits (line {x.lineno}); only {sorted(writers_ok)} may", where=where, operand="writer"))
                continue
            if idx is None:
                r.ok(f"{q}[{kind}]", nontrivial=False)
                continue
            inames = {e.id for e in ast.walk(idx) if isinstance(e, ast.Name)}
            ikinds = {kind_at(nm, x.lineno) for nm in inames}
            if "logical" in ikinds and "phys" not in ikinds:
                r.bad(Finding(
                    "perm-tracking", q,
                    f"indexes self.qubits with `{src_of(idx)}` (line {x.lineno}), a logical qubit label (from gate.qubits / a qubits argument), where a physical "
                    f"position (self.qubits.index(q)) is required: wrong as soon as the tracked permutation is non-trivial",
                    where=where, operand=f"{kind}:{src_of(idx)}"))
            else:
                r.ok(f"{q}[{kind} {src_of(idx)}]", sample={"method": q, "access": f"{kind} self.qubits[{src_of(idx)}]", "index kind": "physical" if "phys" in ikinds else "neutral"})
    r.floor(n, 3, "accesses of self.qubits by position")
    return r


def rule_ctor_binding(ctx):
    r = RuleResult(
        "ctor-binding",
        "the constructors of the circuit classes hand their options to the base constructor under the right name: a positional "
        "argument that is a plain name lands in the base parameter of the same name whenever the base has one — a name that binds to a "
        "*different* parameter while the base also has a parameter of that name is an option delivered to the wrong slot (and its own "
        "slot silently keeps the default)",
    )
    n = 0
    for modname in ("quimb.tensor.circuit.core", "quimb.tensor.circuit.exact", "quimb.tensor.circuit.mps", "quimb.tensor.circuit.peps", "quimb.tensor.circuit.pepo"):
        m = ctx.prog.modules.get(modname)
        if m is None:
            continue
        for c in m.classes.values():
            f = c.methods.get("__init__")
            if f is None or f.cls is not c:
                continue
            for call in ast.walk(f.node):
                if not (isinstance(call, ast.Call) and isinstance(call.func, ast.Attribute) and call.func.attr == "__init__"
                        and isinstance(call.func.value, ast.Call) and isinstance(call.func.value.func, ast.Name) and call.func.value.func.id == "super"):
                    continue
                base = None
                for k in c.mro[1:]:
                    g = k.methods.get("__init__")
                    if g is not None and g.cls is k:
                        base = g
                        break
                if base is None:
                    continue
                n += 1
                pos = [p for p in base.posparams if p != "self"]
                allp = set(base.params)
                bad = []
                for i, a in enumerate(call.args):
                    if isinstance(a, ast.Starred) or i >= len(pos):
                        break
                    if isinstance(a, ast.Name) and a.id != pos[i] and a.id in allp:
                        bad.append((a.id, pos[i]))
                q = f"{c.name}.__init__"
                if bad:
                    for x, slot in bad:
                        r.bad(Finding("ctor-binding", q, f"`{src_of(call)[:70]}` passes `{x}` positionally into the base parameter `{slot}`; {base.qualname} also has a parameter "
                                                         f"`{x}`, which keeps its default: the caller's `{x}` never takes effect",
                                      where=f"{f.module.relpath}:{call.lineno}", operand=f"{x}->{slot}"))
                else:
                    r.ok(q, sample={"class": c.name, "base": base.qualname, "positional": [src_of(a)[:20] for a in call.args]})
    r.floor(n, 3, "super().__init__ calls in the circuit classes")
    return r
