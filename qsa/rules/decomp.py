"""C05: decomposition option tables, sibling agreement, option discipline."""

import ast

from ..framework import RuleResult, Finding
from ..consteval import ConstEnv, UNKNOWN
from ..model import dotted, src_of, const_value
from .. import AnalysisError

DECOMP = "quimb.tensor.decomp"
TRANSPOSE_COMPONENT = {None: None, "U": "VH", "Us": "sVH", "Usq": "sqVH", "VH": "U", "sVH": "Us", "sqVH": "Usq", "s": "s"}
LEFTS = {"U", "Us", "Usq"}
RIGHTS = {"VH", "sVH", "sqVH"}


def spelled_triple(name):
    """('U','s','VH') etc from the constant's own name get_<...>."""
    parts = name[len("get_"):].split("_")
    left = next((p for p in parts if p in LEFTS), None)
    right = next((p for p in parts if p in RIGHTS), None)
    mid = "s" if "s" in parts else None
    return left, mid, right


def _absorb_codes(env):
    codes = {}
    for k, v in env.env.items():
        if k.startswith("get_") and (v is None or isinstance(v, int)) and v is not UNKNOWN:
            codes[k] = v
    return codes


def _classify_component(expr, sqrt_vars):
    """Return component spelling of one returned expression."""
    if isinstance(expr, ast.Constant) and expr.value is None:
        return None
    if isinstance(expr, ast.Name):
        return {"U": "U", "s": "s", "VH": "VH"}.get(expr.id, "?" + expr.id)
    if isinstance(expr, ast.Call):
        fn = dotted(expr.func) or ""
        base = fn.replace("_numba", "")
        if base in ("rdmul", "ldmul") and len(expr.args) == 2:
            a, b = expr.args
            if base == "rdmul" and isinstance(a, ast.Name) and a.id == "U" and isinstance(b, ast.Name):
                return "Us" if b.id == "s" else ("Usq" if b.id in sqrt_vars else "?")
            if base == "ldmul" and isinstance(b, ast.Name) and b.id == "VH" and isinstance(a, ast.Name):
                return "sVH" if a.id == "s" else ("sqVH" if a.id in sqrt_vars else "?")
    return "?" + src_of(expr)[:30]


def _absorb_dispatch(fnode, param="absorb"):
    """Decision table of _do_absorb-like functions: code-name -> triple."""
    table = {}
    fallthrough = None
    for st in fnode.body:
        if isinstance(st, ast.If):
            t = st.test
            key = None
            if isinstance(t, ast.Compare) and isinstance(t.left, ast.Name) and t.left.id == param and len(t.ops) == 1:
                if isinstance(t.ops[0], ast.Is) and const_value(t.comparators[0], "x") is None:
                    key = "get_U_s_VH"
                elif isinstance(t.ops[0], ast.Eq) and isinstance(t.comparators[0], ast.Name):
                    key = t.comparators[0].id
            if key is None:
                continue
            sqrt_vars = set()
            ret = None
            for s in st.body:
                if isinstance(s, ast.Assign) and isinstance(s.value, ast.Call) and (dotted(s.value.func) or "").endswith("sqrt"):
                    if s.value.args and isinstance(s.value.args[0], ast.Name) and s.value.args[0].id == "s":
                        sqrt_vars.add(s.targets[0].id)
                if isinstance(s, ast.Return) and isinstance(s.value, ast.Tuple) and len(s.value.elts) == 3:
                    ret = tuple(_classify_component(e, sqrt_vars) for e in s.value.elts)
            table[key] = ret
        elif isinstance(st, ast.Raise):
            fallthrough = "raise"
        elif isinstance(st, ast.Return):
            fallthrough = "return"
    return table, fallthrough


def rule_absorb_tables(ctx):
    r = RuleResult(
        "absorb-tables",
        "the absorb vocabulary is consistent everywhere it is decoded: for each code the triple returned by "
        "_do_absorb and by _do_absorb_numba is the one spelled by the code's own name; both handle the full "
        "code set; _ABSORB_TRANSPOSE_MAP is a total involution that mirrors the triple; _RETURNS_LEFT/"
        "RIGHT_ABSORBS and parse_split_left_right_isom select exactly the codes with a (bare) left/right factor",
    )
    m = ctx.prog.module(DECOMP)
    env = ConstEnv(m)
    codes = _absorb_codes(env)
    r.floor(len(codes), 11, "absorb codes (get_* constants)")
    if len(set(codes.values())) != len(codes):
        r.bad(Finding("absorb-tables", "decomp:get_*", "two absorb codes share one numeric value", where=m.relpath))
    amap = env.get("_ABSORB_MAP")
    if not isinstance(amap, dict) or len(amap) < 20:
        raise AnalysisError("_ABSORB_MAP could not be evaluated statically")
    if set(amap.values()) == set(codes.values()):
        r.ok("_ABSORB_MAP", sample={"aliases": len(amap), "codes": len(codes)})
    else:
        r.bad(Finding("absorb-tables", "decomp:_ABSORB_MAP", "alias map does not cover exactly the code set", where=m.relpath))
    # documented string aliases must decode to the code whose name they spell
    alias_expect = {
        "left": "get_Us_VH", "right": "get_U_sVH", "both": "get_Usq_sqVH", "U,s,VH": "get_U_s_VH",
        "Us,VH": "get_Us_VH", "U,sVH": "get_U_sVH", "Usq,sqVH": "get_Usq_sqVH", "lorthog": "get_U",
        "rorthog": "get_VH", "lfactor": "get_Us", "rfactor": "get_sVH", "U": "get_U", "VH": "get_VH",
        "Us": "get_Us", "sVH": "get_sVH", "s": "get_s", "lsqrt": "get_Usq", "rsqrt": "get_sqVH", "sqVH": "get_sqVH",
    }
    for alias, cname in alias_expect.items():
        if alias not in amap:
            r.skip(f"alias {alias}", "alias no longer present")
            continue
        if amap[alias] == codes.get(cname, "missing"):
            r.ok(f"_ABSORB_MAP[{alias!r}]")
        else:
            r.bad(Finding("absorb-tables", "decomp:_ABSORB_MAP",
                          f"alias {alias!r} decodes to {amap[alias]!r}, expected {cname}", where=m.relpath, operand=alias))
    by_value = {v: k for k, v in codes.items()}
    # dispatch tables
    for fname in ("_do_absorb", "_do_absorb_numba"):
        f = ctx.prog.func(DECOMP, fname)
        table, fall = _absorb_dispatch(f.node)
        for cname in codes:
            want = spelled_triple(cname)
            got = table.get(cname)
            construct = f"{fname}[{cname}]"
            if got is None:
                r.bad(Finding("absorb-tables", fname, f"absorb code {cname} is not handled", where=f"{m.relpath}:{f.lineno}", operand=cname))
            elif tuple(got) != want:
                r.bad(Finding("absorb-tables", fname, f"absorb code {cname} returns {got}, its name spells {want}",
                              where=f"{m.relpath}:{f.lineno}", operand=cname))
            else:
                r.ok(construct, sample={"function": fname, "code": cname, "returns": list(got)})
        extra = set(table) - set(codes)
        if extra:
            r.bad(Finding("absorb-tables", fname, f"dispatches on unknown codes {sorted(extra)}", where=f"{m.relpath}:{f.lineno}"))
    g = ctx.prog.func(DECOMP, "_do_absorb")
    if _absorb_dispatch(g.node)[1] == "raise":
        r.ok("_do_absorb[else]")
    else:
        r.bad(Finding("absorb-tables", "_do_absorb", "an unknown absorb code is not rejected", where=f"{m.relpath}:{g.lineno}", operand="else"))
    # every inline implementation of the absorb table in decomp.py (the drivers that take shortcuts per mode):
    # whatever the local names, a returned triple must be None exactly where the code's name says nothing is returned
    n_inline = 0
    n_weight = 0
    WEIGHT = {None: None, "U": "none", "VH": "none", "Us": "s", "sVH": "s", "Usq": "sq", "sqVH": "sq"}
    for g2 in m.all_functions:
        if isinstance(g2.node, ast.Lambda) or "absorb" not in g2.params or g2.name in ("_do_absorb", "_do_absorb_numba"):
            continue
        # the function's own names for (U, s, VH): what its `absorb is None` arm returns; square roots of its s
        local_usv = None
        for node in ast.walk(g2.node):
            if isinstance(node, ast.If) and isinstance(node.test, ast.Compare) and src_of(node.test.left) == "absorb" and isinstance(node.test.ops[0], ast.Is) \
                    and const_value(node.test.comparators[0], "x") is None:
                for s_ in node.body:
                    if isinstance(s_, ast.Return) and isinstance(s_.value, ast.Tuple) and len(s_.value.elts) == 3 and all(isinstance(e_, ast.Name) for e_ in s_.value.elts):
                        local_usv = tuple(e_.id for e_ in s_.value.elts)
        sqrt_vars = set()
        if local_usv:
            for a_ in ast.walk(g2.node):
                if isinstance(a_, ast.Assign) and len(a_.targets) == 1 and isinstance(a_.targets[0], ast.Name) and isinstance(a_.value, ast.Call) \
                        and ((dotted(a_.value.func) or "").endswith("sqrt") or (a_.value.args and const_value(a_.value.args[0], None) == "sqrt")) \
                        and any(isinstance(y, ast.Name) and y.id == local_usv[1] for y in ast.walk(a_.value)):
                    sqrt_vars.add(a_.targets[0].id)

        # what the function's own U / s / VH are computed from (one level): an arm may spell `s` as its defining expression (np.sqrt(s2))
        # and the bare factors through the arrays they are made of (dag_numba(V))
        usv_defs = {nm: [a_.value for a_ in ast.walk(g2.node) if isinstance(a_, ast.Assign) and len(a_.targets) == 1 and isinstance(a_.targets[0], ast.Name) and a_.targets[0].id == nm]
                    for nm in (local_usv or ())}
        s_def_dumps = {ast.dump(d_) for d_ in usv_defs.get(local_usv[1], [])} if local_usv else set()
        # an array is a *bare* source of U / VH only when the factor is a pure conjugation / transposition / copy of it (VH = dag_numba(V));
        # products such as Us = x @ V are not
        PURE = {"dag", "dag_numba", "conj", "conjugate", "ascontiguousarray", "transpose", "swapaxes"}
        source_names = set()
        for nm in ((local_usv[0], local_usv[2]) if local_usv else ()):
            for d_ in usv_defs.get(nm, []):
                if isinstance(d_, ast.Call) and (dotted(d_.func) or "").split(".")[-1] in PURE and d_.args and isinstance(d_.args[0], ast.Name):
                    source_names.add(d_.args[0].id)
        s_sources = {y.id for d_ in usv_defs.get(local_usv[1], []) for y in ast.walk(d_) if isinstance(y, ast.Name)} if local_usv else set()

        def weight(expr):
            if isinstance(expr, ast.Constant) and expr.value is None:
                return None
            fnames = {id(c_.func) for c_ in ast.walk(expr) if isinstance(c_, ast.Call)} | {id(a_.value) for a_ in ast.walk(expr) if isinstance(a_, ast.Attribute)}
            names = {y.id for y in ast.walk(expr) if isinstance(y, ast.Name) and id(y) not in fnames}
            fn_like = {y.id for y in ast.walk(expr) if isinstance(y, ast.Name) and y.id in ("np", "xp")}
            if names - sqrt_vars - set(local_usv) - source_names - s_sources - fn_like:
                return "?"  # built from something else (a precomputed product, another spectrum): not judged

            def is_s(e_):
                return (isinstance(e_, ast.Name) and e_.id == local_usv[1]) or ast.dump(e_) in s_def_dumps

            def is_sqrt_call(e_):
                return isinstance(e_, ast.Call) and ((dotted(e_.func) or "").endswith("sqrt") or (e_.args and const_value(e_.args[0], None) == "sqrt"))

            has_sq = any((isinstance(y, ast.Name) and y.id in sqrt_vars) or (is_sqrt_call(y) and any(is_s(z) for a_ in y.args for z in ast.walk(a_))) for y in ast.walk(expr))
            if has_sq:
                return "sq"
            if any(is_s(y) for y in ast.walk(expr)):
                return "s"
            if names & s_sources:
                return "?"   # the spectrum's own sources (s2) in a form that is not the definition of s: a weight of unknown power
            if names & ({local_usv[0], local_usv[2]} | source_names):
                return "none"
            return "?"

        for node in ast.walk(g2.node):
            if isinstance(node, ast.If) and isinstance(node.test, ast.Compare) and src_of(node.test.left) == "absorb" and len(node.test.ops) == 1:
                cname = None
                if isinstance(node.test.ops[0], ast.Is) and const_value(node.test.comparators[0], "x") is None:
                    cname = "get_U_s_VH"
                elif isinstance(node.test.ops[0], ast.Eq) and isinstance(node.test.comparators[0], ast.Name) and node.test.comparators[0].id in codes:
                    cname = node.test.comparators[0].id
                if cname is None:
                    continue
                for s_ in node.body:
                    if isinstance(s_, ast.Return) and isinstance(s_.value, ast.Tuple) and len(s_.value.elts) == 3:
                        n_inline += 1
                        got = tuple(const_value(e_, "x") is None and isinstance(e_, ast.Constant) for e_ in s_.value.elts)
                        want = tuple(x_ is None for x_ in spelled_triple(cname))
                        if got == want and local_usv and cname != "get_U_s_VH":
                            # which factor carries the singular values (or their square root)
                            sp = spelled_triple(cname)
                            for slot, comp in ((0, sp[0]), (2, sp[2])):
                                w = weight(s_.value.elts[slot])
                                if w in (None, "?"):
                                    continue
                                n_weight += 1
                                if w != WEIGHT.get(comp, "?"):
                                    r.bad(Finding("absorb-tables", g2.qualname,
                                                  f"for absorb == {cname} returns `{src_of(s_.value)[:70]}` (line {s_.lineno}): the {'left' if slot == 0 else 'right'} factor carries "
                                                  f"{ {'none': 'no singular values', 's': 'the singular values', 'sq': 'their square root'}[w] } but the code spells `{comp}`",
                                                  where=f"{m.relpath}:{s_.lineno}", operand=f"{cname}:weight"))
                        if got == want:
                            r.ok(f"{g2.qualname}[{cname}]", nontrivial=False)
                        else:
                            r.bad(Finding("absorb-tables", g2.qualname,
                                          f"for absorb == {cname} returns `{src_of(s_.value)[:60]}` (line {s_.lineno}): None-pattern {got} differs from {want} spelled by the code",
                                          where=f"{m.relpath}:{s_.lineno}", operand=f"{cname}:none-pattern"))
    r.floor(n_inline, 40, "inline absorb returns in split drivers")
    r.floor(n_weight, 12, "inline absorb returns whose singular-value placement was decided")
    # transpose map
    tmap = env.get("_ABSORB_TRANSPOSE_MAP")
    if not isinstance(tmap, dict):
        raise AnalysisError("_ABSORB_TRANSPOSE_MAP could not be evaluated")
    for cname, code in codes.items():
        l_, m_, r_ = spelled_triple(cname)
        want = (TRANSPOSE_COMPONENT[r_], m_, TRANSPOSE_COMPONENT[l_])
        if code not in tmap:
            r.bad(Finding("absorb-tables", "decomp:_ABSORB_TRANSPOSE_MAP", f"{cname} has no transpose entry", where=m.relpath, operand=cname))
            continue
        tname = by_value.get(tmap[code])
        if tname is None or spelled_triple(tname) != want or tmap.get(tmap[code], "x") != code:
            r.bad(Finding("absorb-tables", "decomp:_ABSORB_TRANSPOSE_MAP",
                          f"transpose of {cname} is {tname}, expected the code spelling {want} (and an involution)",
                          where=m.relpath, operand=cname))
        else:
            r.ok(f"_ABSORB_TRANSPOSE_MAP[{cname}]", sample={"code": cname, "transpose": tname})
    # returns-left / returns-right
    for setname, idx in (("_RETURNS_LEFT_ABSORBS", 0), ("_RETURNS_RIGHT_ABSORBS", 2)):
        sv = env.get(setname)
        want = {code for cname, code in codes.items() if spelled_triple(cname)[idx] is not None}
        if sv is UNKNOWN:
            raise AnalysisError(f"{setname} could not be evaluated")
        if set(sv) == want:
            r.ok(setname, sample={setname: sorted(by_value[c] for c in want)})
        else:
            r.bad(Finding("absorb-tables", f"decomp:{setname}",
                          f"is {sorted(by_value.get(c, c) for c in sv)}, expected {sorted(by_value[c] for c in want)}", where=m.relpath))
    # parse_split_left_right_isom
    f = ctx.prog.func(DECOMP, "parse_split_left_right_isom")
    # the function returns (left flag, right flag); each is `absorb in (<codes>)` (directly or through a local)
    ret = next((x.value for x in ast.walk(f.node) if isinstance(x, ast.Return) and isinstance(x.value, ast.Tuple) and len(x.value.elts) == 2), None)
    if ret is None:
        raise AnalysisError("parse_split_left_right_isom: does not return a pair of flags")
    ldefs = {a.targets[0].id: a.value for a in ast.walk(f.node) if isinstance(a, ast.Assign) and len(a.targets) == 1 and isinstance(a.targets[0], ast.Name)}
    for var, pos, idx, bare in (("left_isom", 0, 0, "U"), ("right_isom", 1, 2, "VH")):
        e = ret.elts[pos]
        if isinstance(e, ast.Name) and e.id in ldefs:
            e = ldefs[e.id]
        tup = None
        if isinstance(e, ast.Compare) and isinstance(e.ops[0], ast.In) and isinstance(e.comparators[0], (ast.Tuple, ast.List, ast.Set)):
            tup = {x.id for x in e.comparators[0].elts if isinstance(x, ast.Name)}
        want = {cname for cname in codes if spelled_triple(cname)[idx] == bare}
        if tup is None:
            raise AnalysisError(f"parse_split_left_right_isom: flag {pos} is not `absorb in (...)`")
        if tup == want:
            r.ok(f"parse_split_left_right_isom[{var}]", sample={var: sorted(want)})
        else:
            r.bad(Finding("absorb-tables", "parse_split_left_right_isom",
                          f"{var} holds for {sorted(tup)}, but the bare {bare} factor is returned exactly for {sorted(want)}",
                          where=f"{m.relpath}:{f.lineno}", operand=var))
    # defaults per method must be valid codes
    dflt = env.get("_DEFAULT_ABSORB")
    if isinstance(dflt, dict):
        for meth, code in dflt.items():
            if code in set(codes.values()):
                r.ok(f"_DEFAULT_ABSORB[{meth}]")
            else:
                r.bad(Finding("absorb-tables", "decomp:_DEFAULT_ABSORB", f"default absorb of {meth} is not a known code", where=m.relpath, operand=str(meth)))
    return r


# ------------------------------------------------------------ cutoff tables
def _mode_tests(fnode, param="cutoff_mode"):
    """All cutoff_mode codes tested (== X / in (...)) and the code sets used
    for the power-2 and relative branches."""
    handled = set()
    pow2 = rel = None
    for n in ast.walk(fnode):
        if isinstance(n, ast.Compare) and isinstance(n.left, ast.Name) and n.left.id == param and len(n.ops) == 1:
            if isinstance(n.ops[0], ast.Eq) and isinstance(n.comparators[0], ast.Name):
                handled.add(n.comparators[0].id)
            elif isinstance(n.ops[0], ast.In) and isinstance(n.comparators[0], (ast.Tuple, ast.List, ast.Set)):
                handled |= {e.id for e in n.comparators[0].elts if isinstance(e, ast.Name)}
        if isinstance(n, ast.If) and isinstance(n.test, ast.Compare) and isinstance(n.test.left, ast.Name) and n.test.left.id == param and isinstance(n.test.ops[0], ast.In):
            names = frozenset(e.id for e in n.test.comparators[0].elts if isinstance(e, ast.Name))

            def const_assigns(stmts, value):
                """locals assigned the literal `value` (top level of the arm)"""
                return {a.targets[0].id for a in stmts if isinstance(a, ast.Assign) and len(a.targets) == 1 and isinstance(a.targets[0], ast.Name)
                        and isinstance(a.value, ast.Constant) and a.value.value == value and not isinstance(a.value.value, bool)}

            # the local used as an exponent somewhere in the function
            exps = {y.id for b in ast.walk(fnode) if isinstance(b, ast.BinOp) and isinstance(b.op, ast.Pow) for y in ast.walk(b.right) if isinstance(y, ast.Name)}
            two = const_assigns(n.body, 2) & exps
            if two:
                pow2 = names
                if not (const_assigns(n.orelse, 1) & two) and (const_assigns(n.orelse, 2) & two):
                    pow2 = frozenset(names | {"<else branch also uses power 2>"})
            # relative target: the arm multiplies something with the cutoff (or a local set from it); the other arm does not
            cut_locals = {"cutoff"} | {a.targets[0].id for a in ast.walk(fnode) if isinstance(a, ast.Assign) and len(a.targets) == 1 and isinstance(a.targets[0], ast.Name)
                                       and isinstance(a.value, ast.Name) and a.value.id == "cutoff"}

            def multiplies_cutoff(stmts):
                for st_ in stmts:
                    for x in ast.walk(st_):
                        if isinstance(x, ast.BinOp) and isinstance(x.op, ast.Mult) and any(isinstance(y, ast.Name) and y.id in cut_locals for y in ast.walk(x)):
                            return True
                        if isinstance(x, ast.AugAssign) and isinstance(x.op, ast.Mult) and isinstance(x.target, ast.Name) and x.target.id in cut_locals:
                            return True
                return False

            if multiplies_cutoff(n.body) and not multiplies_cutoff(n.orelse):
                rel = names
    return handled, pow2, rel


def rule_cutoff_tables(ctx):
    r = RuleResult(
        "cutoff-tables",
        "the generic and the numba truncation handle the same six cutoff modes, use power 2 exactly for the "
        "*2 modes and a relative target exactly for the r* modes, and agree with _RENORM_LOOKUP",
    )
    m = ctx.prog.module(DECOMP)
    env = ConstEnv(m)
    modes = {k: v for k, v in env.env.items() if k.startswith("cutoff_mode_") and isinstance(v, int)}
    r.floor(len(modes), 6, "cutoff modes")
    want_pow2 = frozenset(k for k in modes if k.endswith("2"))
    want_rel = frozenset(k for k in modes if k.split("_")[-1].startswith("rsum"))
    for fname in ("_trim_and_renorm_svd_result", "_compute_number_svals_to_keep_numba"):
        f = ctx.prog.func(DECOMP, fname)
        handled, pow2, rel = _mode_tests(f.node)
        where = f"{m.relpath}:{f.lineno}"
        if handled == set(modes):
            r.ok(f"{fname}[modes]", sample={"function": fname, "modes": sorted(handled)})
        else:
            r.bad(Finding("cutoff-tables", fname, f"handles {sorted(handled)}, expected {sorted(modes)}", where=where, operand="modes"))
        if pow2 == want_pow2:
            r.ok(f"{fname}[pow2]")
        else:
            r.bad(Finding("cutoff-tables", fname, f"power 2 is used for {sorted(pow2 or [])}, expected {sorted(want_pow2)}", where=where, operand="pow2"))
        if rel == want_rel:
            r.ok(f"{fname}[relative]")
        else:
            r.bad(Finding("cutoff-tables", fname, f"relative target is used for {sorted(rel or [])}, expected {sorted(want_rel)}", where=where, operand="relative"))
    rl = env.get("_RENORM_LOOKUP")
    want = {modes[k]: (2 if k.endswith("2") else 1) for k in modes if "sum" in k}
    if rl == want:
        r.ok("_RENORM_LOOKUP", sample={"_RENORM_LOOKUP": {str(k): v for k, v in want.items()}})
    else:
        r.bad(Finding("cutoff-tables", "decomp:_RENORM_LOOKUP", f"is {rl}, expected {want}", where=m.relpath))
    cm = env.get("_CUTOFF_MODE_MAP")
    if isinstance(cm, dict) and all(cm.get(k[len("cutoff_mode_"):]) == v for k, v in modes.items()):
        r.ok("_CUTOFF_MODE_MAP")
    else:
        r.bad(Finding("cutoff-tables", "decomp:_CUTOFF_MODE_MAP", "string aliases do not decode to their own mode", where=m.relpath))
    # abs / rel comparisons: both implementations keep values strictly above the threshold
    for fname in ("_trim_and_renorm_svd_result", "_compute_number_svals_to_keep_numba"):
        f = ctx.prog.func(DECOMP, fname)
        # structural: every comparison of a (scaled) cutoff with singular values keeps values STRICTLY above it
        comps = []
        for c in ast.walk(f.node):
            if isinstance(c, ast.Compare) and len(c.ops) == 1:
                l, rr = c.left, c.comparators[0]
                lc = any(isinstance(x, ast.Name) and x.id == "cutoff" for x in ast.walk(l))
                rc = any(isinstance(x, ast.Name) and x.id == "cutoff" for x in ast.walk(rr))
                if lc == rc:
                    continue
                other = rr if lc else l
                if const_value(other, "x") != "x":
                    continue  # sentinel test (cutoff > 0.0), handled by guard-agree
                op = type(c.ops[0])
                if lc:  # cutoff OP values  ->  values FLIP(OP) cutoff
                    op = {ast.Lt: ast.Gt, ast.LtE: ast.GtE, ast.Gt: ast.Lt, ast.GtE: ast.LtE}.get(op, op)
                cside = l if lc else rr
                direct = isinstance(cside, ast.Name) or (
                    isinstance(cside, ast.BinOp) and isinstance(cside.op, ast.Mult)
                    and any(isinstance(x, ast.Name) and x.id == "cutoff" for x in (cside.left, cside.right)))
                if not direct:
                    continue  # cumulative-sum modes compare a running sum with a target derived from the cutoff
                scaled = isinstance(cside, ast.BinOp)
                comps.append((op, scaled, src_of(c)))
        strict = [c for c in comps if c[0] is ast.Gt]
        loose = [c for c in comps if c[0] is not ast.Gt]
        if strict and not loose and any(c[1] for c in strict) and any(not c[1] for c in strict):
            r.ok(f"{fname}[threshold]", sample={"function": fname, "comparisons": [c[2] for c in strict]})
        else:
            r.bad(Finding("cutoff-tables", fname,
                          f"abs/rel modes do not keep values strictly above the threshold (comparisons with the cutoff: {[c[2] for c in comps]})",
                          where=f"{m.relpath}:{f.lineno}", operand="threshold"))
    return r


# --------------------------------------------------------------- guard-agree
def _sentinel_tests(fnode, param):
    """Comparisons of ``param`` against a numeric constant: set of
    normalised predicates such as '> 0', '!= -1', '< 0'."""
    out = []
    for n in ast.walk(fnode):
        if isinstance(n, ast.Compare):
            # a OP b  (and chained 0 < p < x)
            operands = [n.left] + list(n.comparators)
            for i, op in enumerate(n.ops):
                a, b = operands[i], operands[i + 1]
                ca, cb = const_value(a, "x"), const_value(b, "x")
                opn = {ast.Gt: ">", ast.Lt: "<", ast.GtE: ">=", ast.LtE: "<=", ast.Eq: "==", ast.NotEq: "!="}.get(type(op))
                if opn is None:
                    continue
                if isinstance(a, ast.Name) and a.id == param and isinstance(cb, (int, float)) and not isinstance(cb, bool):
                    out.append((f"{opn} {cb}", n.lineno))
                elif isinstance(b, ast.Name) and b.id == param and isinstance(ca, (int, float)) and not isinstance(ca, bool):
                    flip = {">": "<", "<": ">", ">=": "<=", "<=": ">=", "==": "==", "!=": "!="}[opn]
                    out.append((f"{flip} {ca}", n.lineno))
    return out


TRUNCATING = {"> 0", ">= 1", "> 0.0"}        # "a cap / cutoff is requested"
NOT_TRUNCATING = {"<= 0", "< 1", "<= 0.0"}

# sites that compare against another sentinel but *reject* (raise) rather
# than truncate: loud, hence not a silent disagreement
GUARD_EXEMPT = {
    ("lu_truncated", "max_bond", "!= -1"): "raises NotImplementedError for any explicit max_bond (loud rejection)",
}


def rule_guard_agree(ctx):
    r = RuleResult(
        "guard-agree",
        "every sentinel test of `max_bond` / `cutoff` in quimb/tensor/decomp.py uses the convention fixed by "
        "parse_split_opts (`> 0` means a cap/cutoff is requested; -1, None->-1 and 0 mean none): a sibling "
        "that tests `!= -1` or `< 0` instead treats max_bond=0 as a cap of zero kept values",
    )
    m = ctx.prog.module(DECOMP)
    f0 = ctx.prog.func(DECOMP, "parse_split_opts")
    ref = {p for p, _ in _sentinel_tests(f0.node, "max_bond")} | {p for p, _ in _sentinel_tests(f0.node, "cutoff")}
    if not ({"> 0"} <= ref and "> 0.0" in ref):
        raise AnalysisError(f"parse_split_opts no longer defines the `> 0` truncation convention (found {sorted(ref)})")
    n = 0
    for f in m.all_functions:
        if f.is_alias or isinstance(f.node, ast.Lambda) or f.parent is not None:
            continue
        for param in ("max_bond", "cutoff"):
            if param not in f.params:
                continue
            for pred, line in _sentinel_tests(f.node, param):
                n += 1
                construct = f.qualname
                if pred in TRUNCATING or pred in NOT_TRUNCATING:
                    r.ok(f"{construct}[{param} {pred}]", sample={"function": construct, "test": f"{param} {pred}"})
                elif (f.qualname, param, pred) in GUARD_EXEMPT:
                    r.exempt(f"{construct}[{param} {pred}]", GUARD_EXEMPT[(f.qualname, param, pred)])
                elif param == "cutoff" and pred in ("!= 0.0", "== 0.0", "!= 0", "== 0"):
                    # cutoff == 0.0 is 'no dynamic truncation' in both conventions for non-negative cutoffs
                    r.ok(f"{construct}[{param} {pred}]", nontrivial=False)
                else:
                    r.bad(Finding(
                        "guard-agree", construct,
                        f"tests `{param} {pred}` (line {line}) where the module convention is `{param} > 0`: "
                        f"{param}=0 (and other non-positive values) is treated as a request to truncate",
                        where=f"{m.relpath}:{f.lineno}", operand=f"{param} {pred}",
                    ))
    r.floor(n, 12, "sentinel tests on max_bond / cutoff")
    return r


# ------------------------------------------------------------ use-or-reject
SPLIT_OPTIONS = ("absorb", "max_bond", "cutoff", "cutoff_mode", "renorm", "info")


def _registered_drivers(ctx):
    """Functions registered with @register_split_driver(...) and backend
    registrations  @X.register("numpy")  in decomp.py."""
    m = ctx.prog.module(DECOMP)
    out = []
    for f in m.all_functions:
        if f.parent is not None or isinstance(f.node, ast.Lambda) or f.is_alias:
            continue
        for d in f.node.decorator_list:
            if isinstance(d, ast.Call):
                name = dotted(d.func) or ""
                if name == "register_split_driver" or name.endswith(".register"):
                    out.append((f, name, const_value(d.args[0], None) if d.args else None))
    return out


def rule_use_or_reject(ctx):
    r = RuleResult(
        "use-or-reject",
        "parse_split_opts injects an option iff the driver's signature accepts it, so every registered split "
        "driver / backend registration must read each of absorb, max_bond, cutoff, cutoff_mode, renorm, info "
        "that it accepts (forward it, branch on it, or raise on it) — an accepted-but-unread option is "
        "silently ignored",
    )
    drivers = _registered_drivers(ctx)
    r.floor(len(drivers), 25, "registered split drivers / backend registrations")
    for f, how, key in drivers:
        loads = {n.id for n in ast.walk(f.node) if isinstance(n, ast.Name) and isinstance(n.ctx, ast.Load)}
        for p in SPLIT_OPTIONS:
            if p not in f.params:
                continue
            construct = f"{f.qualname}[{p}]"
            if p in loads:
                r.ok(construct, sample={"driver": f.qualname, "registered": f"{how}({key!r})", "option": p, "status": "read"})
            else:
                r.bad(Finding("use-or-reject", f.qualname,
                              f"accepts `{p}` (so parse_split_opts will pass it) but never reads it",
                              where=f"{f.module.relpath}:{f.lineno}", operand=p))
    return r


# -------------------------------------------------------------------- clamp
def rule_clamp(ctx):
    r = RuleResult(
        "clamp",
        "kept-rank clamping: the generic truncation clamps n_chi with max(.,1) and min(., max_bond) under "
        "`max_bond > 0`; the numba counter returns max(n_chi, 1); every slice `[:max_bond]` in the truncation "
        "funnel is dominated by a test that implies max_bond > 0",
    )
    m = ctx.prog.module(DECOMP)
    f = ctx.prog.func(DECOMP, "_trim_and_renorm_svd_result")
    def _is_max_with_one(e, mention=None):
        """max(<expr>, 1) / max(1, <expr>) — the builtin with a literal 1 (structural; local names are free)."""
        if not (isinstance(e, ast.Call) and dotted(e.func) == "max" and len(e.args) == 2):
            return False
        ones = [a for a in e.args if const_value(a, None) == 1 and isinstance(a, ast.Constant)]
        others = [a for a in e.args if a not in ones]
        if len(ones) != 1 or len(others) != 1:
            return False
        return mention is None or any(isinstance(y, ast.Name) and y.id == mention for y in ast.walk(others[0]))

    lower = [a for a in ast.walk(f.node) if isinstance(a, ast.Assign) and len(a.targets) == 1 and isinstance(a.targets[0], ast.Name)
             and _is_max_with_one(a.value, a.targets[0].id)]
    if lower:
        r.ok("_trim_and_renorm_svd_result[lower clamp]", sample={"function": f.qualname, "lower clamp": src_of(lower[0])})
    else:
        r.bad(Finding("clamp", f.qualname, "the dynamically chosen rank is never clamped from below with max(., 1)", where=f"{m.relpath}:{f.lineno}", operand="lower clamp"))
    g = ctx.prog.func(DECOMP, "_compute_number_svals_to_keep_numba")
    rets = [n for n in ast.walk(g.node) if isinstance(n, ast.Return)]
    if rets and all(_is_max_with_one(x.value) for x in rets):
        r.ok("_compute_number_svals_to_keep_numba[lower clamp]")
    else:
        r.bad(Finding("clamp", g.qualname, "does not return max(n_chi, 1) on every path", where=f"{m.relpath}:{g.lineno}", operand="lower clamp"))
    # sibling agreement: both implementations count on the *full* spectrum and then apply min(., max_bond)
    for fn in ("_trim_and_renorm_svd_result", "_trim_and_renorm_svd_result_numba"):
        h = ctx.prog.func(DECOMP, fn)
        whereh = f"{m.relpath}:{h.lineno}"
        upper = False
        for guards, node in _walk_with_guards(h.node.body, []):
            if isinstance(node, ast.Assign) and isinstance(node.value, ast.Call) and dotted(node.value.func) == "min" \
                    and {src_of(a) for a in node.value.args} == {src_of(node.targets[0]), "max_bond"} and any(_implies_positive(g_, "max_bond") for g_ in guards):
                upper = True
        if upper:
            r.ok(f"{fn}[min(n, max_bond) under max_bond > 0]")
        else:
            r.bad(Finding("clamp", fn, "the dynamically chosen rank is not clamped with min(n, max_bond) under `max_bond > 0`", where=whereh, operand="upper clamp"))
        for c in ast.walk(h.node):
            if isinstance(c, ast.Call) and dotted(c.func) == "_compute_number_svals_to_keep_numba":
                a0 = c.args[0]
                if isinstance(a0, ast.Name):
                    r.ok(f"{fn}[count on full spectrum]", sample={"call": src_of(c)[:70]})
                else:
                    r.bad(Finding("clamp", fn,
                                  f"the cutoff rule is evaluated on `{src_of(a0)}` (line {c.lineno}) instead of the full spectrum: for the cumulative "
                                  f"modes the weight beyond the slice is not counted, so the kept rank is no longer the smallest satisfying the rule",
                                  where=whereh, operand="count-scope"))
    # slices by max_bond must sit under a positive guard
    n = 0
    for fn in ("_trim_and_renorm_svd_result", "_trim_and_renorm_svd_result_numba"):
        h = ctx.prog.func(DECOMP, fn)
        for guards, node in _walk_with_guards(h.node.body, []):
            if isinstance(node, ast.Subscript) and ":max_bond" in src_of(node).replace(" ", ""):
                n += 1
                positive = any(_implies_positive(g_, "max_bond") for g_ in guards)
                if positive:
                    r.ok(f"{fn}[{src_of(node)}]")
                else:
                    r.bad(Finding("clamp", fn,
                                  f"slice {src_of(node)} (line {node.lineno}) is not guarded by `max_bond > 0`: "
                                  f"max_bond=0 keeps zero values", where=f"{m.relpath}:{h.lineno}", operand="slice:max_bond"))
    return r


def _implies_positive(test, name):
    for pred, _ in _sentinel_tests(test, name):
        if pred in TRUNCATING:
            return True
    return False


def _walk_with_guards(body, guards):
    for st in body:
        if isinstance(st, ast.If):
            for x in ast.walk(st.test):
                yield guards, x
            yield from _walk_with_guards(st.body, guards + [st.test])
            # `elif` keeps only its own test (negations are not tracked)
            yield from _walk_with_guards(st.orelse, guards)
        elif isinstance(st, (ast.For, ast.While, ast.With, ast.Try)):
            for sub in [getattr(st, "body", []), getattr(st, "orelse", []), getattr(st, "finalbody", [])]:
                yield from _walk_with_guards(sub, guards)
            for h in getattr(st, "handlers", []):
                yield from _walk_with_guards(h.body, guards)
        else:
            for x in ast.walk(st):
                yield guards, x


# ----------------------------------------------------------------- split-flags
def _last_def(fnode, name, before):
    best = None
    for a in ast.walk(fnode):
        if isinstance(a, ast.Assign) and a.lineno < before:
            for t in a.targets:
                for k, el in enumerate(t.elts if isinstance(t, (ast.Tuple, ast.List)) else [t]):
                    if isinstance(el, ast.Name) and el.id == name and (best is None or a.lineno > best[0]):
                        best = (a.lineno, a, k if isinstance(t, (ast.Tuple, ast.List)) else None, len(a.targets))
    return best


def rule_split_flags(ctx):
    r = RuleResult(
        "split-flags",
        "tensor_split (decided by def-use, not by text): the two factor tensors are built from the first / last result of "
        "array_split; each is marked isometric under the corresponding (first / second) flag returned by "
        "parse_split_left_right_isom(method, absorb) and only then, with exactly the non-bond indices it was given; both "
        "factors and the singular-value tensor take their bond label(s) from the same source; every truncation option "
        "reaches array_split under its own name",
    )
    f = ctx.prog.func("quimb.tensor.tensor_core", "tensor_split")
    if f is None:
        raise AnalysisError("tensor_split not found")
    where = f"{f.module.relpath}:{f.lineno}"
    # flags
    flags = None
    for a in ast.walk(f.node):
        if isinstance(a, ast.Assign) and isinstance(a.value, ast.Call) and dotted(a.value.func) == "parse_split_left_right_isom" \
                and isinstance(a.targets[0], ast.Tuple) and len(a.targets[0].elts) == 2 and all(isinstance(e, ast.Name) for e in a.targets[0].elts):
            args = [src_of(x) for x in a.value.args] + [f"{k.arg}={src_of(k.value)}" for k in a.value.keywords]
            flags = (a.targets[0].elts[0].id, a.targets[0].elts[1].id, args)
    if flags is None:
        r.bad(Finding("split-flags", "tensor_split", "isometry flags are not obtained from parse_split_left_right_isom(method, absorb)", where=where, operand="parser"))
        return r
    lflag, rflag, pargs = flags
    if [a.split("=")[-1] for a in pargs] == ["method", "absorb"]:
        r.ok("tensor_split[parser]", sample={"flags": [lflag, rflag], "from": f"parse_split_left_right_isom({', '.join(pargs)})"})
    else:
        r.bad(Finding("split-flags", "tensor_split", f"parse_split_left_right_isom is called with ({', '.join(pargs)}) instead of (method, absorb)", where=where, operand="parser-args"))
    # results of array_split
    unpack = None
    for a in ast.walk(f.node):
        if isinstance(a, ast.Assign) and isinstance(a.value, ast.Call) and dotted(a.value.func) == "array_split" and isinstance(a.targets[0], ast.Tuple) and len(a.targets[0].elts) == 3:
            unpack = [e.id if isinstance(e, ast.Name) else None for e in a.targets[0].elts]
            split_call = a.value
    if unpack is None:
        raise AnalysisError("tensor_split: `left, s, right = array_split(...)` not found")
    role_of = {unpack[0]: ("left", lflag), unpack[2]: ("right", rflag)}
    bonds = {}
    seen = set()
    for n in ast.walk(f.node):
        if isinstance(n, ast.Call) and dotted(n.func) == "Tensor":
            kws = {k.arg: k.value for k in n.keywords if k.arg}
            data = kws.get("data", n.args[0] if n.args else None)
            if not isinstance(data, ast.Name):
                continue
            if data.id in role_of:
                role, flag = role_of[data.id]
                seen.add(role)
                inds, li = kws.get("inds"), kws.get("left_inds")
                starred = [e.value.id for e in getattr(inds, "elts", []) if isinstance(e, ast.Starred) and isinstance(e.value, ast.Name)]
                plain = [e.id for e in getattr(inds, "elts", []) if isinstance(e, ast.Name)]
                problems = []
                if len(starred) != 1 or len(plain) != 1:
                    problems.append(f"inds={src_of(inds) if inds is not None else None} is not (own indices..., bond)")
                else:
                    bonds[role] = plain[0]
                    ok_flag = (
                        isinstance(li, ast.IfExp) and isinstance(li.test, ast.Name) and li.test.id == flag
                        and isinstance(li.body, ast.Name) and li.body.id == starred[0]
                        and isinstance(li.orelse, ast.Constant) and li.orelse.value is None
                    )
                    if not ok_flag:
                        problems.append(
                            f"left_inds={src_of(li) if li is not None else None}; the {role} factor must be flagged with its own indices `{starred[0]}` exactly when `{flag}` holds")
                if problems:
                    for pr in problems:
                        r.bad(Finding("split-flags", "tensor_split", f"{role} factor: {pr}", where=f"{f.module.relpath}:{n.lineno}", operand=role))
                else:
                    r.ok(f"tensor_split[{role}]", sample={"factor": role, "data": data.id, "inds": src_of(inds), "left_inds": src_of(li)})
            elif data.id == unpack[1]:
                inds = kws.get("inds")
                bonds.setdefault("s", []).append([e.id for e in getattr(inds, "elts", []) if isinstance(e, ast.Name)])
    for role in ("left", "right"):
        if role not in seen:
            r.bad(Finding("split-flags", "tensor_split", f"construction of the {role} factor tensor not found", where=where, operand=role))
    # bond labels: both factor bonds and the singular-value tensor's labels come from one source
    if "left" in bonds and "right" in bonds:
        bl, br = bonds["left"], bonds["right"]

        def sources(name, depth=0):
            out = {name}
            if depth > 3:
                return out
            for a in ast.walk(f.node):
                if isinstance(a, ast.Assign):
                    tnames = []
                    for t in a.targets:
                        tnames += [e.id for e in (t.elts if isinstance(t, (ast.Tuple, ast.List)) else [t]) if isinstance(e, ast.Name)]
                    if name in tnames:
                        for y in ast.walk(a.value):
                            if isinstance(y, ast.Name) and y.id != name:
                                out |= sources(y.id, depth + 1)
                        out |= {t for t in tnames}
            return out
        common = sources(bl) & sources(br)
        if bl == br or "bond_ind" in common:
            r.ok("tensor_split[bond labels]", sample={"left bond": bl, "right bond": br, "common source": sorted(common)[:3]})
        else:
            r.bad(Finding("split-flags", "tensor_split", f"the factors' bond labels `{bl}` / `{br}` do not come from a common source", where=where, operand="bond"))
        for labs in bonds.get("s", []):
            if set(labs) <= (sources(bl) | sources(br)) and labs:
                r.ok(f"tensor_split[s labels {labs}]", nontrivial=False)
            else:
                r.bad(Finding("split-flags", "tensor_split", f"the singular-value tensor is labelled {labs}, not with the factors' bond labels", where=where, operand="bond-s"))
    # options delivered to array_split
    kws = {k.arg: src_of(k.value) for k in split_call.keywords if k.arg}
    for p_ in ("method", "absorb", "max_bond", "cutoff", "cutoff_mode", "renorm", "info"):
        if kws.get(p_) == p_:
            r.ok(f"tensor_split[array_split {p_}]", nontrivial=False)
        else:
            r.bad(Finding("split-flags", "tensor_split", f"option `{p_}` is not delivered to array_split", where=where, operand="deliver:" + p_))
    return r


# ---------------------------------------------------------------- cache-immut
def rule_cache_immut(ctx):
    r = RuleResult(
        "cache-immut",
        "values returned by functions memoised with functools.cache / lru_cache are shared between all callers: no "
        "caller may store into, or call a mutator on, a (component of a) result of such a function — e.g. the "
        "option dict returned by parse_split_opts — otherwise one call's data leaks into later calls",
    )
    r.need_controls(0)
    MUT = {"update", "setdefault", "pop", "popitem", "clear", "append", "extend", "insert", "remove", "add", "discard", "sort", "reverse"}
    cached = {}
    for f in ctx.prog.all_functions(nested=False):
        if f.is_alias or isinstance(f.node, ast.Lambda):
            continue
        if any(d and d.split(".")[-1] in ("cache", "lru_cache") for d in f.decorators):
            # which returned components are mutable containers built in the function?
            comps = set()
            defs = {}
            for n in ast.walk(f.node):
                if isinstance(n, ast.Assign) and len(n.targets) == 1 and isinstance(n.targets[0], ast.Name):
                    defs.setdefault(n.targets[0].id, []).append(n.value)
            def mutable(e):
                if isinstance(e, (ast.Dict, ast.List, ast.Set, ast.DictComp, ast.ListComp, ast.SetComp)):
                    return True
                if isinstance(e, ast.Call) and dotted(e.func) in ("dict", "list", "set", "collections.defaultdict", "defaultdict"):
                    return True
                if isinstance(e, ast.Name):
                    return any(mutable(d) for d in defs.get(e.id, []))
                return False
            for n in ast.walk(f.node):
                if isinstance(n, ast.Return) and n.value is not None:
                    if isinstance(n.value, ast.Tuple):
                        for i, e in enumerate(n.value.elts):
                            if mutable(e):
                                comps.add(i)
                    elif mutable(n.value):
                        comps.add(None)
            if comps:
                cached[f.name] = (f, comps)
    r.floor(len(cached), 1, "memoised functions returning mutable containers")
    nsites = 0
    for g in ctx.prog.all_functions(nested=False):
        if g.is_alias or isinstance(g.node, ast.Lambda):
            continue
        shared = {}
        for n in ast.walk(g.node):
            if isinstance(n, ast.Assign) and isinstance(n.value, ast.Call):
                name = (dotted(n.value.func) or "").split(".")[-1]
                if name in cached and ctx.prog.lookup(g.module, name) is cached[name][0] or (name in cached and g.module is cached[name][0].module):
                    comps = cached[name][1]
                    t = n.targets[0]
                    if isinstance(t, ast.Name) and None in comps:
                        shared[t.id] = name
                    elif isinstance(t, (ast.Tuple, ast.List)):
                        for i, e in enumerate(t.elts):
                            if i in comps and isinstance(e, ast.Name):
                                shared[e.id] = name
        if not shared:
            continue
        for n in ast.walk(g.node):
            hit = None
            if isinstance(n, (ast.Assign, ast.AugAssign)):
                ts = n.targets if isinstance(n, ast.Assign) else [n.target]
                for t in ts:
                    if isinstance(t, ast.Subscript) and isinstance(t.value, ast.Name) and t.value.id in shared:
                        hit = (t.value.id, f"store {src_of(t)}")
            if isinstance(n, ast.Delete):
                for t in n.targets:
                    if isinstance(t, ast.Subscript) and isinstance(t.value, ast.Name) and t.value.id in shared:
                        hit = (t.value.id, f"del {src_of(t)}")
            if isinstance(n, ast.Call) and isinstance(n.func, ast.Attribute) and n.func.attr in MUT and isinstance(n.func.value, ast.Name) and n.func.value.id in shared:
                hit = (n.func.value.id, f"{src_of(n.func)}(...)")
            if hit:
                nsites += 1
                r.bad(Finding("cache-immut", g.qualname,
                              f"mutates `{hit[0]}` ({hit[1]}, line {n.lineno}), which is (part of) the memoised result of {shared[hit[0]]}(): "
                              f"the change is seen by every later call with the same arguments",
                              where=f"{g.module.relpath}:{n.lineno}", operand=hit[0]))
        for nm, fn in shared.items():
            r.ok(f"{g.qualname}[{nm} <- {fn}]", sample={"caller": g.qualname, "shared value": nm, "from": fn + "()", "mutations": "none"})
    return r


# ---------------------------------------------------------------- cache-typed
def rule_cache_typed(ctx):
    r = RuleResult(
        "cache-typed",
        "functools.cache / lru_cache key their entries by argument *equality*, and True == 1, False == 0: a memoised function "
        "that treats a parameter differently according to its identity with True / False (`p is True`, isinstance(p, bool)) "
        "must be declared lru_cache(typed=True) — otherwise a call with 1 is served the entry computed for True (and vice "
        "versa), depending on which came first",
    )
    n = 0
    for f in ctx.prog.all_functions(nested=False):
        if f.is_alias or isinstance(f.node, ast.Lambda) or not f.module.name.startswith("quimb"):
            continue
        decs = getattr(f.node, "decorator_list", [])
        cached = None
        for d in decs:
            name = dotted(d.func) if isinstance(d, ast.Call) else dotted(d)
            if name and name.split(".")[-1] in ("cache", "lru_cache"):
                typed = isinstance(d, ast.Call) and any(k.arg == "typed" and const_value(k.value, None) is True for k in d.keywords)
                cached = (name, typed)
        if cached is None:
            continue
        n += 1
        sensitive = []
        for c in ast.walk(f.node):
            if isinstance(c, ast.Compare) and len(c.ops) == 1 and isinstance(c.ops[0], (ast.Is, ast.IsNot)):
                l, rr = c.left, c.comparators[0]
                for a, b in ((l, rr), (rr, l)):
                    if isinstance(a, ast.Name) and a.id in f.params and isinstance(b, ast.Constant) and (b.value is True or b.value is False):
                        sensitive.append((a.id, src_of(c), c.lineno))
            if isinstance(c, ast.Call) and isinstance(c.func, ast.Name) and c.func.id == "isinstance" and len(c.args) == 2 \
                    and isinstance(c.args[0], ast.Name) and c.args[0].id in f.params and "bool" in src_of(c.args[1]):
                sensitive.append((c.args[0].id, src_of(c), c.lineno))
        construct = f.qualname
        if sensitive and not cached[1]:
            p_, test, line = sensitive[0]
            r.bad(Finding(
                "cache-typed", construct,
                f"memoised with {cached[0]} (untyped) but `{test}` (line {line}) distinguishes {p_}=True from {p_}=1: the two calls share one cache entry, "
                "so the result for one is returned for the other", where=f"{f.module.relpath}:{f.lineno}", operand=p_))
        else:
            r.ok(construct, sample={"function": f.qualname, "cache": cached[0], "typed": cached[1], "bool-sensitive parameters": sorted({s_[0] for s_ in sensitive})}, nontrivial=bool(sensitive))
    r.floor(n, 5, "memoised functions")
    return r


# ---------------------------------------------------------- alias-normalised
def rule_alias_normalised(ctx):
    r = RuleResult(
        "alias-normalised",
        "the alias table _ABSORB_MAP maps strings to absorb modes, among them a string alias of None (singular values "
        "returned separately): outside decomp.py's post-normalisation code, a function that branches on `absorb is None` "
        "must first normalise its raw `absorb` argument (through _ABSORB_MAP / parse_method_absorb) — otherwise the alias "
        "takes the other branch and the separately returned singular values are dropped",
    )
    m = ctx.prog.module(DECOMP)
    env = ConstEnv(m)
    amap = env.get("_ABSORB_MAP")
    none_aliases = sorted(k for k, v in amap.items() if isinstance(k, str) and v is None) if isinstance(amap, dict) else None
    if none_aliases is None:
        raise AnalysisError("_ABSORB_MAP could not be evaluated statically")
    if not none_aliases:
        r.ok("_ABSORB_MAP", sample={"string aliases of None": []}, nontrivial=False)
        return r
    n = 0
    for f in ctx.prog.all_functions(nested=False):
        if f.is_alias or isinstance(f.node, ast.Lambda) or not f.module.name.startswith("quimb.tensor") or f.module.name == DECOMP:
            continue
        if "absorb" not in f.params:
            continue
        tests = [c for c in ast.walk(f.node) if isinstance(c, ast.Compare) and isinstance(c.left, ast.Name) and c.left.id == "absorb"
                 and isinstance(c.ops[0], (ast.Is, ast.IsNot)) and const_value(c.comparators[0], 0) is None]
        if not tests:
            continue
        n += 1
        first = min(t.lineno for t in tests)
        normalised = False
        for a in ast.walk(f.node):
            if isinstance(a, ast.Assign) and any(isinstance(t, ast.Name) and t.id == "absorb" for t0 in a.targets for t in ast.walk(t0)) and a.lineno < first:
                txt = src_of(a.value)
                if "_ABSORB_MAP" in txt or "parse_method_absorb" in txt:
                    normalised = True
            # `if <normalised test>: absorb = None`
            if isinstance(a, ast.If) and a.lineno < first and "_ABSORB_MAP" in src_of(a.test) and any(
                    isinstance(x, ast.Assign) and any(isinstance(t, ast.Name) and t.id == "absorb" for t in x.targets) and const_value(x.value, 0) is None for x in a.body):
                normalised = True
        # tests that only *default* the option (`if absorb is None: absorb = ...`) do not depend on aliases
        only_default = all(
            any(isinstance(iff, ast.If) and iff.test is t and all(isinstance(s_, ast.Assign) and any(isinstance(tt, ast.Name) and tt.id == "absorb" for tt in s_.targets) for s_ in iff.body) for iff in ast.walk(f.node))
            for t in tests)
        if normalised or only_default:
            r.ok(f.qualname, sample={"function": f.qualname, "tests `absorb is None`": len(tests), "normalised first": normalised})
        else:
            r.bad(Finding(
                "alias-normalised", f.qualname,
                f"branches on `absorb is None` (line {first}) using the raw argument, but {none_aliases} are accepted aliases of None: with "
                f"absorb={none_aliases[0]!r} the decomposition returns the singular values separately while this function takes the 'absorbed' branch and drops them",
                where=f"{f.module.relpath}:{first}", operand="absorb"))
    r.floor(n, 1, "functions testing `absorb is None` outside decomp.py")
    return r


# ------------------------------------------------------- renorm-power-siblings
def _root_powers(fnode):
    """expressions X such that the function computes `... ** (1 / X)`"""
    out = []
    for b in ast.walk(fnode):
        e = None
        if isinstance(b, ast.BinOp) and isinstance(b.op, ast.Pow):
            e = b.right
        elif isinstance(b, ast.AugAssign) and isinstance(b.op, ast.Pow):
            e = b.value
        if isinstance(e, ast.BinOp) and isinstance(e.op, ast.Div) and const_value(e.left, None) in (1, 1.0):
            out.append(e.right)
    return out


def _param_deps(fnode, expr, params):
    """parameters the value of expr depends on: data dependence through local assignments and control dependence on the
    tests of the `if` statements those assignments sit under."""
    parents = {}
    for p in ast.walk(fnode):
        for c in ast.iter_child_nodes(p):
            parents[c] = p
    deps, seen, todo = set(), set(), [expr]
    while todo:
        e = todo.pop()
        for x in ast.walk(e):
            if isinstance(x, ast.Name):
                if x.id in params:
                    deps.add(x.id)
                if x.id in seen:
                    continue
                seen.add(x.id)
                for a in ast.walk(fnode):
                    if isinstance(a, (ast.Assign, ast.AugAssign)):
                        ts = a.targets if isinstance(a, ast.Assign) else [a.target]
                        if any(isinstance(t, ast.Name) and t.id == x.id for t0 in ts for t in ast.walk(t0)):
                            todo.append(a.value)
                            q = a
                            while q in parents:
                                q = parents[q]
                                if isinstance(q, ast.If):
                                    # an on/off test (`x > 0`) only says *whether* to do something, not how
                                    flagless = [t for t in ast.walk(q.test) if isinstance(t, ast.Compare) and not (
                                        len(t.ops) == 1 and isinstance(t.ops[0], ast.Gt) and const_value(t.comparators[0], None) in (0, 0.0))]
                                    todo.extend(flagless)
    return deps


def rule_renorm_power_siblings(ctx):
    r = RuleResult(
        "renorm-power-siblings",
        "sibling agreement between the generic and the numba truncation: the exponent p of the renormalisation factor "
        "(sum of kept s**p rescaled to the sum of all s**p, then the p-th root) must be derived from the same option in both — "
        "decided by data + control dependence of the root exponent on the parameters `renorm` / `cutoff_mode`",
    )
    sources = {}
    for fname in ("_trim_and_renorm_svd_result", "_trim_and_renorm_svd_result_numba"):
        f = ctx.prog.func(DECOMP, fname)
        if f is None:
            raise AnalysisError(f"{fname} not found")
        params = set(f.params)
        deps = set()
        roots = _root_powers(f.node)
        for x in roots:
            deps |= _param_deps(f.node, x, params) & {"renorm", "cutoff_mode"}
        # follow helper calls that receive renorm / cutoff_mode
        for c in ast.walk(f.node):
            if isinstance(c, ast.Call) and isinstance(c.func, ast.Name):
                g = ctx.prog.module(DECOMP).functions.get(c.func.id)
                if g is None or g is f or "renorm_factor" not in g.name:
                    continue
                pos = list(g.posparams)
                binding = {pos[k]: a for k, a in enumerate(c.args) if k < len(pos)}
                binding.update({k.arg: k.value for k in c.keywords if k.arg})
                for x in _root_powers(g.node):
                    for p_ in _param_deps(g.node, x, set(g.params)):
                        if p_ in binding:
                            deps |= {n_.id for n_ in ast.walk(binding[p_]) if isinstance(n_, ast.Name)} & {"renorm", "cutoff_mode"}
        if not deps:
            raise AnalysisError(f"{fname}: the root exponent of the renormalisation factor was not found")
        sources[fname] = deps
    g_, n_ = sources["_trim_and_renorm_svd_result"], sources["_trim_and_renorm_svd_result_numba"]
    f = ctx.prog.func(DECOMP, "_trim_and_renorm_svd_result")
    if g_ == n_:
        r.ok("renorm power", sample={"generic": sorted(g_), "numba": sorted(n_)})
    else:
        r.bad(Finding(
            "renorm-power-siblings", "_trim_and_renorm_svd_result",
            f"the generic path takes the renormalisation power from {sorted(g_)} but the numba path from {sorted(n_)}: for an explicit "
            "renorm=p that differs from the power of the cutoff mode (renorm=1 with 'rsum2') numpy arrays and other backends are rescaled differently",
            where=f"{f.module.relpath}:{f.lineno}", operand="power-source"))
    return r


# ------------------------------------------------ full spectrum before trimming
def rule_full_spectrum_before_trim(ctx):
    r = RuleResult(
        "full-spectrum-before-trim",
        "the cumulative cutoff rules count on the whole spectrum: wherever the (U, s, VH) handed to "
        "_trim_and_renorm_svd_result[_numba] comes from a decomposition call that itself takes a `max_bond`, that call must "
        "be given 'no cap' (a non-positive literal), never a value derived from the caller's max_bond — a spectrum that "
        "was already capped makes the relative / cumulative thresholds see a smaller total and keep too few values",
    )
    m = ctx.prog.module(DECOMP)
    n = 0
    for f in m.all_functions:
        if f.is_alias or isinstance(f.node, ast.Lambda) or f.parent is not None:
            continue
        trims = [c for c in ast.walk(f.node) if isinstance(c, ast.Call) and isinstance(c.func, ast.Name) and c.func.id.startswith("_trim_and_renorm_svd_result")]
        if not trims:
            continue
        for t in trims:
            names = [a.id for a in t.args[:3] if isinstance(a, ast.Name)]
            if len(names) < 3:
                continue
            # producer: the tuple assignment that defines these three names last before the trim
            prod = None
            for a in ast.walk(f.node):
                if isinstance(a, ast.Assign) and isinstance(a.targets[0], ast.Tuple) and [getattr(e, "id", None) for e in a.targets[0].elts] == names and a.lineno < t.lineno and isinstance(a.value, ast.Call):
                    if prod is None or a.lineno > prod.lineno:
                        prod = a
            if prod is None:
                continue
            capkw = next((k.value for k in prod.value.keywords if k.arg == "max_bond"), None)
            if capkw is None:
                continue  # producer takes no cap (a full decomposition)
            n += 1
            construct = f"{f.qualname}->{src_of(prod.value.func)}"
            where = f"{f.module.relpath}:{prod.lineno}"
            v = const_value(capkw, "x")
            if isinstance(v, (int, float)) and not isinstance(v, bool) and v <= 0:
                r.ok(construct, sample={"function": f.qualname, "decomposition": src_of(prod.value.func), "max_bond": src_of(capkw), "then": t.func.id})
            else:
                r.bad(Finding(
                    "full-spectrum-before-trim", f.qualname,
                    f"`{src_of(prod.value.func)}(..., max_bond={src_of(capkw)})` feeds {t.func.id}: the spectrum can already be capped when the cutoff rule "
                    "counts on it, so the kept number is no longer the smallest that satisfies the rule on the full spectrum",
                    where=where, operand=src_of(prod.value.func)))
    r.floor(n, 2, "capped-capable decompositions feeding the trimming routine")
    return r


def rule_delegation_complete(ctx):
    r = RuleResult(
        "delegation-complete",
        "a split driver that hands its work to another driver / to the truncation funnel of decomp.py (dense fall-back of the "
        "iterative methods, numba twin, batch fall-back ...) passes on every truncation option both of them accept: an option "
        "the delegating driver accepted (so parse_split_opts injected it) and the delegate would honour, but which this call "
        "does not bind, is silently replaced by the delegate's default on that path only",
    )
    m = ctx.prog.module(DECOMP)
    by_name = {f.name: f for f in m.all_functions if f.parent is None and not isinstance(f.node, ast.Lambda) and not f.is_alias}
    OPTS = ("absorb", "max_bond", "cutoff", "cutoff_mode", "renorm")
    drivers = [f for f, _, _ in _registered_drivers(ctx)]
    # plus the helpers the registered drivers delegate to (one level)
    n = 0
    seen = set()
    for f in drivers:
        if f in seen:
            continue
        seen.add(f)
        own = [p for p in OPTS if p in f.params]
        if not own:
            continue
        for c in ast.walk(f.node):
            if not isinstance(c, ast.Call):
                continue
            name = dotted(c.func) or ""
            base = name.split(".")[0]
            if name.endswith("._default_fn"):
                callee = by_name.get(base)
            else:
                callee = by_name.get(name)
            if callee is None or callee is f:
                continue
            both = [p for p in own if p in callee.params]
            if len(both) < 2:
                continue  # not a truncation delegate
            if any(kw.arg is None for kw in c.keywords) or any(isinstance(a, ast.Starred) for a in c.args):
                r.ok(f"{f.qualname}->{callee.name}", sample={"driver": f.qualname, "delegate": callee.name, "binds": "**opts"}, nontrivial=False)
                n += 1
                continue
            pos = [p for p in callee.posparams]
            bound = set(pos[: len(c.args)]) | {kw.arg for kw in c.keywords}
            n += 1
            missing = [p for p in both if p not in bound]
            construct = f"{f.qualname}->{callee.name}@{'+'.join(sorted(bound & set(OPTS)))}"
            if not missing:
                r.ok(construct, sample={"driver": f.qualname, "delegate": callee.name, "options passed": sorted(bound & set(OPTS))})
            else:
                for p in missing:
                    r.bad(Finding("delegation-complete", f.qualname,
                                  f"`{src_of(c)[:80]}` delegates to {callee.name} without `{p}`, which both accept: on this path the caller's `{p}` is "
                                  f"replaced by {callee.name}'s default",
                                  where=f"{m.relpath}:{c.lineno}", operand=f"{callee.name}:{p}"))
    r.floor(n, 10, "delegating calls between split drivers")
    return r


# ---------------------------------------------------------------- nonneg-before-sqrt
_SQ_FAMILY = {"get_Usq_sqVH", "get_Usq", "get_sqVH"}


def rule_nonneg_before_sqrt(ctx):
    r = RuleResult(
        "nonneg-before-sqrt",
        "the hermitian-eigendecomposition split drivers hand eigenvalues (signed) to the truncation funnel, which takes their square "
        "root for the absorb modes 'both' / 'lsqrt' / 'rsqrt': on every path to the funnel on which such a mode is possible the values "
        "have been made non-negative (abs with the sign moved into a factor, or clipping when the operator is declared positive) — "
        "decided by enumerating the paths of each driver under the assumption `absorb in {both, lsqrt, rsqrt}` with a "
        "{signed, non-negative} abstract value for the spectrum",
    )
    m = ctx.prog.module(DECOMP)
    n = 0
    for f in m.all_functions:
        if f.parent is not None or isinstance(f.node, ast.Lambda) or f.is_alias or "absorb" not in f.params:
            continue
        eigh_calls = [c for c in ast.walk(f.node) if isinstance(c, ast.Call) and (dotted(c.func) or "").endswith("eigh") and (dotted(c.func) or "") != f.name]
        trims = [c for c in ast.walk(f.node) if isinstance(c, ast.Call) and (dotted(c.func) or "").startswith("_trim_and_renorm_svd_result")]
        if not eigh_calls or not trims:
            continue
        n += 1
        results = []  # (path description, state of the spectrum at the funnel)

        def ev(t, env):
            if isinstance(t, ast.Constant):
                return bool(t.value)
            if isinstance(t, ast.Name):
                return env["flags"].get(t.id)
            if isinstance(t, ast.UnaryOp) and isinstance(t.op, ast.Not):
                v = ev(t.operand, env)
                return None if v is None else (not v)
            if isinstance(t, ast.Compare) and len(t.ops) == 1 and isinstance(t.left, ast.Name) and t.left.id == "absorb":
                comp = t.comparators[0]
                names = {x.id for x in ast.walk(comp) if isinstance(x, ast.Name)}
                if isinstance(t.ops[0], (ast.In, ast.Eq)):
                    if names and names <= _SQ_FAMILY and (isinstance(t.ops[0], ast.In) and names == _SQ_FAMILY or isinstance(t.ops[0], ast.Eq)):
                        # `absorb in (all three)` is true under the assumption; a single `==` is true for one member only
                        return True if isinstance(t.ops[0], ast.In) else None
                    if names and not (names & _SQ_FAMILY):
                        return False
                return None
            if isinstance(t, ast.BoolOp):
                vs = [ev(v, env) for v in t.values]
                if isinstance(t.op, ast.Or):
                    # a disjunction of `absorb == X` over the whole family is true under the assumption
                    eqs = set()
                    for v in t.values:
                        if isinstance(v, ast.Compare) and isinstance(v.left, ast.Name) and v.left.id == "absorb" and isinstance(v.ops[0], ast.Eq):
                            eqs |= {x.id for x in ast.walk(v.comparators[0]) if isinstance(x, ast.Name)}
                    if eqs >= _SQ_FAMILY:
                        return True
                    if any(v is True for v in vs):
                        return True
                    return False if all(v is False for v in vs) else None
                if any(v is False for v in vs):
                    return False
                return True if all(v is True for v in vs) else None
            return None

        def is_nonneg_expr(e, var):
            if isinstance(e, ast.Call):
                nm = (dotted(e.func) or "").split(".")[-1]
                if nm in ("abs", "absolute"):
                    return True
                if nm == "do" and e.args and const_value(e.args[0], None) in ("abs", "absolute"):
                    return True
                if nm == "clip" and len(e.args) >= 2 and const_value(e.args[1], None) in (0, 0.0):
                    return True
            return False

        def run(stmts, env, out):
            """enumerate paths through stmts; `out` collects envs that fall off the end."""
            if not stmts:
                out.append(env)
                return
            st, rest = stmts[0], stmts[1:]
            if isinstance(st, ast.If):
                v = ev(st.test, env)
                arms = []
                key = src_of(st.test)
                if v is None and key in env["assume"]:
                    v = env["assume"][key]
                if v is None and isinstance(st.test, ast.UnaryOp) and isinstance(st.test.operand, ast.Name) and st.test.operand.id in env["assume"]:
                    v = not env["assume"][st.test.operand.id]
                if v is not False:
                    e1 = {"sign": dict(env["sign"]), "flags": dict(env["flags"]), "assume": dict(env["assume"]), "desc": env["desc"] + ([f"{key}"] if v is None else [])}
                    if v is None:
                        e1["assume"][key] = True
                        if isinstance(st.test, ast.Name):
                            e1["flags"][st.test.id] = True
                        if isinstance(st.test, ast.UnaryOp) and isinstance(st.test.operand, ast.Name):
                            e1["assume"][st.test.operand.id] = False
                    arms.append((st.body, e1))
                if v is not True:
                    e2 = {"sign": dict(env["sign"]), "flags": dict(env["flags"]), "assume": dict(env["assume"]), "desc": env["desc"] + ([f"not ({key})"] if v is None else [])}
                    if v is None:
                        e2["assume"][key] = False
                        if isinstance(st.test, ast.Name):
                            e2["flags"][st.test.id] = False
                        if isinstance(st.test, ast.UnaryOp) and isinstance(st.test.operand, ast.Name):
                            e2["assume"][st.test.operand.id] = True
                    arms.append((st.orelse, e2))
                for body, e_ in arms:
                    mid = []
                    run(list(body), e_, mid)
                    for e3 in mid:
                        run(rest, e3, out)
                return
            # funnel reached inside this statement?
            for c in ast.walk(st):
                if c in trims:
                    sarg = c.args[1] if len(c.args) > 1 else None
                    state = env["sign"].get(sarg.id, "signed") if isinstance(sarg, ast.Name) else "signed"
                    results.append((" and ".join(env["desc"]) or "always", state, c.lineno))
            if isinstance(st, (ast.Return, ast.Raise)):
                return
            if isinstance(st, ast.Assign):
                tg = st.targets[0]
                if isinstance(tg, ast.Tuple) and isinstance(st.value, ast.Call) and st.value in eigh_calls:
                    for e_ in tg.elts[:1]:
                        if isinstance(e_, ast.Name):
                            env["sign"][e_.id] = "signed"
                elif isinstance(tg, ast.Name):
                    if tg.id in env["sign"]:
                        if is_nonneg_expr(st.value, tg.id):
                            env["sign"][tg.id] = "nonneg"
                        elif not any(isinstance(x, ast.Name) and x.id == tg.id for x in ast.walk(st.value)):
                            env["sign"][tg.id] = "signed"
                    else:
                        bv = ev(st.value, env) if isinstance(st.value, (ast.Compare, ast.BoolOp, ast.Constant, ast.UnaryOp, ast.Name)) else None
                        if isinstance(st.value, (ast.Compare, ast.BoolOp)) or (isinstance(st.value, ast.Constant) and isinstance(st.value.value, bool)):
                            env["flags"][tg.id] = bv
                elif isinstance(tg, ast.Subscript) and isinstance(tg.value, ast.Name) and tg.value.id in env["sign"]:
                    # s[s < 0.0] = 0.0
                    if isinstance(tg.slice, ast.Compare) and isinstance(tg.slice.ops[0], ast.Lt) and const_value(st.value, None) in (0, 0.0):
                        env["sign"][tg.value.id] = "nonneg"
            run(rest, env, out)

        run(list(f.node.body), {"sign": {}, "flags": {}, "assume": {}, "desc": []}, [])
        if not results:
            r.skip(f.qualname, "no path to the truncation funnel was enumerated")
            continue
        badp = [(d, ln) for d, s_, ln in results if s_ != "nonneg"]
        if badp:
            d, ln = badp[0]
            r.bad(Finding("nonneg-before-sqrt", f.qualname,
                          f"on the path [{d}] the eigenvalues reach the truncation funnel signed although a square-root absorb mode is possible: sqrt of a negative "
                          "eigenvalue gives NaN factors for an indefinite hermitian input",
                          where=f"{m.relpath}:{ln}", operand="signed-spectrum"))
        else:
            r.ok(f.qualname, sample={"driver": f.qualname, "paths": len(results), "spectrum at the funnel": "non-negative on every path (under absorb in {both, lsqrt, rsqrt})"})
    r.floor(n, 3, "hermitian eigendecomposition split drivers")
    return r


def rule_partial_selection(ctx):
    r = RuleResult(
        "partial-selection",
        "a split driver that asks a *partial* eigen-solver for k eigenpairs of a hermitian matrix to build the best rank-k approximation has "
        "to ask for the largest *magnitude* ones (which='LM'): the solver's default selects the smallest algebraic eigenvalues, which is "
        "only the right end of the spectrum for negative definite input",
    )
    m = ctx.prog.module(DECOMP)
    n = 0
    for f, how, key in _registered_drivers(ctx):
        for c in ast.walk(f.node):
            if not (isinstance(c, ast.Call) and (dotted(c.func) or "").endswith("base_linalg.eigh") and any(k.arg == "k" for k in c.keywords)):
                continue
            n += 1
            which = next((k.value for k in c.keywords if k.arg == "which"), None)
            q = f"{f.qualname}->eigh[k]"
            if which is not None and const_value(which, None) in ("LM", "lm"):
                r.ok(q, sample={"driver": f.qualname, "selection": "which='LM'"})
            else:
                r.bad(Finding("partial-selection", f.qualname, f"`{src_of(c)[:50]}` requests k eigenpairs with the solver's default selection (smallest algebraic), not the largest "
                                                               "magnitude ones: the truncation is not the best rank-k approximation for indefinite input",
                              where=f"{m.relpath}:{c.lineno}", operand="which"))
    r.floor(n, 1, "partial hermitian eigen-solves inside split drivers")
    return r


def rule_error_after_clamp(ctx):
    r = RuleResult(
        "error-after-clamp",
        "the truncation funnels report the discarded weight as sqrt(sum(sabs[n:] ** 2)) with n the number of kept values: that n has to be the "
        "*final* kept rank — no assignment to the rank variable (the bond-cap clamp n = min(n, max_bond)) may follow the computation of the "
        "error; otherwise the weight removed by the cap is missing from the reported error",
    )
    n = 0
    for fn in ("_trim_and_renorm_svd_result", "_trim_and_renorm_svd_result_numba"):
        f = ctx.prog.func(DECOMP, fn)
        if f is None:
            raise AnalysisError(f"error-after-clamp: {fn} not found")
        # error computations: an assignment whose value takes a tail slice  <arr>[V:]  (possibly [..., V:])
        for a in ast.walk(f.node):
            if not isinstance(a, ast.Assign):
                continue
            tails = []
            for x in ast.walk(a.value):
                if isinstance(x, ast.Subscript):
                    sl = x.slice.elts[-1] if isinstance(x.slice, ast.Tuple) and x.slice.elts else x.slice
                    if isinstance(sl, ast.Slice) and isinstance(sl.lower, ast.Name) and sl.upper is None:
                        tails.append(sl.lower.id)
            if not tails or not any((dotted(c.func) or "").split(".")[-1] in ("sqrt", "sum", "norm") or (c.args and const_value(c.args[0], None) in ("sqrt", "sum")) for c in ast.walk(a.value) if isinstance(c, ast.Call)):
                continue
            V = tails[0]
            n += 1
            later = [b for b in ast.walk(f.node) if isinstance(b, (ast.Assign, ast.AugAssign)) and b.lineno > a.lineno
                     and any(isinstance(t, ast.Name) and t.id == V for t in (b.targets if isinstance(b, ast.Assign) else [b.target]))]
            q = f"{fn}[{src_of(a.targets[0])}]"
            if later:
                r.bad(Finding("error-after-clamp", fn, f"`{src_of(a)[:60]}` (line {a.lineno}) measures the discarded weight before `{src_of(later[0])[:40]}` (line {later[0].lineno}) changes the kept rank: "
                                                       "the weight removed by that later step is not reported", where=f"{f.module.relpath}:{a.lineno}", operand=V))
            else:
                r.ok(q, sample={"funnel": fn, "error": src_of(a)[:60], "kept rank final": True})
    r.floor(n, 2, "discarded-weight computations in the truncation funnels")
    return r


def rule_fixed_form_claim(ctx):
    r = RuleResult(
        "fixed-form-claim",
        "a registered split driver without an `absorb` parameter returns one fixed form whatever absorb mode was requested "
        "(parse_split_opts injects an option only into a signature that accepts it); the isometry claim "
        "parse_split_left_right_isom(method, absorb) must therefore decide such a driver by its *registered default* form: "
        "it (or the parser it calls) tests the driver's capability through the driver registry and rebinds the mode it "
        "tests from the default-absorb registry",
    )
    m = ctx.prog.module(DECOMP)
    reg = ctx.prog.func(DECOMP, "register_split_driver")
    fn_reg = dflt_reg = None
    for a in ast.walk(reg.node):
        if isinstance(a, ast.Assign) and len(a.targets) == 1 and isinstance(a.targets[0], ast.Subscript) and isinstance(a.targets[0].value, ast.Name) and isinstance(a.value, ast.Name):
            if a.value.id in reg.params:
                if a.value.id != reg.params[0]:
                    dflt_reg = a.targets[0].value.id
            else:
                fn_reg = a.targets[0].value.id
    if fn_reg is None or dflt_reg is None:
        raise AnalysisError("register_split_driver: the driver / default-absorb registries were not identified")
    fixed = sorted({key for f, how, key in _registered_drivers(ctx) if how == "register_split_driver" and "absorb" not in f.params and key})
    claim = ctx.prog.func(DECOMP, "parse_split_left_right_isom")
    ret = next((x.value for x in ast.walk(claim.node) if isinstance(x, ast.Return) and isinstance(x.value, ast.Tuple) and len(x.value.elts) == 2), None)
    if ret is None:
        raise AnalysisError("parse_split_left_right_isom: does not return a pair of flags")
    ldefs = {a.targets[0].id: a.value for a in ast.walk(claim.node) if isinstance(a, ast.Assign) and len(a.targets) == 1 and isinstance(a.targets[0], ast.Name)}
    tested = set()
    for e in ret.elts:
        if isinstance(e, ast.Name) and e.id in ldefs:
            e = ldefs[e.id]
        if isinstance(e, ast.Compare) and isinstance(e.left, ast.Name):
            tested.add(e.left.id)
    # the claim function and the same-module parsers it calls
    scope = [claim]
    for c in ast.walk(claim.node):
        if isinstance(c, ast.Call) and isinstance(c.func, ast.Name):
            g = m.functions.get(c.func.id) if hasattr(m, "functions") else None
            if g is None:
                try:
                    g = ctx.prog.func(DECOMP, c.func.id)
                except Exception:
                    g = None
            if g is not None and g is not claim:
                scope.append(g)
    handled = None
    for g in scope:
        # locals that (transitively) depend on the driver registry: `driver = REG[method]`, `takes = "absorb" in signature(driver)...`
        dep = {fn_reg}
        changed = True
        while changed:
            changed = False
            for a in ast.walk(g.node):
                if isinstance(a, ast.Assign) and any(isinstance(y, ast.Name) and y.id in dep for y in ast.walk(a.value)):
                    for t in a.targets:
                        for y in ast.walk(t):
                            if isinstance(y, ast.Name) and y.id not in dep:
                                dep.add(y.id)
                                changed = True
        for st in ast.walk(g.node):
            if not isinstance(st, ast.If):
                continue
            if not any(isinstance(y, ast.Name) and y.id in dep for y in ast.walk(st.test)):
                continue
            for a in st.body + st.orelse:
                if isinstance(a, ast.Assign) and any(isinstance(t, ast.Name) and (g is not claim or t.id in tested) for t in a.targets) \
                        and any(isinstance(y, ast.Subscript) and isinstance(y.value, ast.Name) and y.value.id == dflt_reg for y in ast.walk(a.value)):
                    handled = (g, st)
    for key in fixed:
        q = f"parse_split_left_right_isom[{key}]"
        if handled is not None:
            r.ok(q, sample={"driver": key, "fixed form": "no absorb parameter", "claim decided by": f"{dflt_reg}[method] under a test on {fn_reg} in {handled[0].name}"})
        else:
            r.bad(Finding("fixed-form-claim", "parse_split_left_right_isom",
                          f"driver '{key}' takes no absorb option and always returns its registered form, but the isometry claim is decided from the *requested* absorb mode: "
                          f"tensor_split(T, ..., method='{key}', absorb=<the other side>) flags the positive semi-definite factor as isometric",
                          where=f"{m.relpath}:{claim.lineno}", operand=str(key)))
    if not fixed:
        r.ok("no fixed-form drivers", nontrivial=False)
    r.floor(len([1 for f, how, key in _registered_drivers(ctx) if how == "register_split_driver"]), 10, "registered split drivers examined for a fixed form")
    return r
