"""C10: DMRG keeps ket and bra in lock-step (with conjugation)."""

import ast
import re

from ..framework import RuleResult, Finding
from ..model import dotted, src_of, const_value
from .. import AnalysisError

DMRG = "quimb.tensor.tn1d.dmrg"


def _site_expr(node, aliases, which):
    """index text if node denotes `self._k[e]` / `self._b[e]` (which='_k'/'_b'),
    directly or through a local alias."""
    if isinstance(node, ast.Subscript) and src_of(node.value) == f"self.{which}":
        return src_of(node.slice)
    if isinstance(node, ast.Name) and node.id in aliases and aliases[node.id][0] == which:
        return aliases[node.id][1]
    return None


def _blocks(fnode):
    """Yield statement lists (blocks) of a function."""
    stack = [fnode.body]
    while stack:
        b = stack.pop()
        yield b
        for st in b:
            for fld in ("body", "orelse", "finalbody"):
                sub = getattr(st, fld, None)
                if isinstance(sub, list) and sub and isinstance(sub[0], ast.stmt):
                    stack.append(sub)
            for h in getattr(st, "handlers", []):
                stack.append(h.body)


def _swap(text):
    return text.replace("self._k", "self._b").replace("uix", "lix").replace("u_bond_ind", "l_bond_ind")


def rule_lockstep(ctx):
    r = RuleResult(
        "ket-bra-lockstep / conj-pairing",
        "in DMRG and its subclasses every in-place update of a ket site tensor (self._k[e].modify(...)) is matched "
        "in the same block by an update of the bra tensor at the same site whose data is the conjugate of the "
        "ket's data (or the bra's own data under the same real rescaling) and whose indices are the lower "
        "counterparts of the ket's; every centre-moving / bond-expanding call on self._k passes bra=self._b",
    )
    m = ctx.prog.module(DMRG)
    root = m.classes.get("DMRG")
    if root is None:
        raise AnalysisError("class DMRG not found")
    classes = [root] + root.all_subclasses()
    npairs = 0
    nbra = 0
    for c in classes:
        for name, f in c.methods.items():
            if f.cls is not c or f.is_alias or isinstance(f.node, ast.Lambda):
                continue
            where = f"{f.module.relpath}:{f.lineno}"
            q = f"{c.name}.{name}"
            aliases = {}
            for n in ast.walk(f.node):
                if isinstance(n, ast.Assign) and len(n.targets) == 1 and isinstance(n.targets[0], ast.Name) and isinstance(n.value, ast.Subscript):
                    for which in ("_k", "_b"):
                        if src_of(n.value.value) == f"self.{which}":
                            aliases[n.targets[0].id] = (which, src_of(n.value.slice))
            conj_alias = {}
            for n in ast.walk(f.node):
                if isinstance(n, ast.Assign) and len(n.targets) == 1 and isinstance(n.targets[0], ast.Name) and isinstance(n.value, ast.Call) \
                        and isinstance(n.value.func, ast.Attribute) and n.value.func.attr in ("conj", "conjugate") and isinstance(n.value.func.value, ast.Name):
                    conj_alias[n.targets[0].id] = n.value.func.value.id
            for block in _blocks(f.node):
                kets, bras = [], []
                for st in block:
                    if isinstance(st, ast.Expr) and isinstance(st.value, ast.Call) and isinstance(st.value.func, ast.Attribute) and st.value.func.attr == "modify":
                        ek = _site_expr(st.value.func.value, aliases, "_k")
                        eb = _site_expr(st.value.func.value, aliases, "_b")
                        if ek is not None:
                            kets.append((ek, st.value))
                        if eb is not None:
                            bras.append((eb, st.value))
                # pair each bra update with the nearest ket update of the same site
                pairing = {}
                free = list(kets)
                for eb, bc in bras:
                    cands = [(abs(kc.lineno - bc.lineno), kc) for ek, kc in free if ek == eb]
                    if cands:
                        kc = min(cands, key=lambda t: t[0])[1]
                        pairing[id(kc)] = bc
                        free = [(e_, c_) for e_, c_ in free if c_ is not kc]
                for ek, kc in kets:
                    npairs += 1
                    match = [pairing[id(kc)]] if id(kc) in pairing else []
                    construct = f"{q}[site {ek}]"
                    if not match:
                        # DMRGX keeps a temporary eigenvector index on the ket only while selecting; it must be followed
                        # later in the function by a matched pair for the same site
                        temp_index = any(k.arg == "inds" and any(isinstance(x, ast.Constant) and isinstance(x.value, str) for x in ast.walk(k.value)) for k in kc.keywords)
                        later_pair = temp_index and _has_pair_later(f.node, aliases, ek, kc.lineno)
                        if later_pair:
                            r.ok(construct + " (temporary)", sample={"function": q, "ket update": src_of(kc)[:60], "bra": "matched by a later paired update"}, nontrivial=False)
                            continue
                        r.bad(Finding("ket-bra-lockstep", q,
                                      f"ket tensor at site `{ek}` is updated (line {kc.lineno}) without a matching update of the bra tensor in the same block: "
                                      f"the energy network then pairs the new ket with a stale bra",
                                      where=where, operand=f"site {ek}"))
                        continue
                    bc = match[0]
                    kk = {k.arg: k.value for k in kc.keywords if k.arg}
                    bk = {k.arg: k.value for k in bc.keywords if k.arg}
                    problems = []
                    if "data" in kk:
                        kd = src_of(kk["data"])
                        bd = src_of(bk["data"]) if "data" in bk else None
                        norm = lambda s_: re.sub(r"\s+", "", s_)
                        bd_un = bd
                        if bd is not None:
                            for a_, b_ in conj_alias.items():
                                bd_un = re.sub(rf"\b{a_}\b", b_, bd_un)
                        ok = bd is not None and (
                            norm(bd) in (norm(f"{kd}.conj()"), norm(f"({kd}).conj()"), norm(f"conj({kd})"), norm(f"{kd}.conjugate()"))
                            or (norm(bd) == norm(_swap(kd)) and "self._k" in kd and "/" in kd)
                            or (bd_un != bd and norm(bd_un) == norm(kd))  # a local defined as <ket data>.conj(), sliced alike
                        )
                        if not ok:
                            problems.append(f"bra data `{bd}` is not the conjugate of ket data `{kd}`")
                    if "inds" in kk and "inds" in bk:
                        ki = src_of(kk["inds"])
                        bi = src_of(bk["inds"])
                        if re.sub(r"\s+", "", bi) != re.sub(r"\s+", "", _swap(ki)) and "__ev_ind__" not in ki + bi:
                            problems.append(f"bra inds `{bi}` are not the lower counterparts of ket inds `{ki}`")
                    if problems:
                        for p_ in problems:
                            r.bad(Finding("conj-pairing", q, f"site `{ek}` (line {kc.lineno}): {p_}", where=where, operand=f"site {ek}:{p_[:20]}"))
                    else:
                        r.ok(construct, sample={"function": q, "ket": src_of(kc)[:70], "bra": src_of(bc)[:70]})
            # bra forwarding from the DMRG object
            for n in ast.walk(f.node):
                if isinstance(n, ast.Call):
                    fn = n.func
                    target = None
                    if isinstance(fn, ast.Attribute) and src_of(fn.value) == "self._k":
                        target = fn.attr
                    elif isinstance(fn, ast.Subscript) and isinstance(fn.value, ast.Dict):
                        # {"R": self._k.right_canonize, "L": self._k.left_canonize}[d](bra=self._b)
                        vals = [v for v in fn.value.values if isinstance(v, ast.Attribute) and src_of(v.value) == "self._k"]
                        if vals:
                            target = "|".join(v.attr for v in vals)
                    if target is None:
                        continue
                    cands = []
                    for tname in target.split("|"):
                        cands += [x for x in ctx.eff.name_index().get(tname, []) if ctx.eff.in_tensor_world(x.cls)]
                    real = [ctx.prog.deref_alias(x)[0] if x.is_alias else x for x in cands]
                    real = [x for x in real if x is not None]
                    if not real or not any("bra" in x.params for x in real):
                        continue
                    nbra += 1
                    kws = {k.arg: src_of(k.value) for k in n.keywords if k.arg}
                    construct = f"{q}->self._k.{target}"
                    if kws.get("bra") == "self._b":
                        r.ok(construct, sample={"function": q, "call": f"self._k.{target}", "bra": "self._b"})
                    else:
                        r.bad(Finding("ket-bra-lockstep", q,
                                      f"self._k.{target}(...) (line {n.lineno}) moves/expands the ket without bra=self._b: the bra falls out of step",
                                      where=where, operand=f"bra:{target}"))
    r.floor(npairs, 6, "ket site updates in DMRG classes")
    r.floor(nbra, 4, "bra-accepting calls on self._k")
    return r


def _has_pair_later(fnode, aliases, ek, line):
    kets = bras = False
    for n in ast.walk(fnode):
        if isinstance(n, ast.Call) and isinstance(n.func, ast.Attribute) and n.func.attr == "modify" and n.lineno > line:
            if _site_expr(n.func.value, aliases, "_k") == ek:
                kets = True
            if _site_expr(n.func.value, aliases, "_b") == ek:
                bras = True
    return kets and bras


def rule_mirror_blocks(ctx):
    r = RuleResult(
        "bra-mirror",
        "every function of tn1d/core.py and tensor_core.py that takes a `bra` parameter either forwards bra=bra to "
        "each callee that accepts it or mirrors, under `bra is not None`, each of its own in-place tensor updates "
        "with the conjugated data on the bra's tensor at the same site",
    )
    n = 0
    for modname in ("quimb.tensor.tn1d.core", "quimb.tensor.tn2d.core", "quimb.tensor.tensor_core"):
        m = ctx.prog.module(modname)
        for f in m.all_functions:
            if f.parent is not None or isinstance(f.node, ast.Lambda) or "bra" not in f.params:
                continue
            where = f"{f.module.relpath}:{f.lineno}"
            q = f.qualname
            # own updates: <x>[e].modify(data=...) / <T>.modify(data=...) outside the mirror block
            mirror_blocks = [st for st in ast.walk(f.node) if isinstance(st, ast.If) and "bra" in src_of(st.test) and "None" in src_of(st.test)]
            mirrored = []
            for mb in mirror_blocks:
                for c in ast.walk(mb):
                    if isinstance(c, ast.Call) and isinstance(c.func, ast.Attribute) and c.func.attr == "modify" and src_of(c.func.value).startswith("bra["):
                        mirrored.append(c)
            own = []
            for c in ast.walk(f.node):
                if isinstance(c, ast.Call) and isinstance(c.func, ast.Attribute) and c.func.attr == "modify" and any(k.arg == "data" for k in c.keywords):
                    if not src_of(c.func.value).startswith("bra[") and not any(c is x for mb in mirror_blocks for x in ast.walk(mb)):
                        own.append(c)
            forwards = [c for c in ast.walk(f.node) if isinstance(c, ast.Call) and any(k.arg == "bra" and src_of(k.value) == "bra" for k in c.keywords)]
            if not own and not mirrored and not forwards:
                continue
            n += 1
            if own and not mirrored and not forwards:
                r.bad(Finding("bra-mirror", q, "updates tensors in place but never mirrors the update on `bra` nor forwards it", where=where, operand="mirror"))
                continue
            bad = False
            for c in mirrored:
                d = next(src_of(k.value) for k in c.keywords if k.arg == "data") if any(k.arg == "data" for k in c.keywords) else ""
                own_rescale = d.startswith(src_of(c.func.value) + ".data") and ("/" in d or "*" in d)
                if "conj" not in d and not own_rescale:
                    bad = True
                    r.bad(Finding("bra-mirror", q, f"mirror update {src_of(c)[:60]} does not conjugate the data", where=where, operand="conj"))
            if not bad:
                r.ok(q, sample={"function": q, "own updates": len(own), "mirrored on bra": len(mirrored), "forwards bra": len(forwards)})
    r.floor(n, 8, "functions handling a bra parameter")
    return r


# ---------------------------------------------------------------------------
# sweep memory: the variable that licenses skipping per-sweep set-up work
# ---------------------------------------------------------------------------

def _own_walk(node):
    """walk without entering nested function definitions."""
    todo = [node]
    while todo:
        n = todo.pop()
        yield n
        for c in ast.iter_child_nodes(n):
            if not isinstance(c, (ast.FunctionDef, ast.AsyncFunctionDef, ast.Lambda)):
                todo.append(c)


_UNKNOWN = object()


def _mini_eval(e, env):
    """evaluate a comparison/boolean expression over string/int constants; _UNKNOWN if out of fragment."""
    if isinstance(e, ast.Constant):
        return e.value
    k = _mem_key(e)
    if k is not None:
        return env.get(k, _UNKNOWN)
    if isinstance(e, (ast.Set, ast.Tuple, ast.List)):
        vs = [_mini_eval(x, env) for x in e.elts]
        return _UNKNOWN if any(v is _UNKNOWN for v in vs) else set(vs)
    if isinstance(e, ast.UnaryOp) and isinstance(e.op, ast.Not):
        v = _mini_eval(e.operand, env)
        return _UNKNOWN if v is _UNKNOWN else (not v)
    if isinstance(e, ast.BoolOp):
        vs = [_mini_eval(x, env) for x in e.values]
        if any(v is _UNKNOWN for v in vs):
            return _UNKNOWN
        return all(vs) if isinstance(e.op, ast.And) else any(vs)
    if isinstance(e, ast.BinOp) and isinstance(e.op, ast.Add):
        a, b = _mini_eval(e.left, env), _mini_eval(e.right, env)
        if a is _UNKNOWN or b is _UNKNOWN or type(a) is not type(b):
            return _UNKNOWN
        return a + b
    if isinstance(e, ast.Compare) and len(e.ops) == 1:
        a, b = _mini_eval(e.left, env), _mini_eval(e.comparators[0], env)
        if a is _UNKNOWN or b is _UNKNOWN:
            return _UNKNOWN
        op = e.ops[0]
        try:
            if isinstance(op, ast.Eq):
                return a == b
            if isinstance(op, ast.NotEq):
                return a != b
            if isinstance(op, ast.In):
                return a in b
            if isinstance(op, ast.NotIn):
                return a not in b
        except TypeError:
            return _UNKNOWN
    return _UNKNOWN


def _mem_key(n):
    if isinstance(n, ast.Name):
        return n.id
    if isinstance(n, ast.Attribute) and isinstance(n.value, ast.Name) and n.value.id == "self":
        return "self." + n.attr
    return None


def rule_sweep_memory(ctx, sites, rule="sweep-memory"):
    r = RuleResult(
        rule,
        "a sweep driver that skips per-sweep set-up (re-canonization / environment rebuild) because of what the previous "
        "sweep did: the variable remembering the previous sweep is initialised to a constant before the loop, is set to the "
        "current direction only after the sweep call, and — if it outlives the call (an attribute) — is updated on every "
        "path that leaves the loop after a sweep, so the skip is never licensed by a sweep that is not the most recent one",
    )
    n_mem = 0
    for modname, qual, callees, skip_kw in sites:
        f = ctx.prog.func(modname, qual)
        if f is None:
            raise AnalysisError(f"{rule}: {modname}.{qual} not found")
        where0 = f"{f.module.relpath}:{f.lineno}"
        loops = [n for n in _own_walk(f.node) if isinstance(n, (ast.For, ast.While))]
        hit = None
        for lp in loops:
            if callees is None:
                # the sweep is the call that receives the skip keyword (its callee may be a local holding a function)
                calls = [c for c in _own_walk(lp) if isinstance(c, ast.Call) and any(kw.arg == skip_kw for kw in c.keywords)]
            else:
                calls = [c for c in _own_walk(lp) if isinstance(c, ast.Call) and (getattr(c.func, "attr", None) or getattr(c.func, "id", None)) in callees]
            if calls:
                hit = (lp, calls)
        if hit is None:
            raise AnalysisError(f"{rule}: no sweep call ({callees}) inside a loop of {qual}")
        lp, calls = hit
        # the skip expression
        def find_skip(call):
            for kw in call.keywords:
                if kw.arg == skip_kw:
                    return kw.value
                if kw.arg is None and isinstance(kw.value, ast.Name):
                    # **opts with opts = {"canonize": canonize, ...}
                    for a in _own_walk(f.node):
                        if isinstance(a, ast.Assign) and any(isinstance(t, ast.Name) and t.id == kw.value.id for t in a.targets) and isinstance(a.value, ast.Dict):
                            for k, v in zip(a.value.keys, a.value.values):
                                if isinstance(k, ast.Constant) and k.value == skip_kw:
                                    return v
            return None
        E = None
        for c in calls:
            E = find_skip(c) or E
        if E is None:
            raise AnalysisError(f"{rule}: `{skip_kw}` is not passed to the sweep call of {qual}")
        hops = 0
        while isinstance(E, ast.Name) and hops < 4:
            defs = [a for a in _own_walk(lp) if isinstance(a, ast.Assign) and any(isinstance(t, ast.Name) and t.id == E.id for t in a.targets)]
            if not defs:
                break
            E = defs[-1].value
            hops += 1
        construct = qual
        if isinstance(E, ast.Constant):
            r.ok(construct, sample={"site": qual, "skip": f"{skip_kw}={E.value!r} (never skipped on memory)"})
            continue
        # statement (top level of the loop body, possibly nested in with/if) that holds the sweep
        first_sweep_line = min(c.lineno for c in calls)
        last_sweep_line = max(c.end_lineno for c in calls)
        loop_targets = {n.id for n in ast.walk(lp.target) if isinstance(n, ast.Name)} if isinstance(lp, ast.For) else set()
        cands = {}
        for n in ast.walk(E):
            k = _mem_key(n)
            if k and isinstance(getattr(n, "ctx", None), ast.Load) and k not in loop_targets and k != "self":
                cands[k] = n
        mems = []
        for k, node in cands.items():
            stores_in = [a for a in _own_walk(lp) if isinstance(a, ast.Assign) and any(_mem_key(t) == k for t in a.targets)]
            stores_out = [a for a in _own_walk(f.node) if isinstance(a, ast.Assign) and any(_mem_key(t) == k for t in a.targets) and not (lp.lineno <= a.lineno <= lp.end_lineno)]
            if k.startswith("self."):
                mems.append((k, stores_in, stores_out, True))
            elif stores_in and all(a.lineno > last_sweep_line for a in stores_in):
                mems.append((k, stores_in, stores_out, False))
            elif stores_in and stores_out:
                mems.append((k, stores_in, stores_out, False))
            elif stores_out and not stores_in and all(isinstance(a.value, ast.Constant) and a.lineno < lp.lineno for a in stores_out):
                mems.append((k, stores_in, stores_out, False))  # a memory that is never updated
        if not mems:
            raise AnalysisError(f"{rule}: the skip expression `{src_of(E)}` of {qual} has no recognisable memory variable")
        for k, stores_in, stores_out, persistent in mems:
            n_mem += 1
            problems = []
            where = where0
            if not stores_in:
                # a memory that never changes is harmless only if its initial value cannot license the skip
                inits = [a.value.value for a in stores_out if isinstance(a.value, ast.Constant)]
                others = [x for x in cands if x != k]
                verdicts = []
                for init in inits or [None]:
                    for d in ("L", "R"):
                        env = {k: init, **{o: d for o in others}, **{t: 1 for t in loop_targets}}
                        verdicts.append(_mini_eval(E, env))
                if any(v is _UNKNOWN for v in verdicts):
                    r.skip(f"{construct}[{k}]", f"`{k}` is never updated and `{src_of(E)}` could not be evaluated")
                    continue
                if any(not v for v in verdicts):
                    problems.append(("no-update", f"`{k}` is never updated in the sweep loop, and with its initial value `{skip_kw}` is skipped on later sweeps"))
            for a in stores_in:
                where = f"{f.module.relpath}:{a.lineno}"
                if a.lineno < first_sweep_line:
                    problems.append(("early-update", f"`{k}` is set before the sweep it is meant to remember has run"))
                if not (isinstance(a.value, ast.Name) and a.value.id in {x for x in cands if x != k}):
                    problems.append(("update-source", f"`{k}` is set to `{src_of(a.value)}`, not to the direction the skip test compares it with"))
            if not persistent:
                for a in stores_out:
                    if a.lineno > lp.lineno:
                        continue
                    if not isinstance(a.value, ast.Constant):
                        problems.append(("init", f"`{k}` is initialised from `{src_of(a.value)}`, which can carry a direction from outside this call"))
                if not any(a.lineno < lp.lineno for a in stores_out):
                    problems.append(("init", f"`{k}` is not initialised before the sweep loop"))
            else:
                # persistent memory: no exit from the loop between the sweep and the update
                upd = min((a.lineno for a in stores_in if a.lineno > last_sweep_line), default=None)
                for x in _own_walk(lp):
                    if isinstance(x, (ast.Break, ast.Return)) and x.lineno > last_sweep_line and (upd is None or x.lineno < upd):
                        # a break inside a nested loop does not leave this loop
                        inner = [l2 for l2 in _own_walk(lp) if isinstance(l2, (ast.For, ast.While)) and l2 is not lp and l2.lineno <= x.lineno <= l2.end_lineno]
                        if isinstance(x, ast.Break) and inner:
                            continue
                        problems.append((
                            "stale-on-exit",
                            f"`{k}` outlives the call, but the loop can be left at line {x.lineno} after a sweep and before `{k}` is updated: "
                            f"the next call skips `{skip_kw}` on the strength of a sweep that was not the last one",
                        ))
                        where = f"{f.module.relpath}:{x.lineno}"
                        break
            if problems:
                for op, what in problems:
                    r.bad(Finding(rule, construct, what, where=where, operand=f"{k}:{op}"))
            else:
                r.ok(f"{construct}[{k}]", sample={"site": qual, "memory": k, "skip": f"{skip_kw} = {src_of(E)[:80]}", "scope": "attribute" if persistent else "local"})
    r.floor(n_mem, len(sites), "sweep-memory variables")
    return r


def rule_sandwich_orientation(ctx):
    r = RuleResult(
        "sandwich-orientation",
        "DMRG's energy network <bra|H|ket>: tensor_network_align stacks its arguments top to bottom and gives an operator in "
        "the middle its *upper* (row) indices from the network above and its *lower* (column) indices from the network below, "
        "so the first argument of the alignment must be the conjugated state (bra) and the last the ket; with the ket first "
        "the contraction is <psi|H^T|psi> and DMRG minimises over H^T — the right energy (same spectrum) but, for a complex "
        "Hermitian H, the wrong state",
    )
    cls = ctx.prog.cls("quimb.tensor.tn1d.dmrg", "DMRG")
    init = cls.methods["__init__"]
    where = f"{init.module.relpath}:{init.lineno}"
    aligns = [c for c in ast.walk(init.node) if isinstance(c, ast.Call) and isinstance(c.func, ast.Attribute) and c.func.attr in ("align_", "align")]
    if not aligns:
        raise AnalysisError("DMRG.__init__: alignment call not found")
    c = aligns[0]
    seq = [src_of(c.func.value)] + [src_of(a) for a in c.args]
    # which attribute is the conjugated state?
    conj = set()
    for a in ast.walk(init.node):
        if isinstance(a, ast.Assign) and any(isinstance(x, ast.Attribute) and x.attr == "H" or (isinstance(x, ast.Call) and getattr(x.func, "attr", None) == "conj") for x in ast.walk(a.value)):
            conj |= {src_of(t) for t in a.targets}
    if not conj:
        raise AnalysisError("DMRG.__init__: conjugated state not identified")
    first_is_bra, last_is_bra = seq[0] in conj, seq[-1] in conj
    if first_is_bra and not last_is_bra:
        r.ok("DMRG.__init__[align]", sample={"alignment (top to bottom)": seq, "bra": sorted(conj)})
    else:
        r.bad(Finding("sandwich-orientation", "DMRG.__init__",
                      f"the energy network is aligned as {seq} (top to bottom): the operator's row indices meet {seq[0]} and its column indices {seq[-1]}, but the conjugated "
                      f"state is {sorted(conj)}: the sandwich evaluates <psi|H^T|psi>", where=f"{init.module.relpath}:{c.lineno}", operand="ket-on-rows"))
    return r


def rule_skip_licence_intact(ctx):
    r = RuleResult(
        "skip-licence-intact",
        "DMRG.solve skips re-canonization when the previous sweep ran the other way; that licence describes the state as "
        "the previous sweep left it. Every call in the sweep loop that surely rewrites the tensors of the state (self._k) "
        "between two sweeps — e.g. the noisy bond expansion of the one-site algorithm — is accompanied by a write of the skip "
        "flag that does not come from the direction memory (it forces / re-decides canonization)",
    )
    f = ctx.prog.func("quimb.tensor.tn1d.dmrg", "DMRG.solve")
    if f is None:
        raise AnalysisError("skip-licence-intact: DMRG.solve not found")
    mps = ctx.prog.cls("quimb.tensor.tn1d.core", "MatrixProductState")
    loops = [n for n in _own_walk(f.node) if isinstance(n, (ast.For, ast.While))]
    lp = None
    for l_ in loops:
        if any(isinstance(c, ast.Call) and getattr(c.func, "attr", None) == "sweep" for c in _own_walk(l_)):
            lp = l_
    if lp is None:
        raise AnalysisError("skip-licence-intact: no sweep loop in DMRG.solve")
    sweeps = [c for c in _own_walk(lp) if isinstance(c, ast.Call) and getattr(c.func, "attr", None) == "sweep"]
    # the local that carries the skip flag into the sweep (through the options dict)
    flag = None
    for a in _own_walk(lp):
        if isinstance(a, ast.Assign) and isinstance(a.value, ast.Dict):
            for k, v in zip(a.value.keys, a.value.values):
                if isinstance(k, ast.Constant) and k.value == "canonize" and isinstance(v, ast.Name):
                    flag = v.id
    for c in sweeps:
        for kw in c.keywords:
            if kw.arg == "canonize" and isinstance(kw.value, ast.Name):
                flag = kw.value.id
    if flag is None:
        raise AnalysisError("skip-licence-intact: the canonize flag passed to sweep() is not a local of DMRG.solve")
    flag_writes = [a for a in _own_walk(lp) if isinstance(a, (ast.Assign, ast.AugAssign)) and any(isinstance(t, ast.Name) and t.id == flag for t in (a.targets if isinstance(a, ast.Assign) else [a.target]))]
    if not flag_writes:
        raise AnalysisError("skip-licence-intact: the canonize flag is never written in the sweep loop")
    flag_writes.sort(key=lambda a: a.lineno)
    primary = flag_writes[0]
    first_sweep = min(c.lineno for c in sweeps)

    def block_of(node, body=None, path=()):
        """the statement list that directly contains `node`'s statement, and the chain of enclosing statements."""
        body = lp.body if body is None else body
        for st in body:
            if any(x is node for x in ast.walk(st)):
                for fld in ("body", "orelse", "finalbody"):
                    sub = getattr(st, fld, None)
                    if isinstance(sub, list) and any(any(x is node for x in ast.walk(s_)) for s_ in sub if isinstance(s_, ast.stmt)):
                        return block_of(node, sub, path + (st,))
                return body, st, path
        return None, None, path

    n = 0
    for c in _own_walk(lp):
        if not (isinstance(c, ast.Call) and isinstance(c.func, ast.Attribute) and isinstance(c.func.value, ast.Attribute)
                and c.func.value.attr == "_k" and isinstance(c.func.value.value, ast.Name) and c.func.value.value.id == "self"):
            continue
        if c.lineno > first_sweep:
            continue
        m = mps.find(c.func.attr)
        if m is None:
            continue
        kwflags = {kw.arg: const_value(kw.value, "?") for kw in c.keywords if kw.arg}
        s = ctx.eff.summary(m, {k: v for k, v in kwflags.items() if v in (True, False)}, cls=mps)
        sure = [mu for mu in s.mut.get("self", ()) if mu.sure]
        if not sure:
            continue
        n += 1
        construct = f"DMRG.solve:{c.func.attr}"
        body, st, path = block_of(c)
        # a write of the flag other than the memory-derived one, in the same block as the rewrite or later at an enclosing level
        ok = False
        for w in flag_writes:
            if w is primary:
                continue
            if w.lineno < primary.lineno:
                continue  # overwritten by the memory-derived decision
            wbody, wst, wpath = block_of(w)
            # (i) anywhere inside the block that holds the rewrite (it is re-decided whenever that block runs), or
            # (ii) later, at a level that encloses the rewrite (it is re-decided on every path through the rewrite)
            # a write nested in a *sibling* branch that holds another rewrite belongs to that rewrite, not to this one
            sibling_owned = False
            for s_ in body:
                if isinstance(s_, ast.If) and any(x is w for x in ast.walk(s_)) and not any(x is c for x in ast.walk(s_)):
                    other = [y for y in ast.walk(s_) if isinstance(y, ast.Call) and isinstance(y.func, ast.Attribute) and isinstance(y.func.value, ast.Attribute)
                             and y.func.value.attr == "_k" and y.func.attr != c.func.attr]
                    for y in other:
                        g = mps.find(y.func.attr)
                        if g is not None and any(mu.sure for mu in ctx.eff.summary(g, {}, cls=mps).mut.get("self", ())):
                            sibling_owned = True
            inside_same_block = any(any(x is w for x in ast.walk(s_)) for s_ in body) and not sibling_owned
            encloses = w.lineno > c.lineno and all(p in path for p in wpath)
            if inside_same_block or encloses:
                ok = True
        if ok:
            r.ok(construct, sample={"rewrite": src_of(c)[:60], "flag": flag, "re-decided": True})
        else:
            r.bad(Finding("skip-licence-intact", "DMRG.solve",
                          f"`{src_of(c)[:70]}` rewrites the state's tensors between two sweeps, but `{flag}` is decided from the direction memory alone: "
                          "after an opposite-direction sweep the next sweep runs without re-canonizing a state that is no longer canonical "
                          "(local eigenproblems are solved against a non-identity norm: energies rise, the variational bound is lost)",
                          where=f"{f.module.relpath}:{c.lineno}", operand=c.func.attr))
    r.floor(n, 1, "state-rewriting calls between sweeps in DMRG.solve")
    return r


def rule_truncating_update_normalised(ctx):
    r = RuleResult(
        "truncating-update-normalised",
        "DMRG's two-site update splits the normalised local ground state under the sweep's bond cap: a truncating split lowers the norm, and "
        "the energy recorded afterwards is <psi|H|psi> of the state as it stands. The split therefore renormalises the kept singular values "
        "(renorm=True) or the routine divides the norm out on every (open and periodic) path — otherwise the reported energy is not the "
        "energy of the normalised state that is returned",
    )
    f = ctx.prog.func("quimb.tensor.tn1d.dmrg", "DMRG._update_local_state_2site")
    if f is None:
        raise AnalysisError("truncating-update-normalised: DMRG._update_local_state_2site not found")
    splits = [c for c in ast.walk(f.node) if isinstance(c, ast.Call) and isinstance(c.func, ast.Attribute) and c.func.attr == "split"
              and any(k.arg is None for k in c.keywords)]
    if not splits:
        raise AnalysisError("truncating-update-normalised: the truncating split of the two-site update was not found")
    where = f"{f.module.relpath}:{splits[0].lineno}"
    renorm = any(k.arg == "renorm" and const_value(k.value, None) not in (None, False, 0) for c in splits for k in c.keywords)
    # an unconditional division by a norm (top-level statement of the routine, not under `if self.cyclic`)
    divides = any(isinstance(st, (ast.Assign, ast.AugAssign, ast.Expr)) and any(isinstance(b, ast.BinOp) and isinstance(b.op, ast.Div) and any(
        isinstance(y, ast.Name) and "norm" in y.id.lower() for y in ast.walk(b.right)) for b in ast.walk(st)) for st in f.node.body)
    if renorm or divides:
        r.ok("DMRG._update_local_state_2site", sample={"after truncation": "renorm=True in the split" if renorm else "norm divided out unconditionally"})
    else:
        r.bad(Finding("truncating-update-normalised", "DMRG._update_local_state_2site",
                      f"`{src_of(splits[0])[:50]}...` truncates without renormalising and the norm is only divided out for periodic systems: after a truncating update the "
                      "recorded energy is <psi|H|psi> of a state with <psi|psi> < 1", where=where, operand="renorm"))
    return r


def rule_onesite_cap_enforced(ctx):
    r = RuleResult(
        "onesite-cap-enforced",
        "the one-site update never changes a bond dimension: DMRG.solve therefore has to impose the sweep's cap itself for bsz == 1 — next to "
        "the explicit expansion (bonds below the cap) there is a truncating call on the state that receives the cap, guarded by a comparison "
        "of the present bond sizes with it; otherwise a decreasing schedule or a large initial state leaves bonds above the requested cap",
    )
    f = ctx.prog.func("quimb.tensor.tn1d.dmrg", "DMRG.solve")
    if f is None:
        raise AnalysisError("onesite-cap-enforced: DMRG.solve not found")
    blocks = [st for st in ast.walk(f.node) if isinstance(st, ast.If) and any(isinstance(y, ast.Attribute) and y.attr == "bsz" for y in ast.walk(st.test))]
    if not blocks:
        raise AnalysisError("onesite-cap-enforced: no branch on self.bsz in DMRG.solve")
    where = f"{f.module.relpath}:{blocks[0].lineno}"
    # the local that holds the sweep's cap (whatever it is called): what is passed on as "max_bond" to the sweep / the expansion
    caps = {v.id for a in ast.walk(f.node) if isinstance(a, ast.Dict) for k, v in zip(a.keys, a.values) if isinstance(k, ast.Constant) and k.value == "max_bond" and isinstance(v, ast.Name)}
    caps |= {c.args[0].id for c in ast.walk(f.node) if isinstance(c, ast.Call) and isinstance(c.func, ast.Attribute) and c.func.attr == "expand_bond_dimension" and c.args and isinstance(c.args[0], ast.Name)}
    if not caps:
        raise AnalysisError("onesite-cap-enforced: the local holding the sweep's bond cap was not found in DMRG.solve")
    ok = False
    for b in blocks:
        for st in ast.walk(b):
            if isinstance(st, ast.If) and any(isinstance(c, ast.Compare) and isinstance(c.ops[0], (ast.Gt, ast.GtE, ast.Lt, ast.LtE)) and any(isinstance(y, ast.Name) and y.id in caps for y in ast.walk(c))
                                              and any(isinstance(y, ast.Call) and isinstance(y.func, ast.Name) and y.func.id == "max" for y in ast.walk(c)) for c in ast.walk(st.test)):
                for c in ast.walk(st):
                    if isinstance(c, ast.Call) and isinstance(c.func, ast.Attribute) and "compress" in c.func.attr and any(k.arg == "max_bond" and any(isinstance(y, ast.Name) and y.id in caps for y in ast.walk(k.value)) for k in c.keywords):
                        ok = True
    if ok:
        r.ok("DMRG.solve[bsz == 1]", sample={"cap": "bonds above max_bond are truncated before the sweep"})
    else:
        r.bad(Finding("onesite-cap-enforced", "DMRG.solve", "for the one-site algorithm bonds are only ever expanded towards the cap, never truncated to it: the returned state can exceed the requested bond dimension",
                      where=where, operand="truncate"))
    return r
