"""C10: DMRG keeps ket and bra in lock-step (with conjugation)."""

import ast
import re

from ..framework import RuleResult, Finding
from ..model import dotted, src_of, const_value
from .. import AnalysisError

DMRG = "quimb.tensor.tn1d.dmrg"


def _site_expr(node, aliases, which):
    """index text if node denotes `self._k[e]` / `self._b[e]` (which='_k'/'_b'),
    directly or through a local alias."""
    if isinstance(node, ast.Subscript) and src_of(node.value) == f"self.{which}":
        return src_of(node.slice)
    if isinstance(node, ast.Name) and node.id in aliases and aliases[node.id][0] == which:
        return aliases[node.id][1]
    return None


def _blocks(fnode):
    """Yield statement lists (blocks) of a function."""
    stack = [fnode.body]
    while stack:
        b = stack.pop()
        yield b
        for st in b:
            for fld in ("body", "orelse", "finalbody"):
                sub = getattr(st, fld, None)
                if isinstance(sub, list) and sub and isinstance(sub[0], ast.stmt):
                    stack.append(sub)
            for h in getattr(st, "handlers", []):
                stack.append(h.body)


def _swap(text):
    return text.replace("self._k", "self._b").replace("uix", "lix").replace("u_bond_ind", "l_bond_ind")


def rule_lockstep(ctx):
    r = RuleResult(
        "ket-bra-lockstep / conj-pairing",
        "in DMRG and its subclasses every in-place update of a ket site tensor (self._k[e].modify(...)) is matched "
        "in the same block by an update of the bra tensor at the same site whose data is the conjugate of the "
        "ket's data (or the bra's own data under the same real rescaling) and whose indices are the lower "
        "counterparts of the ket's; every centre-moving / bond-expanding call on self._k passes bra=self._b",
    )
    m = ctx.prog.module(DMRG)
    root = m.classes.get("DMRG")
    if root is None:
        raise AnalysisError("class DMRG not found")
    classes = [root] + root.all_subclasses()
    npairs = 0
    nbra = 0
    for c in classes:
        for name, f in c.methods.items():
            if f.cls is not c or f.is_alias or isinstance(f.node, ast.Lambda):
                continue
            where = f"{f.module.relpath}:{f.lineno}"
            q = f"{c.name}.{name}"
            aliases = {}
            for n in ast.walk(f.node):
                if isinstance(n, ast.Assign) and len(n.targets) == 1 and isinstance(n.targets[0], ast.Name) and isinstance(n.value, ast.Subscript):
                    for which in ("_k", "_b"):
                        if src_of(n.value.value) == f"self.{which}":
                            aliases[n.targets[0].id] = (which, src_of(n.value.slice))
            conj_alias = {}
            for n in ast.walk(f.node):
                if isinstance(n, ast.Assign) and len(n.targets) == 1 and isinstance(n.targets[0], ast.Name) and isinstance(n.value, ast.Call) \
                        and isinstance(n.value.func, ast.Attribute) and n.value.func.attr in ("conj", "conjugate") and isinstance(n.value.func.value, ast.Name):
                    conj_alias[n.targets[0].id] = n.value.func.value.id
            for block in _blocks(f.node):
                kets, bras = [], []
                for st in block:
                    if isinstance(st, ast.Expr) and isinstance(st.value, ast.Call) and isinstance(st.value.func, ast.Attribute) and st.value.func.attr == "modify":
                        ek = _site_expr(st.value.func.value, aliases, "_k")
                        eb = _site_expr(st.value.func.value, aliases, "_b")
                        if ek is not None:
                            kets.append((ek, st.value))
                        if eb is not None:
                            bras.append((eb, st.value))
                # pair each bra update with the nearest ket update of the same site
                pairing = {}
                free = list(kets)
                for eb, bc in bras:
                    cands = [(abs(kc.lineno - bc.lineno), kc) for ek, kc in free if ek == eb]
                    if cands:
                        kc = min(cands, key=lambda t: t[0])[1]
                        pairing[id(kc)] = bc
                        free = [(e_, c_) for e_, c_ in free if c_ is not kc]
                for ek, kc in kets:
                    npairs += 1
                    match = [pairing[id(kc)]] if id(kc) in pairing else []
                    construct = f"{q}[site {ek}]"
                    if not match:
                        # DMRGX keeps a temporary eigenvector index on the ket only while selecting; it must be followed
                        # later in the function by a matched pair for the same site
                        temp_index = any(k.arg == "inds" and any(isinstance(x, ast.Constant) and isinstance(x.value, str) for x in ast.walk(k.value)) for k in kc.keywords)
                        later_pair = temp_index and _has_pair_later(f.node, aliases, ek, kc.lineno)
                        if later_pair:
                            r.ok(construct + " (temporary)", sample={"function": q, "ket update": src_of(kc)[:60], "bra": "matched by a later paired update"}, nontrivial=False)
                            continue
                        r.bad(Finding("ket-bra-lockstep", q,
                                      f"ket tensor at site `{ek}` is updated (line {kc.lineno}) without a matching update of the bra tensor in the same block: "
                                      f"the energy network then pairs the new ket with a stale bra",
                                      where=where, operand=f"site {ek}"))
                        continue
                    bc = match[0]
                    kk = {k.arg: k.value for k in kc.keywords if k.arg}
                    bk = {k.arg: k.value for k in bc.keywords if k.arg}
                    problems = []
                    if "data" in kk:
                        kd = src_of(kk["data"])
                        bd = src_of(bk["data"]) if "data" in bk else None
                        norm = lambda s_: re.sub(r"\s+", "", s_)
                        bd_un = bd
                        if bd is not None:
                            for a_, b_ in conj_alias.items():
                                bd_un = re.sub(rf"\b{a_}\b", b_, bd_un)
                        ok = bd is not None and (
                            norm(bd) in (norm(f"{kd}.conj()"), norm(f"({kd}).conj()"), norm(f"conj({kd})"), norm(f"{kd}.conjugate()"))
                            or (norm(bd) == norm(_swap(kd)) and "self._k" in kd and "/" in kd)
                            or (bd_un != bd and norm(bd_un) == norm(kd))  # a local defined as <ket data>.conj(), sliced alike
                        )
                        if not ok:
                            problems.append(f"bra data `{bd}` is not the conjugate of ket data `{kd}`")
                    if "inds" in kk and "inds" in bk:
                        ki = src_of(kk["inds"])
                        bi = src_of(bk["inds"])
                        if re.sub(r"\s+", "", bi) != re.sub(r"\s+", "", _swap(ki)) and "__ev_ind__" not in ki + bi:
                            problems.append(f"bra inds `{bi}` are not the lower counterparts of ket inds `{ki}`")
                    if problems:
                        for p_ in problems:
                            r.bad(Finding("conj-pairing", q, f"site `{ek}` (line {kc.lineno}): {p_}", where=where, operand=f"site {ek}:{p_[:20]}"))
                    else:
                        r.ok(construct, sample={"function": q, "ket": src_of(kc)[:70], "bra": src_of(bc)[:70]})
            # bra forwarding from the DMRG object
            for n in ast.walk(f.node):
                if isinstance(n, ast.Call):
                    fn = n.func
                    target = None
                    if isinstance(fn, ast.Attribute) and src_of(fn.value) == "self._k":
                        target = fn.attr
                    elif isinstance(fn, ast.Subscript) and isinstance(fn.value, ast.Dict):
                        # {"R": self._k.right_canonize, "L": self._k.left_canonize}[d](bra=self._b)
                        vals = [v for v in fn.value.values if isinstance(v, ast.Attribute) and src_of(v.value) == "self._k"]
                        if vals:
                            target = "|".join(v.attr for v in vals)
                    if target is None:
                        continue
                    cands = []
                    for tname in target.split("|"):
                        cands += [x for x in ctx.eff.name_index().get(tname, []) if ctx.eff.in_tensor_world(x.cls)]
                    real = [ctx.prog.deref_alias(x)[0] if x.is_alias else x for x in cands]
                    real = [x for x in real if x is not None]
                    if not real or not any("bra" in x.params for x in real):
                        continue
                    nbra += 1
                    kws = {k.arg: src_of(k.value) for k in n.keywords if k.arg}
                    construct = f"{q}->self._k.{target}"
                    if kws.get("bra") == "self._b":
                        r.ok(construct, sample={"function": q, "call": f"self._k.{target}", "bra": "self._b"})
                    else:
                        r.bad(Finding("ket-bra-lockstep", q,
                                      f"self._k.{target}(...) (line {n.lineno}) moves/expands the ket without bra=self._b: the bra falls out of step",
                                      where=where, operand=f"bra:{target}"))
    r.floor(npairs, 6, "ket site updates in DMRG classes")
    r.floor(nbra, 4, "bra-accepting calls on self._k")
    return r


def _has_pair_later(fnode, aliases, ek, line):
    kets = bras = False
    for n in ast.walk(fnode):
        if isinstance(n, ast.Call) and isinstance(n.func, ast.Attribute) and n.func.attr == "modify" and n.lineno > line:
            if _site_expr(n.func.value, aliases, "_k") == ek:
                kets = True
            if _site_expr(n.func.value, aliases, "_b") == ek:
                bras = True
    return kets and bras


def rule_mirror_blocks(ctx):
    r = RuleResult(
        "bra-mirror",
        "every function of tn1d/core.py and tensor_core.py that takes a `bra` parameter either forwards bra=bra to "
        "each callee that accepts it or mirrors, under `bra is not None`, each of its own in-place tensor updates "
        "with the conjugated data on the bra's tensor at the same site",
    )
    n = 0
    for modname in ("quimb.tensor.tn1d.core", "quimb.tensor.tn2d.core", "quimb.tensor.tensor_core"):
        m = ctx.prog.module(modname)
        for f in m.all_functions:
            if f.parent is not None or isinstance(f.node, ast.Lambda) or "bra" not in f.params:
                continue
            where = f"{f.module.relpath}:{f.lineno}"
            q = f.qualname
            # own updates: <x>[e].modify(data=...) / <T>.modify(data=...) outside the mirror block
            mirror_blocks = [st for st in ast.walk(f.node) if isinstance(st, ast.If) and "bra" in src_of(st.test) and "None" in src_of(st.test)]
            mirrored = []
            for mb in mirror_blocks:
                for c in ast.walk(mb):
                    if isinstance(c, ast.Call) and isinstance(c.func, ast.Attribute) and c.func.attr == "modify" and src_of(c.func.value).startswith("bra["):
                        mirrored.append(c)
            own = []
            for c in ast.walk(f.node):
                if isinstance(c, ast.Call) and isinstance(c.func, ast.Attribute) and c.func.attr == "modify" and any(k.arg == "data" for k in c.keywords):
                    if not src_of(c.func.value).startswith("bra[") and not any(c is x for mb in mirror_blocks for x in ast.walk(mb)):
                        own.append(c)
            forwards = [c for c in ast.walk(f.node) if isinstance(c, ast.Call) and any(k.arg == "bra" and src_of(k.value) == "bra" for k in c.keywords)]
            if not own and not mirrored and not forwards:
                continue
            n += 1
            if own and not mirrored and not forwards:
                r.bad(Finding("bra-mirror", q, "updates tensors in place but never mirrors the update on `bra` nor forwards it", where=where, operand="mirror"))
                continue
            bad = False
            for c in mirrored:
                d = next(src_of(k.value) for k in c.keywords if k.arg == "data") if any(k.arg == "data" for k in c.keywords) else ""
                own_rescale = d.startswith(src_of(c.func.value) + ".data") and ("/" in d or "*" in d)
                if "conj" not in d and not own_rescale:
                    bad = True
                    r.bad(Finding("bra-mirror", q, f"mirror update {src_of(c)[:60]} does not conjugate the data", where=where, operand="conj"))
            if not bad:
                r.ok(q, sample={"function": q, "own updates": len(own), "mirrored on bra": len(mirrored), "forwards bra": len(forwards)})
    r.floor(n, 8, "functions handling a bra parameter")
    return r
