"""C13 (and the value clause of C01 behind it): boundary environments carry the scale stripped by equalize_norms.

`contract_boundary_from_(..., equalize_norms=...)` moves tensor norms into `tn.exponent`.  A *selection*
(`select`, `select_any`, `select_all`) of a network does not carry `exponent` unless asked to
(`with_exponent=True`) — correct for an arbitrary part, but an environment *is* the part that the stripped scale
belongs to.  Two obligations:

  producer   a routine that sweeps a working network inwards and stores selections of it as environments must
             transfer the exponent accrued so far to each stored environment;
  consumer   a routine that assembles a new network from selections of stored environments must carry their
             exponents along.
"""

import ast
import re

from ..framework import RuleResult, Finding
from ..model import src_of
from .. import AnalysisError

MODULES = ("quimb.tensor.tn2d.core", "quimb.tensor.tn3d.core")
SELECTS = {"select", "select_any", "select_all", "select_sites"}
ENV_NAME = re.compile(r"(^|_)envs?($|_)")


def _own_walk(node):
    todo = [node]
    while todo:
        n = todo.pop()
        yield n
        for c in ast.iter_child_nodes(n):
            if not isinstance(c, (ast.FunctionDef, ast.AsyncFunctionDef, ast.Lambda)):
                todo.append(c)


def _root_name(e):
    while isinstance(e, (ast.Subscript, ast.Attribute)):
        e = e.value
    return e.id if isinstance(e, ast.Name) else None


def _with_exponent(call):
    return any(k.arg == "with_exponent" and isinstance(k.value, ast.Constant) and k.value.value is True for k in call.keywords)


def rule_env_exponent(ctx):
    r = RuleResult(
        "env-exponent",
        "in the 2D / 3D boundary code: (producer) a routine that contracts a working network inwards with "
        "contract_boundary_from_ and stores selections of it in an environment dict assigns the accrued exponent to each "
        "stored environment (or selects with_exponent=True); (consumer) a selection taken from a stored environment and "
        "combined into a new network is taken with_exponent=True (or the routine assigns the result's exponent from the "
        "environments): otherwise the scale that equalize_norms stripped is silently lost and unnormalised values are off "
        "by 10**exponent",
    )
    n_prod = n_cons = 0
    for modname in MODULES:
        mod = ctx.prog.modules.get(modname)
        if mod is None:
            raise AnalysisError(f"module {modname} not found")
        for f in mod.all_functions:
            if f.is_alias or isinstance(f.node, ast.Lambda) or f.parent is not None:
                continue
            sweeps = [c for c in _own_walk(f.node) if isinstance(c, ast.Call) and isinstance(c.func, ast.Attribute) and c.func.attr in ("contract_boundary_from_", "contract_boundary_from")]
            exp_assigned = {
                _root_name(t.value) for a in _own_walk(f.node) if isinstance(a, ast.Assign) for t in a.targets
                if isinstance(t, ast.Attribute) and t.attr == "exponent"
            }
            # locals bound to selections of a network
            sel_locals = {}
            for a in _own_walk(f.node):
                if isinstance(a, ast.Assign) and len(a.targets) == 1 and isinstance(a.targets[0], ast.Name) and isinstance(a.value, ast.Call) \
                        and isinstance(a.value.func, ast.Attribute) and a.value.func.attr in SELECTS:
                    sel_locals[a.targets[0].id] = a.value
            # ---- producer
            if sweeps:
                swept = {_root_name(c.func.value) for c in sweeps}
                stores = []
                for a in _own_walk(f.node):
                    if isinstance(a, ast.Assign) and any(isinstance(t, ast.Subscript) and ENV_NAME.search(_root_name(t) or "") for t in a.targets):
                        v = a.value
                        call = None
                        local = None
                        if isinstance(v, ast.Call) and isinstance(v.func, ast.Attribute) and v.func.attr in SELECTS:
                            call = v
                        elif isinstance(v, ast.Name) and v.id in sel_locals:
                            call, local = sel_locals[v.id], v.id
                        if call is not None and _root_name(call.func.value) in swept:
                            # only stores made after the sweep has started accrue anything
                            if any(s.lineno < a.lineno for s in sweeps):
                                stores.append((a, call, local))
                for a, call, local in stores:
                    n_prod += 1
                    construct = f.qualname
                    if _with_exponent(call) or (local is not None and local in exp_assigned):
                        r.ok(f"{construct}[store@{src_of(a.targets[0])[:30]}]", sample={"producer": f.qualname, "stored": src_of(a.targets[0]), "exponent": "transferred"})
                    else:
                        r.bad(Finding(
                            "env-exponent", construct,
                            f"stores `{src_of(call)[:60]}` as an environment after contract_boundary_from_ may have moved norm into "
                            f"`{_root_name(call.func.value)}.exponent` (equalize_norms), without transferring that exponent",
                            where=f"{f.module.relpath}:{a.lineno}", operand="producer"))
            # ---- consumer
            cons = []
            for c in _own_walk(f.node):
                if isinstance(c, ast.Call) and isinstance(c.func, ast.Attribute) and c.func.attr in SELECTS and isinstance(c.func.value, ast.Subscript):
                    root = _root_name(c.func.value)
                    if root and ENV_NAME.search(root):
                        cons.append(c)
            if cons:
                missing = [c for c in cons if not _with_exponent(c)]
                n_cons += len(cons)
                # result networks whose exponent is assigned from the environments explicitly
                explicit = any(
                    isinstance(a, ast.Assign) and any(isinstance(t, ast.Attribute) and t.attr == "exponent" for t in a.targets)
                    and any(isinstance(x, ast.Attribute) and x.attr == "exponent" and ENV_NAME.search(_root_name(x) or "") for x in ast.walk(a.value))
                    for a in _own_walk(f.node)
                )
                if missing and not explicit:
                    r.bad(Finding(
                        "env-exponent", f.qualname,
                        f"assembles a network from {len(missing)} selection(s) of stored environments (e.g. `{src_of(missing[0])[:70]}`) without "
                        "with_exponent=True and without assigning the result's exponent: the scale the environments carry is dropped",
                        where=f"{f.module.relpath}:{missing[0].lineno}", operand="consumer"))
                else:
                    for c in cons:
                        r.ok(f"{f.qualname}[{src_of(c.func.value)[:30]}]", sample={"consumer": f.qualname, "selection": src_of(c)[:70]})
    r.floor(n_prod, 2, "environment stores after a boundary sweep")
    r.floor(n_cons, 4, "selections from stored environments")
    return r


def rule_private_boundary(ctx):
    r = RuleResult(
        "private-boundary",
        "the boundary network that the 2D / 3D `_contract_boundary_core_via_*` routines hand to an in-place compressor "
        "(tensor_network_1d_compress / _2d_compress / _ag_compress with inplace=True) consists of private copies of the "
        "boundary tensors (split off with partition(), whose parts copy) — never a virtual view: compute_environments keeps "
        "views of earlier boundaries, and compressors that rewrite tensors in place would silently corrupt those stored "
        "environments",
    )
    COMPRESSORS = {"tensor_network_1d_compress", "tensor_network_2d_compress", "tensor_network_ag_compress"}
    n = 0
    for modname in MODULES:
        mod = ctx.prog.modules.get(modname)
        for f in mod.all_functions:
            if f.is_alias or isinstance(f.node, ast.Lambda):
                continue
            for c in ast.walk(f.node):
                if not (isinstance(c, ast.Call) and (getattr(c.func, "id", None) or getattr(c.func, "attr", None)) in COMPRESSORS):
                    continue
                if not any(k.arg == "inplace" and isinstance(k.value, ast.Constant) and k.value.value is True for k in c.keywords):
                    continue
                if not c.args or not isinstance(c.args[0], ast.Name):
                    continue
                name = c.args[0].id
                defs = []
                for a in ast.walk(f.node):
                    if isinstance(a, ast.Assign) and a.lineno < c.lineno:
                        for t0 in a.targets:
                            for t in ast.walk(t0):
                                if isinstance(t, ast.Name) and t.id == name:
                                    defs.append(a)
                if not defs:
                    continue
                n += 1
                d = max(defs, key=lambda a: a.lineno)
                txt_calls = [x for x in ast.walk(d.value) if isinstance(x, ast.Call)]
                views = [x for x in txt_calls if any(k.arg == "virtual" and isinstance(k.value, ast.Constant) and k.value.value is True for k in x.keywords)
                         or (isinstance(x.func, ast.Attribute) and x.func.attr in SELECTS | {"partition_tensors", "_select_tids", "select_tensors"})]
                copies = [x for x in txt_calls if isinstance(x.func, ast.Attribute) and x.func.attr in ("partition", "copy")]
                construct = f"{f.qualname}->{getattr(c.func, 'id', None) or c.func.attr}"
                if views or not copies:
                    r.bad(Finding("private-boundary", f.qualname,
                                  f"`{name}` (from `{src_of(d.value)[:60]}`) is compressed in place but is {'a virtual view' if views else 'not split off with partition() / copied'}: "
                                  "environments stored earlier share these tensor objects and are rewritten behind the caller's back",
                                  where=f"{f.module.relpath}:{c.lineno}", operand=name))
                else:
                    r.ok(construct, sample={"function": f.qualname, "boundary": f"{name} = {src_of(d.value)[:50]}", "compressed": "in place, on private copies"})
    r.floor(n, 2, "in-place boundary compressions")
    return r


def rule_env_scope(ctx):
    r = RuleResult(
        "env-scope",
        "a routine that stores boundary environments as `env = tn.select(boundary); env.exponent = tn.exponent - <snapshot>` attributes to "
        "each environment every norm that was stripped into tn.exponent since the snapshot: inside such a routine the norms may only be "
        "stripped from the contracted boundary (contract_boundary_from_(..., equalize_norms=...) or a selection of the boundary whose "
        "exponent is folded back) — equalizing the *whole* working network also strips the rows / planes that are not part of the "
        "environment, which then no longer combines with the rest of the lattice to the value of the whole",
    )
    n = 0
    for modname in ("quimb.tensor.tn2d.core", "quimb.tensor.tn3d.core"):
        m = ctx.prog.modules.get(modname)
        if m is None:
            continue
        for f in m.all_functions:
            if f.parent is not None or f.is_alias or isinstance(f.node, ast.Lambda):
                continue
            # env.exponent = <work>.exponent - <snapshot>
            works = set()
            for a in ast.walk(f.node):
                if isinstance(a, ast.Assign) and any(isinstance(t, ast.Attribute) and t.attr == "exponent" for t in a.targets) and isinstance(a.value, ast.BinOp) and isinstance(a.value.op, ast.Sub) \
                        and isinstance(a.value.left, ast.Attribute) and a.value.left.attr == "exponent" and isinstance(a.value.left.value, ast.Name):
                    works.add(a.value.left.value.id)
            if not works:
                continue
            n += 1
            whole = [c for c in ast.walk(f.node) if isinstance(c, ast.Call) and isinstance(c.func, ast.Attribute) and c.func.attr in ("equalize_norms_", "equalize_norms", "strip_exponent")
                     and isinstance(c.func.value, ast.Name) and c.func.value.id in works]
            q = f.qualname
            if whole:
                c = whole[0]
                r.bad(Finding("env-scope", q, f"`{src_of(c)[:50]}` (line {c.lineno}) strips the norms of the whole working network `{c.func.value.id}` while the environments stored by this "
                                              "routine are charged everything that enters its exponent: norms of rows / planes outside an environment end up in that environment",
                              where=f"{m.relpath}:{c.lineno}", operand="whole-network"))
            else:
                r.ok(q, sample={"producer": q, "working network": sorted(works), "norms stripped from": "the boundary only"})
    r.floor(n, 1, "environment producers that charge the accrued exponent to the environment")
    return r


def rule_stored_env_private(ctx):
    r = RuleResult(
        "stored-env-private",
        "an environment producer keeps contracting its working network in place after it has stored an environment selected from it; "
        "boundary modes that insert projectors (or otherwise rewrite tensors) relabel the boundary tensors *in place*, so a stored "
        "selection must be a private copy (select*(..., virtual=False) / .copy()) — a virtual view shares the tensor objects and the "
        "stored environment no longer combines with the rest of the lattice to the value of the whole",
    )
    n = 0
    for modname in MODULES:
        mod = ctx.prog.modules.get(modname)
        if mod is None:
            continue
        for f in mod.all_functions:
            if f.is_alias or isinstance(f.node, ast.Lambda) or f.parent is not None:
                continue
            walk = list(_own_walk(f.node))
            # working networks: receive an in-place boundary contraction inside a loop
            loops = [x for x in walk if isinstance(x, (ast.For, ast.While))]
            working = set()
            for lp in loops:
                for x in ast.walk(lp):
                    if isinstance(x, ast.Call) and isinstance(x.func, ast.Attribute) and isinstance(x.func.value, ast.Name) and x.func.attr.endswith("_") \
                            and x.func.attr.startswith(("contract_boundary", "_contract_boundary", "contract_")):
                        working.add(x.func.value.id)
                    if isinstance(x, ast.AugAssign) and isinstance(x.op, ast.BitXor) and isinstance(x.target, ast.Name):
                        working.add(x.target.id)
            if not working:
                continue
            ldefs = {}
            for a in walk:
                if isinstance(a, ast.Assign) and len(a.targets) == 1 and isinstance(a.targets[0], ast.Name):
                    ldefs.setdefault(a.targets[0].id, []).append(a.value)
            for a in walk:
                if not (isinstance(a, ast.Assign) and len(a.targets) == 1 and isinstance(a.targets[0], ast.Subscript) and isinstance(a.targets[0].value, ast.Name)):
                    continue
                vals = [a.value]
                if isinstance(a.value, ast.Name):
                    vals = ldefs.get(a.value.id, [])
                for v in vals:
                    sel = v
                    copied = False
                    if isinstance(sel, ast.Call) and isinstance(sel.func, ast.Attribute) and sel.func.attr == "copy":
                        copied = True
                        sel = sel.func.value
                    if not (isinstance(sel, ast.Call) and isinstance(sel.func, ast.Attribute) and sel.func.attr in SELECTS | {"_select_tids"}
                            and isinstance(sel.func.value, ast.Name) and sel.func.value.id in working):
                        continue
                    n += 1
                    virt = next((k.value for k in sel.keywords if k.arg == "virtual"), None)
                    private = copied or (isinstance(virt, ast.Constant) and virt.value is False)
                    q = f"{f.qualname}:{a.targets[0].value.id}[{src_of(a.targets[0].slice)[:30]}]"
                    if virt is not None and not isinstance(virt, ast.Constant) and not copied:
                        r.skip(q, f"`virtual={src_of(virt)[:30]}` is a run-time value")
                        continue
                    if private:
                        r.ok(q, sample={"producer": f.qualname, "stored": src_of(v)[:60], "private": True})
                    else:
                        r.bad(Finding("stored-env-private", f.qualname,
                                      f"stores `{src_of(v)[:60]}` — a virtual view of the working network `{sel.func.value.id}` that is contracted further in place: "
                                      "a boundary mode that relabels tensors in place (projector insertion) leaves the stored environment with dangling indices",
                                      where=f"{mod.relpath}:{a.lineno}", operand=f"store@{src_of(a.targets[0].slice)[:30]}"))
    r.floor(n, 4, "environments stored from a working network that is contracted further")
    return r


def rule_gauge_double_count(ctx):
    r = RuleResult(
        "gauge-double-count",
        "typestate of a network whose simple-update gauges were extracted: after `X.gauge_simple_insert(G)` the gauges G are absorbed "
        "in X's tensors, so X — or a copy of X taken after that point — may not be used in a call that is *also* handed `gauges=G` "
        "(projectors / environments would be computed with the gauges applied twice); the copy used for such a call is taken while "
        "the gauges are still extracted",
    )
    n = 0
    for mod in ctx.prog.modules.values():
        if not mod.name.startswith("quimb.tensor"):
            continue
        for f in mod.all_functions:
            if f.is_alias or isinstance(f.node, ast.Lambda) or f.parent is not None:
                continue
            ins = [c for c in _own_walk(f.node) if isinstance(c, ast.Call) and isinstance(c.func, ast.Attribute) and c.func.attr == "gauge_simple_insert"
                   and isinstance(c.func.value, ast.Name) and c.args and isinstance(c.args[0], ast.Name)]
            if not ins:
                continue
            users = [c for c in _own_walk(f.node) if isinstance(c, ast.Call) and any(k.arg == "gauges" and isinstance(k.value, ast.Name) for k in c.keywords)
                     and isinstance(c.func, ast.Attribute) and isinstance(c.func.value, ast.Name)]
            if not users:
                continue
            bad = []
            seen = [0]

            guard_of = {}
            cur_guard = [None]

            def scan_expr(node, st):
                for c in ast.walk(node):
                    if not (isinstance(c, ast.Call) and isinstance(c.func, ast.Attribute) and isinstance(c.func.value, ast.Name)):
                        continue
                    recv = c.func.value.id
                    g = next((k.value.id for k in c.keywords if k.arg == "gauges" and isinstance(k.value, ast.Name)), None)
                    if g is not None and c.func.attr != "gauge_simple_insert":
                        seen[0] += 1
                        if (recv, g) in st:
                            bad.append((c, recv, g))
                for c in ast.walk(node):
                    if isinstance(c, ast.Call) and isinstance(c.func, ast.Attribute) and c.func.attr == "gauge_simple_insert" and isinstance(c.func.value, ast.Name) \
                            and c.args and isinstance(c.args[0], ast.Name):
                        st.add((c.func.value.id, c.args[0].id))
                        guard_of[(c.func.value.id, c.args[0].id)] = cur_guard[0]
                    # extracting again (gauge_all_simple_(gauges=G) / gauge_simple_remove) returns to the extracted state
                    if isinstance(c, ast.Call) and isinstance(c.func, ast.Attribute) and c.func.attr in ("gauge_simple_remove",) and isinstance(c.func.value, ast.Name):
                        for k in list(st):
                            if k[0] == c.func.value.id:
                                st.discard(k)

            def run(stmts, st):
                st = set(st)
                for s in stmts:
                    if isinstance(s, (ast.Return, ast.Raise, ast.Continue, ast.Break)):
                        if isinstance(s, ast.Return) and s.value is not None:
                            scan_expr(s.value, st)
                        return None
                    if isinstance(s, ast.If):
                        scan_expr(s.test, st)
                        td, outer_guard = ast.dump(s.test), cur_guard[0]
                        cur_guard[0] = td
                        a = run(s.body, st)
                        cur_guard[0] = outer_guard
                        b = run(s.orelse, st)
                        if a is None and b is None:
                            return None
                        if a is not None and b is not None:
                            # correlated branches: what was inserted under this very test and is removed again under it is gone
                            b = {k for k in b if not (k not in a and guard_of.get(k) == td)}
                        st = (a or set()) | (b or set())
                    elif isinstance(s, (ast.For, ast.While)):
                        a = run(s.body, st)
                        st = st | (a or set())
                        a = run(s.body, st)  # second pass: state carried round the loop
                        st = st | (a or set())
                    elif isinstance(s, ast.With):
                        # `with X.gauge_simple_temp(G)` re-extracts on exit: handled as neutral
                        a = run(s.body, st)
                        if a is None:
                            return None
                        st = a
                    elif isinstance(s, ast.Try):
                        a = run(s.body, st)
                        st = st | (a or set())
                        for h in s.handlers:
                            st = st | (run(h.body, st) or set())
                    elif isinstance(s, ast.Assign):
                        scan_expr(s.value, st)
                        for t in s.targets:
                            if isinstance(t, ast.Name):
                                # a copy / alias taken now inherits the state of its source
                                src = s.value
                                if isinstance(src, ast.Call) and isinstance(src.func, ast.Attribute) and src.func.attr == "copy" and isinstance(src.func.value, ast.Name):
                                    src = src.func.value
                                for k in list(st):
                                    if k[0] == t.id:
                                        st.discard(k)
                                if isinstance(src, ast.Name):
                                    for k in list(st):
                                        if k[0] == src.id:
                                            st.add((t.id, k[1]))
                                # a fresh gauges container resets what was inserted under that name
                                for k in list(st):
                                    if k[1] == t.id:
                                        st.discard(k)
                    elif isinstance(s, (ast.FunctionDef, ast.ClassDef)):
                        continue
                    else:
                        scan_expr(s, st)
                return st

            run(f.node.body, set())
            n += 1
            if bad:
                c, recv, g = bad[0]
                r.bad(Finding("gauge-double-count", f.qualname,
                              f"`{src_of(c)[:60]}` (line {c.lineno}) uses `{recv}` together with gauges=`{g}` although `{g}` was already inserted into "
                              f"`{recv}` (or into the network it was copied from): the gauges are counted twice",
                              where=f"{mod.relpath}:{c.lineno}", operand=f"{recv}:{g}"))
            else:
                r.ok(f.qualname, sample={"function": f.qualname, "gauged calls checked": seen[0], "inserts": len(ins)})
    r.floor(n, 2, "functions that both insert gauges and hand them on")
    return r
