"""C18: Evolution dispatches on method x state kind, or rejects."""

import ast

from ..framework import RuleResult, Finding
from ..model import dotted, src_of, const_value
from .. import AnalysisError

EVO = "quimb.evo"


def _mentions_isdop(node):
    return any(isinstance(n, ast.Attribute) and n.attr == "_isdop" for n in ast.walk(node))


def _method_eq_literals(test):
    """string literals L for which the test contains `method == L` (structural, not textual)."""
    out = []
    for c in ast.walk(test):
        if isinstance(c, ast.Compare) and len(c.ops) == 1 and isinstance(c.ops[0], ast.Eq):
            l, r = c.left, c.comparators[0]
            if isinstance(l, ast.Name) and l.id == "method" and isinstance(r, ast.Constant) and isinstance(r.value, str):
                out.append(r.value)
            elif isinstance(r, ast.Name) and r.id == "method" and isinstance(l, ast.Constant) and isinstance(l.value, str):
                out.append(l.value)
    return out


def _method_branches(init):
    """[(label, body)] of the if/elif chain testing `method == "<lit>"`."""
    out = []
    for st in init.node.body:
        if isinstance(st, ast.If) and _method_eq_literals(st.test) and not any(isinstance(x, ast.Raise) for x in st.body):
            cur = st
            while True:
                lits = _method_eq_literals(cur.test)
                out.append(("/".join(lits) or src_of(cur.test), cur.body, cur))
                if len(cur.orelse) == 1 and isinstance(cur.orelse[0], ast.If):
                    cur = cur.orelse[0]
                else:
                    out.append(("<else>", cur.orelse, cur))
                    break
    return out


def _rejects(body, pred):
    """does the branch body contain an `if`/`elif` whose test satisfies pred and whose body raises?"""
    for st in body:
        for n in ast.walk(st):
            if isinstance(n, ast.If) and pred(n.test) and any(isinstance(x, ast.Raise) for x in n.body):
                return True
    return False


def _tests_linop(test):
    return any(
        isinstance(c, ast.Call) and isinstance(c.func, ast.Name) and c.func.id == "isinstance" and len(c.args) == 2
        and isinstance(c.args[0], ast.Name) and c.args[0].id == "ham" and "LinearOperator" in src_of(c.args[1])
        for c in ast.walk(test)
    )


def _tests_timedep(test):
    return any(isinstance(a, ast.Attribute) and a.attr == "_timedep" for a in ast.walk(test))


def rule_kind_dispatch(ctx):
    r = RuleResult(
        "kind-dispatch",
        "in Evolution.__init__, for every admitted `method` the update routine installed in _update_method is "
        "chosen under a test of self._isdop (in the branch or in the set-up helper it calls, which must read "
        "_isdop where it installs/derives the routine), or the branch rejects the unsupported state kind; an "
        "unknown method ends in raise",
    )
    cls = ctx.prog.cls(EVO, "Evolution")
    init = cls.methods.get("__init__")
    if init is None:
        raise AnalysisError("Evolution.__init__ not found")
    branches = _method_branches(init)
    labels = [b[0] for b in branches]
    if not {"solve", "integrate", "expm"} <= set(labels):
        raise AnalysisError(f"Evolution.__init__ method dispatch not recognised: {labels}")
    where = f"{init.module.relpath}:{init.lineno}"
    for label, body, node in branches:
        if label == "<else>":
            if any(isinstance(s, ast.Raise) for s in body):
                r.ok("Evolution.__init__[else]", sample={"method": "unknown", "action": "raise"})
            else:
                r.bad(Finding("kind-dispatch", "Evolution.__init__", "an unknown method is not rejected", where=where, operand="else"))
            continue
        # direct installs in the branch
        installs = []
        helpers = []
        for s in body:
            for n in ast.walk(s):
                if isinstance(n, ast.Assign) and any(isinstance(t, ast.Attribute) and t.attr == "_update_method" for t in n.targets):
                    installs.append((n, s))
                if isinstance(n, ast.Call) and isinstance(n.func, ast.Attribute) and isinstance(n.func.value, ast.Name) and n.func.value.id == "self":
                    h = cls.find(n.func.attr)
                    if h is not None and not h.is_alias:
                        helpers.append(h)
        ok = True
        why = ""
        evidence = []
        for n, top in installs:
            # the install must sit under an `if` that mentions _isdop, or the
            # branch must have raised for density operators before it
            guarded = isinstance(top, ast.If) and _mentions_isdop(top.test)
            if guarded:
                arms = []
                for arm in (top.body, top.orelse):
                    arms.append({src_of(x.value) for s2 in arm for x in ast.walk(s2) if isinstance(x, ast.Assign) and any(isinstance(t, ast.Attribute) and t.attr == "_update_method" for t in x.targets)})
                if arms[0] and arms[1] and arms[0] == arms[1]:
                    guarded = False  # the test does not change what is installed
            rejected = any(
                isinstance(s2, ast.If) and _mentions_isdop(s2.test) and any(isinstance(x, ast.Raise) for x in ast.walk(s2))
                for s2 in body[: body.index(top)]
            )
            if guarded or rejected:
                evidence.append(f"{src_of(n)[:60]} under _isdop test")
            else:
                ok = False
                why = f"installs `{src_of(n.value)}` regardless of self._isdop (a density operator would be evolved with it)"
        for h in helpers:
            inst = [n for n in ast.walk(h.node) if isinstance(n, ast.Assign) and any(isinstance(t, ast.Attribute) and t.attr == "_update_method" for t in n.targets)]
            if not inst:
                continue
            if _mentions_isdop(h.node):
                evidence.append(f"{h.qualname} consults _isdop")
            else:
                ok = False
                why = f"helper {h.qualname} installs the update routine without consulting self._isdop"
        if not installs and not any(
            any(isinstance(n, ast.Assign) and any(isinstance(t, ast.Attribute) and t.attr == "_update_method" for t in n.targets) for n in ast.walk(h.node))
            for h in helpers
        ):
            ok = False
            why = "no update routine is installed on this branch"
        construct = f"Evolution.__init__[{label}]"
        if ok:
            r.ok(construct, sample={"method": label, "kind handling": evidence})
        else:
            r.bad(Finding("kind-dispatch", "Evolution.__init__", f"method `{label}`: {why}", where=where, operand=label))
        # unsupported Hamiltonian kinds rejected (reference siblings)
        if label in ("solve", "expm"):
            for kind, pred in (("LinearOperator", _tests_linop), ("time-dependent", _tests_timedep)):
                if _rejects(body, pred):
                    r.ok(f"{construct}[{kind} rejected]")
                else:
                    r.bad(Finding("kind-dispatch", "Evolution.__init__", f"method `{label}` does not reject a {kind} Hamiltonian", where=where, operand=f"{label}:{kind}"))
    # every *_ket update routine that exists must have a _dop twin or be installed under a guard (checked above)
    return r


def rule_update_order(ctx):
    r = RuleResult(
        "callback-order / time-origin",
        "in every Evolution._update_to_* routine that assigns the state: `_pt` and `_t` are assigned before the "
        "step callback runs and the callback receives self._pt; a routine using the eigenbasis state pe0 "
        "measures time from t0, one propagating the running state _pt measures it from the current time and "
        "reads that time before overwriting it",
    )
    cls = ctx.prog.cls(EVO, "Evolution")
    n = 0
    for name, f in sorted(cls.methods.items()):
        if not name.startswith("_update_to_") or f.is_alias:
            continue
        body = f.node.body
        assigns_pt = [s for s in ast.walk(f.node) if isinstance(s, ast.Assign) and any(isinstance(t, ast.Attribute) and t.attr == "_pt" for t in s.targets)]
        if not assigns_pt:
            continue
        n += 1
        where = f"{f.module.relpath}:{f.lineno}"
        assigns_t = [s for s in ast.walk(f.node) if isinstance(s, ast.Assign) and any(isinstance(t, ast.Attribute) and t.attr == "_t" for t in s.targets)]
        cbs = [c for c in ast.walk(f.node) if isinstance(c, ast.Call) and isinstance(c.func, ast.Attribute) and c.func.attr == "_step_callback"]
        construct = f"Evolution.{name}"
        problems = []
        # (whether the clock self._t is advanced by the routine itself or by every caller is decided by evo-clock)
        if not cbs:
            problems.append("never runs the step callback")
        for c in cbs:
            if assigns_pt and c.lineno < max(s.lineno for s in assigns_pt):
                problems.append("callback runs before self._pt is assigned")
            if assigns_t and c.lineno < max(s.lineno for s in assigns_t):
                problems.append("callback runs before self._t is assigned")
            args = [src_of(a) for a in c.args]
            if len(args) < 2 or args[1] != "self._pt" or args[0] != "t":
                problems.append(f"callback receives {args}, expected (t, self._pt, ...)")
        # structural: subtractions `t - self.<origin>` (followed through locals), loads of self.pe0 / self._pt
        tparam = [a.arg for a in f.node.args.args if a.arg != "self"][:1]
        tname = tparam[0] if tparam else "t"
        origins = set()
        for b in ast.walk(f.node):
            if isinstance(b, ast.BinOp) and isinstance(b.op, ast.Sub) and isinstance(b.left, ast.Name) and b.left.id == tname \
                    and isinstance(b.right, ast.Attribute) and isinstance(b.right.value, ast.Name) and b.right.value.id == "self":
                origins.add(b.right.attr)
        uses_pe0 = any(isinstance(a, ast.Attribute) and a.attr == "pe0" and isinstance(a.ctx, ast.Load) for a in ast.walk(f.node))
        d_t0 = "t0" in origins
        d_t = bool(origins & {"t", "_t"})
        if uses_pe0 and (not d_t0 or d_t):
            problems.append("uses the initial eigenbasis state pe0 but does not measure time from t0")
        if not uses_pe0:
            if d_t0:
                problems.append("propagates the running state but measures time from t0")
            elif not d_t:
                problems.append("time increment not recognised")
            else:
                # the read of the current time must precede the write of _t
                rd = min(n_.lineno for n_ in ast.walk(f.node) if isinstance(n_, ast.Attribute) and n_.attr in ("t", "_t") and isinstance(n_.ctx, ast.Load))
                if assigns_t and rd > min(s.lineno for s in assigns_t):
                    problems.append("current time is overwritten before the increment is computed")
        if problems:
            for p in problems:
                r.bad(Finding("callback-order", construct, p, where=where, operand=p[:40]))
        else:
            r.ok(construct, sample={"routine": name, "origin": "t0 with pe0" if uses_pe0 else "current time with _pt"})
    r.floor(n, 3, "state-assigning update routines")
    return r


# ---------------------------------------------------------------------------
# right-hand sides, integrator set-up, accessors
# ---------------------------------------------------------------------------

def _inner_function(f):
    for st in f.node.body:
        if isinstance(st, ast.FunctionDef):
            inner = st
    rets = [st for st in f.node.body if isinstance(st, ast.Return)]
    for st in f.node.body:
        if isinstance(st, ast.FunctionDef) and rets and isinstance(rets[-1].value, ast.Name) and rets[-1].value.id == st.name:
            return st
    return None


def _has_minus_i(node):
    """a factor -1j (USub on an imaginary literal, or a negative imaginary constant) multiplies the returned value."""
    for x in ast.walk(node):
        if isinstance(x, ast.UnaryOp) and isinstance(x.op, ast.USub) and isinstance(x.operand, ast.Constant) and isinstance(x.operand.value, complex) and x.operand.value.imag > 0:
            return True
    return False


def _has_plus_i_only(node):
    cs = [x for x in ast.walk(node) if isinstance(x, ast.Constant) and isinstance(x.value, complex)]
    return bool(cs) and not _has_minus_i(node)


def rule_evo_eq_table(ctx):
    r = RuleResult(
        "evo-eq-table",
        "the table of right-hand sides _calc_evo_eq: every closed-system combination (ket/dop x dense/sparse x "
        "time-independent/-dependent) has an entry; the entry's kind agrees with its key (a ket key never maps to a "
        "density-operator equation, a time-dependent key maps to an equation that evaluates ham(t) at the integrator's "
        "time argument and a time-independent one never calls ham); every Schroedinger right-hand side carries the factor "
        "-i, and the density-operator ones form hrho - hrho^dagger",
    )
    f = ctx.prog.func(EVO, "_calc_evo_eq")
    if f is None:
        raise AnalysisError("_calc_evo_eq not found")
    table = None
    for n in ast.walk(f.node):
        if isinstance(n, ast.Dict) and n.keys and all(isinstance(k, ast.Tuple) for k in n.keys):
            table = n
    if table is None:
        raise AnalysisError("_calc_evo_eq: table not found")
    where = f"{f.module.relpath}:{f.lineno}"
    entries = {}
    for k, v in zip(table.keys, table.values):
        key = const_value(k, None)
        if key is None or not isinstance(v, ast.Name):
            raise AnalysisError(f"_calc_evo_eq: entry {src_of(k)} not understood")
        entries[tuple(int(x) for x in key)] = v.id
    # argument order of the lookup must be the order of the parameters the keys are written in
    look = [n for n in ast.walk(f.node) if isinstance(n, ast.Subscript) and isinstance(n.slice, ast.Tuple)]
    if look:
        names = [src_of(e) for e in look[-1].slice.elts]
        if names != ["isdop", "issparse", "isopen", "timedep"]:
            r.bad(Finding("evo-eq-table", "_calc_evo_eq", f"table is looked up with {names}, but its keys are written as (isdop, issparse, isopen, timedep)", where=where, operand="lookup-order"))
        else:
            r.ok("_calc_evo_eq[lookup]", nontrivial=False)
    for isdop in (0, 1):
        for sp in (0, 1):
            for td in (0, 1):
                key = (isdop, sp, 0, td)
                name = entries.get(key)
                construct = f"_calc_evo_eq{key}"
                if name is None:
                    r.bad(Finding("evo-eq-table", "_calc_evo_eq", f"no right-hand side for closed-system combination {key}", where=where, operand=str(key)))
                    continue
                g = ctx.prog.func(EVO, name)
                if g is None:
                    raise AnalysisError(f"right-hand side {name} not found")
                inner = _inner_function(g)
                if inner is None:
                    raise AnalysisError(f"{name}: inner function not found")
                problems = []
                kind_dop = any(isinstance(x, ast.Call) and isinstance(x.func, ast.Attribute) and x.func.attr == "reshape" for x in ast.walk(inner)) or "dop" in name
                if bool(isdop) != bool(kind_dop):
                    problems.append(f"key says {'density operator' if isdop else 'ket'} but `{name}` is a {'density-operator' if kind_dop else 'ket'} equation")
                tpar = inner.args.args[0].arg if inner.args.args else "_"
                calls_ham = [x for x in ast.walk(inner) if isinstance(x, ast.Call) and isinstance(x.func, ast.Name) and x.func.id == "ham"]
                if td:
                    if not calls_ham:
                        problems.append(f"time-dependent key but `{name}` never evaluates ham(t)")
                    elif not all(len(c.args) == 1 and isinstance(c.args[0], ast.Name) and c.args[0].id == tpar for c in calls_ham):
                        problems.append(f"`{name}` evaluates the Hamiltonian at `{src_of(calls_ham[0].args[0]) if calls_ham[0].args else ''}`, not at the integrator's time argument `{tpar}`")
                else:
                    if calls_ham:
                        problems.append(f"time-independent key but `{name}` calls ham(...)")
                if "vectorized" not in name and "lindblad" not in name:
                    rets = [x for x in ast.walk(inner) if isinstance(x, ast.Return) and x.value is not None]
                    if not rets or not all(_has_minus_i(x.value) for x in rets):
                        problems.append(f"`{name}` does not multiply by -i (d/dt = -i H ...)")
                    if isdop:
                        comm = any(
                            isinstance(b, ast.BinOp) and isinstance(b.op, ast.Sub) and isinstance(b.left, ast.Name)
                            and b.left.id in {y.id for y in ast.walk(b.right) if isinstance(y, ast.Name)}
                            and any(isinstance(y, ast.Attribute) and y.attr in ("T", "H") for y in ast.walk(b.right))
                            for x in rets for b in ast.walk(x.value)
                        )
                        if not comm:
                            problems.append(f"`{name}` does not form hrho - hrho^dagger")
                if problems:
                    for pr in problems:
                        r.bad(Finding("evo-eq-table", "_calc_evo_eq", pr, where=f"{g.module.relpath}:{g.lineno}", operand=f"{key}:{pr[:30]}"))
                else:
                    r.ok(construct, sample={"key (isdop, sparse, open, timedep)": key, "equation": name})
    return r


def rule_integrator_setup(ctx):
    r = RuleResult(
        "integrator-setup",
        "Evolution._start_integrator chooses the right-hand side from the state kind (self._isdop), the sparsity of the "
        "Hamiltonian and self._timedep, in the table's argument order, and starts the integrator from the flattened "
        "initial state at the initial time self.t0; the `t` / `pt` accessors switch between integrator and stored state on "
        "the same test; update_to and at_times advance through the same installed routine; the integrator callbacks and the "
        "`pt` accessor rebuild the state with the same reshape",
    )
    cls = ctx.prog.cls(EVO, "Evolution")
    f = cls.methods.get("_start_integrator")
    if f is None:
        raise AnalysisError("Evolution._start_integrator not found")
    where = f"{f.module.relpath}:{f.lineno}"
    calls = [c for c in ast.walk(f.node) if isinstance(c, ast.Call) and isinstance(c.func, ast.Name) and c.func.id == "_calc_evo_eq"]
    if len(calls) != 1:
        raise AnalysisError("_start_integrator: call of _calc_evo_eq not found")
    c = calls[0]
    callee = ctx.prog.func(EVO, "_calc_evo_eq")
    pos = list(callee.posparams)
    bound = {}
    for k, a in enumerate(c.args):
        if k < len(pos):
            bound[pos[k]] = a
    for kw in c.keywords:
        if kw.arg:
            bound[kw.arg] = kw.value
    want = {"isdop": lambda e: any(isinstance(x, ast.Attribute) and x.attr == "_isdop" for x in ast.walk(e)),
            "issparse": lambda e: any(isinstance(x, ast.Call) and (getattr(x.func, "id", None) or getattr(x.func, "attr", None)) == "issparse" for x in ast.walk(e)),
            "timedep": lambda e: any(isinstance(x, ast.Attribute) and x.attr == "_timedep" for x in ast.walk(e))}
    for pname, pred in want.items():
        e = bound.get(pname)
        if e is not None and pred(e):
            r.ok(f"_start_integrator[{pname}]", sample={"argument": pname, "value": src_of(e)})
        else:
            r.bad(Finding("integrator-setup", "Evolution._start_integrator", f"_calc_evo_eq receives `{src_of(e) if e is not None else '<default>'}` for `{pname}`", where=where, operand=pname))
    iv = [c2 for c2 in ast.walk(f.node) if isinstance(c2, ast.Call) and isinstance(c2.func, ast.Attribute) and c2.func.attr == "set_initial_value"]
    if len(iv) != 1 or len(iv[0].args) < 2:
        raise AnalysisError("_start_integrator: set_initial_value(y0, t0) not found")
    y0, t0 = iv[0].args[0], iv[0].args[1]
    if isinstance(t0, ast.Attribute) and t0.attr == "t0" and src_of(t0.value) == "self":
        r.ok("_start_integrator[t0]", sample={"initial time": src_of(t0)})
    else:
        r.bad(Finding("integrator-setup", "Evolution._start_integrator", f"the integrator is started at time `{src_of(t0)}`, not at self.t0", where=where, operand="t0"))
    if any(isinstance(x, ast.Attribute) and x.attr == "_p0" for x in ast.walk(y0)):
        r.ok("_start_integrator[p0]", nontrivial=False)
    else:
        r.bad(Finding("integrator-setup", "Evolution._start_integrator", f"the integrator is started from `{src_of(y0)}`, not from the initial state", where=where, operand="p0"))
    # accessors
    tests = {}
    for name in ("t", "pt"):
        g = cls.methods.get(name)
        if g is None:
            raise AnalysisError(f"Evolution.{name} accessor not found")
        conds = [n.test for n in ast.walk(g.node) if isinstance(n, (ast.If, ast.IfExp))]
        tests[name] = sorted(src_of(t) for t in conds)
        reads_stepper = any(isinstance(x, ast.Attribute) and x.attr == "_stepper" for x in ast.walk(g.node))
        reads_store = any(isinstance(x, ast.Attribute) and x.attr == ("_t" if name == "t" else "_pt") for x in ast.walk(g.node))
        if reads_stepper and reads_store and conds:
            r.ok(f"Evolution.{name}", nontrivial=False)
        else:
            r.bad(Finding("integrator-setup", f"Evolution.{name}", "accessor does not switch between the integrator's and the stored value", where=f"{g.module.relpath}:{g.lineno}", operand="switch"))
    if tests["t"] == tests["pt"]:
        r.ok("Evolution.t/pt[same test]", sample={"switch": tests["t"]})
    else:
        r.bad(Finding("integrator-setup", "Evolution.t/pt", f"`t` switches on {tests['t']} but `pt` on {tests['pt']}: time and state can come from different sources", where=where, operand="accessor-tests"))
    # same reshape in pt accessor and integrator callbacks
    def reshapes(node):
        return {src_of(a) for x in ast.walk(node) if isinstance(x, ast.Call) and isinstance(x.func, ast.Attribute) and x.func.attr == "reshape" for a in [ast.Tuple(elts=list(x.args), ctx=ast.Load())]}
    setup = cls.methods.get("_setup_callback")
    rs_cb = reshapes(setup.node) if setup is not None else set()
    rs_pt = reshapes(cls.methods["pt"].node)
    if rs_cb and rs_pt and rs_cb == rs_pt:
        r.ok("Evolution.pt/callbacks[reshape]", sample={"reshape": sorted(rs_pt)})
    elif rs_cb and rs_pt:
        r.bad(Finding("integrator-setup", "Evolution._setup_callback", f"integrator callbacks rebuild the state with reshape{sorted(rs_cb)} but the `pt` accessor with reshape{sorted(rs_pt)}: callbacks do not see the reported state", where=f"{setup.module.relpath}:{setup.lineno}", operand="reshape"))
    # both drivers advance through the installed routine
    for name in ("update_to", "at_times"):
        g = cls.methods.get(name)
        if g is None:
            raise AnalysisError(f"Evolution.{name} not found")
        if any(isinstance(x, ast.Call) and isinstance(x.func, ast.Attribute) and x.func.attr == "_update_method" for x in ast.walk(g.node)):
            r.ok(f"Evolution.{name}[_update_method]", nontrivial=False)
        else:
            r.bad(Finding("integrator-setup", f"Evolution.{name}", "does not advance through self._update_method", where=f"{g.module.relpath}:{g.lineno}", operand="driver"))
    return r


# ---------------------------------------------------------------------------
# two-sided updates are congruences:  rho(t) = L rho0 L^dagger
# ---------------------------------------------------------------------------
# Symbolic words over matrix atoms with (transposed, conjugated) flags.  dag reverses a word and flips both flags, .T
# reverses and flips `transposed`, conj flips `conjugated`.  Atoms: the state (rho), propagators Exp(g) = expm(g*H)
# with a symbolic coefficient g in {+f, -f} (f = -i*dt is purely imaginary, so conj(f) = -f), eigenvector matrices V
# and diagonal phase factors D (for which transposition is the identity).  With H Hermitian, Exp(g)^dagger =
# Exp(conj g), which is the only simplification used; a bare transpose of Exp or V is irreducible (H^T != H and
# V^T != V^dagger for complex Hamiltonians).

class _Word(list):
    pass


def _adj(w, t=True, c=True):
    out = _Word()
    seq = reversed(w) if t else w
    for kind, name, tf, cf in seq:
        out.append((kind, name, tf ^ t, cf ^ c))
    return out


def _coef_sign(e, defs):
    """(+1 | -1, base) for the generator coefficient expression `g` in g * H: follows locals, understands unary minus and
    conj(); the base coefficient must be defined as (imaginary literal) * (real time difference)."""
    sign = 1
    for _ in range(8):
        if isinstance(e, ast.UnaryOp) and isinstance(e.op, ast.USub):
            sign, e = -sign, e.operand
        elif isinstance(e, ast.Call) and (getattr(e.func, "id", None) or getattr(e.func, "attr", None)) in ("conj", "conjugate"):
            sign = -sign  # conj of a purely imaginary coefficient
            e = e.args[0] if e.args else e.func.value
        else:
            break
    if isinstance(e, ast.Name) and e.id in defs:
        d = defs[e.id]
        imag = [x for x in ast.walk(d) if isinstance(x, ast.Constant) and isinstance(x.value, complex)]
        if len(imag) == 1 and imag[0].value.real == 0 and isinstance(d, ast.BinOp) and isinstance(d.op, ast.Mult):
            return sign, e.id
    return None


def _word_of(e, defs, depth=0):
    """symbolic word of a matrix-valued expression; None outside the fragment."""
    if depth > 12:
        return None
    if isinstance(e, ast.Name):
        if e.id in defs:
            return _word_of(defs[e.id], defs, depth + 1)
        return _Word([("M", e.id, False, False)])
    if isinstance(e, ast.Attribute):
        if e.attr in ("T",):
            w = _word_of(e.value, defs, depth + 1)
            return None if w is None else _adj(w, True, False)
        if e.attr in ("H",):
            w = _word_of(e.value, defs, depth + 1)
            return None if w is None else _adj(w, True, True)
        if isinstance(e.value, ast.Name) and e.value.id == "self":
            kind = {"_pt": "R", "pe0": "R", "_p0": "R"}.get(e.attr, "M")
            return _Word([(kind, e.attr, False, False)])
        return None
    if isinstance(e, ast.BinOp) and isinstance(e.op, ast.MatMult):
        a, b = _word_of(e.left, defs, depth + 1), _word_of(e.right, defs, depth + 1)
        return None if a is None or b is None else _Word(a + b)
    if isinstance(e, ast.Call):
        fn = getattr(e.func, "id", None) or getattr(e.func, "attr", None)
        if fn == "dag" and len(e.args) == 1:
            w = _word_of(e.args[0], defs, depth + 1)
            return None if w is None else _adj(w, True, True)
        if fn in ("conj", "conjugate"):
            w = _word_of(e.args[0] if e.args else e.func.value, defs, depth + 1)
            return None if w is None else _adj(w, False, True)
        if fn == "transpose" and (e.args or isinstance(e.func, ast.Attribute)):
            w = _word_of(e.args[0] if e.args and isinstance(e.func, ast.Name) else e.func.value, defs, depth + 1)
            return None if w is None else _adj(w, True, False)
        if fn in ("dot",) and len(e.args) == 2:
            a, b = _word_of(e.args[0], defs, depth + 1), _word_of(e.args[1], defs, depth + 1)
            return None if a is None or b is None else _Word(a + b)
        if fn in ("expm_multiply", "expm") and e.args:
            gen = e.args[0]
            cs = None
            if isinstance(gen, ast.BinOp) and isinstance(gen.op, ast.Mult):
                for coef, ham in ((gen.left, gen.right), (gen.right, gen.left)):
                    if isinstance(ham, ast.Attribute) and ham.attr in ("_ham", "ham") or (isinstance(ham, ast.Name) and ham.id.lower() in ("h", "ham")):
                        cs = _coef_sign(coef, defs)
            if cs is None:
                return None
            atom = _Word([("E", f"{'+' if cs[0] > 0 else '-'}{cs[1]}", False, False)])
            if fn == "expm":
                return atom
            y = _word_of(e.args[1], defs, depth + 1) if len(e.args) > 1 else None
            return None if y is None else _Word(atom + y)
        if fn == "ldmul" and len(e.args) == 2:
            d, x = _word_of(e.args[0], defs, depth + 1), _word_of(e.args[1], defs, depth + 1)
            if d is None or x is None or len(d) != 1:
                return None
            return _Word([("D",) + d[0][1:]] + x)
        if fn == "rdmul" and len(e.args) == 2:
            x, d = _word_of(e.args[0], defs, depth + 1), _word_of(e.args[1], defs, depth + 1)
            if d is None or x is None or len(d) != 1:
                return None
            return _Word(x + [("D",) + d[0][1:]])
        if fn == "explt":
            return _Word([("D", "explt", False, False)])
        if fn in ("qarray", "asarray", "ascontiguousarray") and len(e.args) == 1:
            return _word_of(e.args[0], defs, depth + 1)
        return None
    return None


def _normal(atom):
    kind, name, t, c = atom
    if kind == "D":
        return (kind, name, False, c)          # diagonal: transposition is the identity
    if kind == "E" and t and c:
        flipped = ("-" if name[0] == "+" else "+") + name[1:]
        return (kind, flipped, False, False)   # Exp(g)^dagger = Exp(conj g) = Exp(-g) for Hermitian H, imaginary g
    if kind == "R" and t and c:
        return (kind, name, False, False)      # a density operator is Hermitian
    return atom


def rule_congruence(ctx):
    r = RuleResult(
        "congruence-form",
        "symbolic algebra over (transpose, conjugate) flags: in every density-operator update routine the new state is "
        "L · rho · R with R equal to the adjoint of L as a word of propagators / eigenvector matrices / diagonal phases, "
        "using only H^dagger = H (so Exp(g)^dagger = Exp(-g) for the imaginary g = -i dt): a bare transpose, a conjugate "
        "without transpose, or a second propagator that is not the adjoint of the first leaves the word unbalanced — the "
        "update is then U rho conj(U) or similar, exact only for real Hamiltonians; ket routines apply a single word to the state",
    )
    cls = ctx.prog.cls(EVO, "Evolution")
    n = 0
    for name, f in sorted(cls.methods.items()):
        if not name.startswith("_update_to_") or f.is_alias:
            continue
        stores = [a for a in ast.walk(f.node) if isinstance(a, ast.Assign) and any(isinstance(t, ast.Attribute) and t.attr == "_pt" for t in a.targets)]
        if not stores:
            continue
        defs = {}
        for a in ast.walk(f.node):
            if isinstance(a, ast.Assign) and len(a.targets) == 1 and isinstance(a.targets[0], ast.Name):
                defs[a.targets[0].id] = a.value
            elif isinstance(a, ast.Assign) and len(a.targets) == 1 and isinstance(a.targets[0], ast.Tuple) and isinstance(a.value, ast.Attribute) and a.value.attr == "_ham":
                # evals, evecs = self._ham
                for k, el in enumerate(a.targets[0].elts):
                    if isinstance(el, ast.Name) and k == 1:
                        defs.pop(el.id, None)
        n += 1
        construct = f"Evolution.{name}"
        where = f"{f.module.relpath}:{stores[-1].lineno}"
        w = _word_of(stores[-1].value, defs)
        if w is None:
            r.skip(construct, f"update expression `{src_of(stores[-1].value)[:60]}` is outside the symbolic fragment")
            continue
        w = [_normal(a) for a in w]
        pos = [k for k, a in enumerate(w) if a[0] == "R"]
        if len(pos) != 1:
            r.skip(construct, f"{len(pos)} occurrences of the state in the update word")
            continue
        L, R = w[:pos[0]], w[pos[0] + 1:]
        is_dop = name.endswith("_dop")
        show = lambda word: " ".join(f"{a[1]}{'^T' if a[2] else ''}{'*' if a[3] else ''}" for a in word) or "1"
        if w[pos[0]][2] or w[pos[0]][3]:
            r.bad(Finding("congruence-form", construct, f"the state enters the update transposed / conjugated ({show([w[pos[0]]])})", where=where, operand="state"))
            continue
        if not is_dop:
            if R:
                r.bad(Finding("congruence-form", construct, f"a ket update multiplies the state from the right ({show(R)})", where=where, operand="right"))
            elif any(a[2] or a[3] for a in L if a[0] != "D"):
                r.bad(Finding("congruence-form", construct, f"the propagator is applied transposed / conjugated ({show(L)})", where=where, operand="left"))
            else:
                r.ok(construct, sample={"routine": name, "word": f"[{show(L)}] psi"})
            continue
        want = [_normal(a) for a in _adj(_Word(L), True, True)]
        if L and R == want:
            r.ok(construct, sample={"routine": name, "word": f"[{show(L)}] rho [{show(R)}]", "right = adjoint(left)": True})
        else:
            r.bad(Finding(
                "congruence-form", construct,
                f"the update is [{show(L)}] rho [{show(R)}], but the adjoint of the left factor is [{show(want)}]: the right factor is not "
                "L^dagger (for a complex Hermitian Hamiltonian this is not U rho U^dagger)", where=where, operand="right-factor"))
    r.floor(n, 4, "state-assigning update routines")
    return r


def rule_faithful_state(ctx):
    r = RuleResult(
        "faithful-state",
        "the state handed out for method='integrate' — by the `pt` accessor and to the integrator callbacks — is the "
        "integrator's vector after shape-only operations (reshape / qarray, followed through helper methods): no arithmetic "
        "(rescaling, normalisation, phase) is applied on the way, and accessor and callbacks use the same conversion",
    )
    cls = ctx.prog.cls(EVO, "Evolution")
    SHAPE_ONLY = {"reshape", "qarray", "asarray", "ravel", "view", "copy"}

    def conversion(fnode, expr, depth=0):
        """('ok', signature) if expr is the integrator vector under shape-only ops; ('arith', text) if arithmetic is involved."""
        if depth > 4:
            return ("unknown", src_of(expr))
        if isinstance(expr, ast.Call):
            fn = getattr(expr.func, "id", None) or getattr(expr.func, "attr", None)
            if fn in SHAPE_ONLY:
                inner = expr.args[0] if (isinstance(expr.func, ast.Name) and expr.args) else expr.func.value
                k, sig = conversion(fnode, inner, depth + 1)
                extra = "" if fn != "reshape" else "(" + ",".join(src_of(a) for a in expr.args) + ")"
                return (k, f"{fn}{extra}<{sig}")
            if isinstance(expr.func, ast.Attribute) and isinstance(expr.func.value, ast.Name) and expr.func.value.id == "self":
                h = cls.find(expr.func.attr)
                if h is not None and not h.is_alias:
                    rets = [x for x in ast.walk(h.node) if isinstance(x, ast.Return) and x.value is not None]
                    if len(rets) != 1:
                        return ("unknown", src_of(expr))
                    rv = rets[0].value
                    # any arithmetic on the returned variable inside the helper?
                    if isinstance(rv, ast.Name):
                        for x in ast.walk(h.node):
                            if isinstance(x, ast.AugAssign) and isinstance(x.target, ast.Name) and x.target.id == rv.id:
                                return ("arith", src_of(x))
                        ds = [x.value for x in ast.walk(h.node) if isinstance(x, ast.Assign) and isinstance(x.targets[0], ast.Name) and x.targets[0].id == rv.id]
                        if len(ds) != 1:
                            return ("arith" if len(ds) > 1 else "unknown", f"{rv.id} assigned {len(ds)} times in {h.name}")
                        return conversion(h.node, ds[0], depth + 1)
                    return conversion(h.node, rv, depth + 1)
            return ("unknown", src_of(expr))
        if isinstance(expr, (ast.BinOp, ast.UnaryOp)):
            return ("arith", src_of(expr))
        if isinstance(expr, ast.Name):
            return ("ok", "y")
        if isinstance(expr, ast.Attribute):
            return ("ok", "y") if expr.attr == "y" else ("unknown", src_of(expr))
        return ("unknown", src_of(expr))

    sigs = {}
    g = cls.methods.get("pt")
    if g is None:
        raise AnalysisError("Evolution.pt not found")
    for n_ in ast.walk(g.node):
        if isinstance(n_, ast.Return) and n_.value is not None and any(isinstance(x, ast.Attribute) and x.attr == "_stepper" for x in ast.walk(n_.value)):
            sigs["pt accessor"] = (conversion(g.node, n_.value), f"{g.module.relpath}:{n_.lineno}")
    setup = cls.methods.get("_setup_callback")
    if setup is not None:
        k = 0
        for inner in ast.walk(setup.node):
            if isinstance(inner, ast.FunctionDef) and inner.name == "int_step_callback":
                # the local converted from the integrator's raw vector (the callback's second parameter), whatever its name
                yparam = inner.args.args[1].arg if len(inner.args.args) > 1 else None
                for a in ast.walk(inner):
                    if isinstance(a, ast.Assign) and isinstance(a.targets[0], ast.Name) and yparam is not None \
                            and any(isinstance(y_, ast.Name) and y_.id == yparam for y_ in ast.walk(a.value)):
                        k += 1
                        sigs[f"integrator callback #{k}"] = (conversion(inner, a.value), f"{setup.module.relpath}:{a.lineno}")
    if "pt accessor" not in sigs or len(sigs) < 2:
        raise AnalysisError("faithful-state: state conversions of the integrate method not found")
    ref = sigs["pt accessor"][0]
    for who, ((kind, sig), where) in sigs.items():
        if kind == "arith":
            r.bad(Finding("faithful-state", "Evolution", f"{who}: the integrator's vector is modified arithmetically on the way out (`{sig}`): the reported state is not the evolved state", where=where, operand=who))
        elif kind == "unknown":
            r.skip(f"Evolution[{who}]", f"conversion `{sig}` not followed")
        elif (kind, sig) != ref and ref[0] == "ok":
            r.bad(Finding("faithful-state", "Evolution", f"{who} converts the integrator's vector as `{sig}` but the pt accessor as `{ref[1]}`: callbacks do not see the reported state", where=where, operand=who + ":sibling"))
        else:
            r.ok(f"Evolution[{who}]", sample={"where": who, "conversion": sig})
    return r



def rule_evo_clock(ctx):
    r = RuleResult(
        "evo-clock",
        "every site that advances the state through `self._update_method(x)` leaves the clock at x: either every update "
        "routine installed in that slot assigns `self._t = <its time parameter>` unconditionally (or is the integrator route, "
        "whose clock is the stepper's), or the calling method itself assigns `self._t = x` after the call on every path to its exit / next iteration",
    )
    cls = ctx.prog.cls(EVO, "Evolution")
    # routines installed in the slot
    slot = set()
    for f in cls.methods.values():
        if f.is_alias:
            continue
        for a in ast.walk(f.node):
            if isinstance(a, ast.Assign) and any(isinstance(t, ast.Attribute) and t.attr == "_update_method" for t in a.targets):
                if isinstance(a.value, ast.Attribute) and isinstance(a.value.value, ast.Name) and a.value.value.id == "self":
                    slot.add(a.value.attr)
    if len(slot) < 4:
        raise AnalysisError(f"evo-clock: only {len(slot)} routines found in the _update_method slot")

    def callee_side(name):
        g = cls.find(name)
        if g is None:
            return False
        tparam = [a.arg for a in g.node.args.args if a.arg != "self"][:1]
        for st in g.node.body:  # unconditional: a top-level statement of the routine
            if isinstance(st, ast.Assign) and any(isinstance(t, ast.Attribute) and t.attr == "_t" and isinstance(t.value, ast.Name) and t.value.id == "self" for t in st.targets) \
                    and isinstance(st.value, ast.Name) and tparam and st.value.id == tparam[0]:
                return True
        # integrator route: the clock is read from the stepper
        if any(isinstance(c, ast.Call) and isinstance(c.func, ast.Attribute) and c.func.attr == "integrate" for c in ast.walk(g.node)):
            return True
        return False

    lagging = sorted(n_ for n_ in slot if not callee_side(n_))
    n = 0

    def sets_clock(st, arg):
        return isinstance(st, ast.Assign) and any(isinstance(t, ast.Attribute) and t.attr == "_t" for t in st.targets) and src_of(st.value) == arg

    def after_ok(block, idx, arg, parents):
        """does every path from just after block[idx] reach a clock write before leaving the method / starting the next iteration?"""
        for st in block[idx + 1:]:
            if sets_clock(st, arg):
                return True
            if isinstance(st, (ast.Return, ast.Raise, ast.Continue, ast.Break)):
                return False
            if any(isinstance(y, (ast.Yield, ast.YieldFrom)) for y in ast.walk(st)):
                return False  # the state is handed out before the clock is set
        if not parents:
            return False
        pblock, pidx, pnode = parents[-1]
        if isinstance(pnode, (ast.For, ast.While)):
            return False  # next iteration (or loop exit) reached without a clock write
        return after_ok(pblock, pidx, arg, parents[:-1])

    def visit(block, parents, f):
        nonlocal n
        for i, st in enumerate(block):
            calls = [c for c in ast.walk(st) if isinstance(c, ast.Call) and isinstance(c.func, ast.Attribute) and c.func.attr == "_update_method"] \
                if not isinstance(st, (ast.If, ast.For, ast.While, ast.With, ast.Try)) else []
            for c in calls:
                n += 1
                construct = f"Evolution.{f.name}"
                arg = src_of(c.args[0]) if c.args else "?"
                if not lagging:
                    r.ok(construct, sample={"call": src_of(c), "clock": "advanced by every routine in the slot"})
                elif after_ok(block, i, arg, parents):
                    r.ok(construct, sample={"call": src_of(c), "clock": "advanced by the caller after the call"})
                else:
                    r.bad(Finding("evo-clock", construct,
                                  f"`{src_of(c)}` advances the state but the clock is not: {', '.join(lagging)} do(es) not assign self._t = <time> and this caller "
                                  f"does not assign self._t = {arg} before it returns / yields / iterates — the next relative step starts from a stale time",
                                  where=f"{f.module.relpath}:{c.lineno}", operand=f"{f.name}:{arg}"))
            for fld in ("body", "orelse", "finalbody"):
                sub = getattr(st, fld, None)
                if isinstance(sub, list) and sub and isinstance(sub[0], ast.stmt):
                    visit(sub, parents + [(block, i, st)], f)
            for h in getattr(st, "handlers", []) or []:
                visit(h.body, parents + [(block, i, st)], f)

    for name, f in sorted(cls.methods.items()):
        if f.is_alias or isinstance(f.node, ast.Lambda):
            continue
        visit(f.node.body, [], f)
    r.floor(n, 3, "calls through the _update_method slot")
    return r
