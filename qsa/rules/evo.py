"""C18: Evolution dispatches on method x state kind, or rejects."""

import ast

from ..framework import RuleResult, Finding
from ..model import dotted, src_of, const_value
from .. import AnalysisError

EVO = "quimb.evo"


def _mentions_isdop(node):
    return any(isinstance(n, ast.Attribute) and n.attr == "_isdop" for n in ast.walk(node))


def _method_branches(init):
    """[(label, body)] of the if/elif chain testing `method == "<lit>"`."""
    out = []
    for st in init.node.body:
        if isinstance(st, ast.If) and "method ==" in src_of(st.test):
            cur = st
            while True:
                lits = [c.value for c in ast.walk(cur.test) if isinstance(c, ast.Constant) and isinstance(c.value, str)]
                out.append(("/".join(lits) or src_of(cur.test), cur.body, cur))
                if len(cur.orelse) == 1 and isinstance(cur.orelse[0], ast.If):
                    cur = cur.orelse[0]
                else:
                    out.append(("<else>", cur.orelse, cur))
                    break
    return out


def rule_kind_dispatch(ctx):
    r = RuleResult(
        "kind-dispatch",
        "in Evolution.__init__, for every admitted `method` the update routine installed in _update_method is "
        "chosen under a test of self._isdop (in the branch or in the set-up helper it calls, which must read "
        "_isdop where it installs/derives the routine), or the branch rejects the unsupported state kind; an "
        "unknown method ends in raise",
    )
    cls = ctx.prog.cls(EVO, "Evolution")
    init = cls.methods.get("__init__")
    if init is None:
        raise AnalysisError("Evolution.__init__ not found")
    branches = _method_branches(init)
    labels = [b[0] for b in branches]
    if not {"solve", "integrate", "expm"} <= set(labels):
        raise AnalysisError(f"Evolution.__init__ method dispatch not recognised: {labels}")
    where = f"{init.module.relpath}:{init.lineno}"
    for label, body, node in branches:
        if label == "<else>":
            if any(isinstance(s, ast.Raise) for s in body):
                r.ok("Evolution.__init__[else]", sample={"method": "unknown", "action": "raise"})
            else:
                r.bad(Finding("kind-dispatch", "Evolution.__init__", "an unknown method is not rejected", where=where, operand="else"))
            continue
        # direct installs in the branch
        installs = []
        helpers = []
        for s in body:
            for n in ast.walk(s):
                if isinstance(n, ast.Assign) and any(isinstance(t, ast.Attribute) and t.attr == "_update_method" for t in n.targets):
                    installs.append((n, s))
                if isinstance(n, ast.Call) and isinstance(n.func, ast.Attribute) and isinstance(n.func.value, ast.Name) and n.func.value.id == "self":
                    h = cls.find(n.func.attr)
                    if h is not None and not h.is_alias:
                        helpers.append(h)
        ok = True
        why = ""
        evidence = []
        for n, top in installs:
            # the install must sit under an `if` that mentions _isdop, or the
            # branch must have raised for density operators before it
            guarded = isinstance(top, ast.If) and _mentions_isdop(top.test)
            if guarded:
                arms = []
                for arm in (top.body, top.orelse):
                    arms.append({src_of(x.value) for s2 in arm for x in ast.walk(s2) if isinstance(x, ast.Assign) and any(isinstance(t, ast.Attribute) and t.attr == "_update_method" for t in x.targets)})
                if arms[0] and arms[1] and arms[0] == arms[1]:
                    guarded = False  # the test does not change what is installed
            rejected = any(
                isinstance(s2, ast.If) and _mentions_isdop(s2.test) and any(isinstance(x, ast.Raise) for x in ast.walk(s2))
                for s2 in body[: body.index(top)]
            )
            if guarded or rejected:
                evidence.append(f"{src_of(n)[:60]} under _isdop test")
            else:
                ok = False
                why = f"installs `{src_of(n.value)}` regardless of self._isdop (a density operator would be evolved with it)"
        for h in helpers:
            inst = [n for n in ast.walk(h.node) if isinstance(n, ast.Assign) and any(isinstance(t, ast.Attribute) and t.attr == "_update_method" for t in n.targets)]
            if not inst:
                continue
            if _mentions_isdop(h.node):
                evidence.append(f"{h.qualname} consults _isdop")
            else:
                ok = False
                why = f"helper {h.qualname} installs the update routine without consulting self._isdop"
        if not installs and not any(
            any(isinstance(n, ast.Assign) and any(isinstance(t, ast.Attribute) and t.attr == "_update_method" for t in n.targets) for n in ast.walk(h.node))
            for h in helpers
        ):
            ok = False
            why = "no update routine is installed on this branch"
        construct = f"Evolution.__init__[{label}]"
        if ok:
            r.ok(construct, sample={"method": label, "kind handling": evidence})
        else:
            r.bad(Finding("kind-dispatch", "Evolution.__init__", f"method `{label}`: {why}", where=where, operand=label))
        # unsupported Hamiltonian kinds rejected (reference siblings)
        if label in ("solve", "expm"):
            s = "\n".join(src_of(x) for x in body)
            for kind, pat in (("LinearOperator", "isinstance(ham, LinearOperator)"), ("time-dependent", "self._timedep")):
                if pat in s and "raise TypeError" in s:
                    r.ok(f"{construct}[{kind} rejected]")
                else:
                    r.bad(Finding("kind-dispatch", "Evolution.__init__", f"method `{label}` does not reject a {kind} Hamiltonian", where=where, operand=f"{label}:{kind}"))
    # every *_ket update routine that exists must have a _dop twin or be installed under a guard (checked above)
    return r


def rule_update_order(ctx):
    r = RuleResult(
        "callback-order / time-origin",
        "in every Evolution._update_to_* routine that assigns the state: `_pt` and `_t` are assigned before the "
        "step callback runs and the callback receives self._pt; a routine using the eigenbasis state pe0 "
        "measures time from t0, one propagating the running state _pt measures it from the current time and "
        "reads that time before overwriting it",
    )
    cls = ctx.prog.cls(EVO, "Evolution")
    n = 0
    for name, f in sorted(cls.methods.items()):
        if not name.startswith("_update_to_") or f.is_alias:
            continue
        body = f.node.body
        assigns_pt = [s for s in ast.walk(f.node) if isinstance(s, ast.Assign) and any(isinstance(t, ast.Attribute) and t.attr == "_pt" for t in s.targets)]
        if not assigns_pt:
            continue
        n += 1
        where = f"{f.module.relpath}:{f.lineno}"
        assigns_t = [s for s in ast.walk(f.node) if isinstance(s, ast.Assign) and any(isinstance(t, ast.Attribute) and t.attr == "_t" for t in s.targets)]
        cbs = [c for c in ast.walk(f.node) if isinstance(c, ast.Call) and isinstance(c.func, ast.Attribute) and c.func.attr == "_step_callback"]
        construct = f"Evolution.{name}"
        problems = []
        if not assigns_t:
            problems.append("never assigns self._t")
        if not cbs:
            problems.append("never runs the step callback")
        for c in cbs:
            if assigns_pt and c.lineno < max(s.lineno for s in assigns_pt):
                problems.append("callback runs before self._pt is assigned")
            if assigns_t and c.lineno < max(s.lineno for s in assigns_t):
                problems.append("callback runs before self._t is assigned")
            args = [src_of(a) for a in c.args]
            if len(args) < 2 or args[1] != "self._pt" or args[0] != "t":
                problems.append(f"callback receives {args}, expected (t, self._pt, ...)")
        src = src_of(f.node)
        uses_pe0 = "self.pe0" in src
        d_t0 = "t - self.t0" in src
        d_t = "t - self.t)" in src or "t - self.t\n" in src or "t - self._t" in src
        if uses_pe0 and (not d_t0 or d_t):
            problems.append("uses the initial eigenbasis state pe0 but does not measure time from t0")
        if not uses_pe0:
            if d_t0:
                problems.append("propagates the running state but measures time from t0")
            elif not d_t:
                problems.append("time increment not recognised")
            else:
                # the read of the current time must precede the write of _t
                rd = min(n_.lineno for n_ in ast.walk(f.node) if isinstance(n_, ast.Attribute) and n_.attr in ("t", "_t") and isinstance(n_.ctx, ast.Load))
                if assigns_t and rd > min(s.lineno for s in assigns_t):
                    problems.append("current time is overwritten before the increment is computed")
        if problems:
            for p in problems:
                r.bad(Finding("callback-order", construct, p, where=where, operand=p[:40]))
        else:
            r.ok(construct, sample={"routine": name, "origin": "t0 with pe0" if uses_pe0 else "current time with _pt"})
    r.floor(n, 3, "state-assigning update routines")
    return r
