"""C01: the stored ``exponent`` of a network is part of its value.

exp-drop       a function that turns tensors *extracted* from a network into
               a non-network result must read that network's exponent (or
               delegate to something that receives the network itself)
exp-flow       tensor_contract delivers its ``exponent`` argument on both the
               stripped and the unstripped path
exp-combine    building a network from networks propagates / exposes exponent
linop-forward  every TNLinearOperator derived from another forwards its state
linop-conj     every evaluating method of TNLinearOperator honours is_conj
"""

import ast

from ..framework import RuleResult, Finding
from ..model import dotted, src_of, const_value
from .. import AnalysisError

NET, TEN, EXP, VAL = "NET", "TEN", "EXP", "VAL"

# tensor-level operations that turn tensors into numbers / arrays / contracted tensors
TENSOR_VALUE_METHODS = {"contract", "item", "norm", "to_dense", "to_qarray", "sum", "trace", "max", "min"}

# accessors that hand out tensors / arrays / sub-networks *without* the
# exponent of the network they are called on
EXTRACT_METHODS = {
    "partition_tensors", "select_tensors", "tensors_sorted", "_inds_get", "_tags_get", "_tids_get",
    "select", "select_any", "select_all", "select_neighbors", "select_local", "_select_tids",
    "_select_without_tids", "get_params", "__getitem__", "__iter__", "partition", "pop_tensor",
    "_pop_tensor", "values", "items", "isel", "as_network",
}
EXTRACT_ATTRS = {"tensors", "tensor_map", "arrays"}
# methods that return something which is not a value of the network at all
NEUTRAL_METHODS = {
    "outer_inds", "inner_inds", "ind_size", "ind_sizes", "max_bond", "num_tensors", "num_indices",
    "site_tag", "site_ind", "dtype", "dtype_name", "backend", "_get_tids_from_tags", "_get_tids_from_inds",
    "get_tree_span", "contraction_tree", "contraction_path", "contraction_info", "contraction_cost",
    "contraction_width", "get_symbol_map", "get_equation", "get_inputs_output_size_dict", "bond",
    "bond_size", "draw", "check", "site_tags", "geometry_hash", "outer_size", "isconnected", "istree",
    "gen_sites_present", "gen_tags_from_coos", "upper_ind", "lower_ind", "_get_string_between_tids",
    "ind_map", "tag_map", "tags", "all_inds", "nsites", "sites", "L", "Lx", "Ly", "Lz", "site_inds",
    "upper_inds", "lower_inds", "_outer_inds", "_inner_inds", "phys_dim", "exponent", "compute_contracted_inds",
    "_compute_tree_gauges", "get_path_between_tids", "compute_shortest_distances", "subgraphs", "isfermionic",
    "get_tid_neighbor_map", "maybe_convert_coo", "compute_hierarchical_ordering", "tids_are_connected",
    "shape", "max_bond_size", "bond_sizes", "count_canonized", "calc_current_orthog_center", "is_cyclic",
    "cyclic", "site_tag_id", "site_ind_id", "upper_ind_id", "lower_ind_id", "_site_tag_id", "_get_any_tensor",
    "iscomplex", "new",
}
# value sinks: calls that evaluate tensors to numbers / arrays / operators
SINKS = {"tensor_contract", "array_contract", "TNLinearOperator", "tensor_network_distance"}

# evaluators that are not methods of the TensorNetwork hierarchy: (module, qualname) -> carrier parameter
EXTRA_EVALUATORS = {
    ("quimb.tensor.tensor_core", "TNLinearOperator.__init__"): "tns",
    ("quimb.tensor.tensor_core", "maybe_unwrap"): "t",
    ("quimb.tensor.tn1d.core", "TNLinearOperator1D.__init__"): "tn",
}


class _Flags:
    """Flow-insensitive flag closure over one function body."""

    def __init__(self, fnode, carriers):
        self.fnode = fnode
        self.var = {c: {NET} for c in carriers}
        self.carriers = set(carriers)
        # networks whose exponent has been folded into their tensors
        # (`x.distribute_exponent()`): extraction from them is accounted
        self.distributed = set()
        for n in ast.walk(fnode):
            if isinstance(n, ast.Call) and isinstance(n.func, ast.Attribute) and n.func.attr in ("distribute_exponent",) and isinstance(n.func.value, ast.Name):
                self.distributed.add(n.func.value.id)

    def solve(self):
        for _ in range(6):
            changed = False
            for n in ast.walk(self.fnode):
                if isinstance(n, ast.Assign):
                    v = self.flags(n.value)
                    for t in n.targets:
                        changed |= self.bind(t, v, n.value)
                elif isinstance(n, ast.AugAssign) and isinstance(n.target, ast.Name):
                    v = self.flags(n.value)
                    changed |= self.bind(n.target, v | self.var.get(n.target.id, set()), None)
                elif isinstance(n, (ast.For, ast.comprehension)):
                    it = self.flags(n.iter)
                    el = self.elem(it)
                    changed |= self.bind(n.target, el, None)
                elif isinstance(n, ast.NamedExpr):
                    changed |= self.bind(n.target, self.flags(n.value), n.value)
                elif isinstance(n, ast.withitem) and n.optional_vars is not None:
                    changed |= self.bind(n.optional_vars, self.flags(n.context_expr), None)
            if not changed:
                break

    def elem(self, fl):
        if NET in fl:
            return (fl - {NET, EXP}) | {TEN}
        return set(fl)

    def bind(self, t, v, value_node):
        ch = False
        if isinstance(t, ast.Name):
            cur = self.var.setdefault(t.id, set())
            if not v <= cur:
                cur |= v
                ch = True
        elif isinstance(t, (ast.Tuple, ast.List)):
            # tuple result of partition_tensors: (network, tensors)
            if isinstance(value_node, ast.Call) and isinstance(value_node.func, ast.Attribute) and value_node.func.attr in ("partition_tensors", "partition") and len(t.elts) == 2:
                base = self.flags(value_node.func.value)
                if NET in base:
                    ch |= self.bind(t.elts[0], {NET}, None)
                    ch |= self.bind(t.elts[1], {TEN} if value_node.func.attr == "partition_tensors" else {NET}, None)
                    return ch
            if isinstance(value_node, ast.Tuple) and len(value_node.elts) == len(t.elts):
                for a, b in zip(t.elts, value_node.elts):
                    ch |= self.bind(a, self.flags(b), b)
                return ch
            for e in t.elts:
                ch |= self.bind(e.value if isinstance(e, ast.Starred) else e, self.elem(v), None)
        return ch

    def flags(self, node):
        if node is None:
            return set()
        if isinstance(node, ast.Name):
            return set(self.var.get(node.id, set()))
        if isinstance(node, ast.Constant):
            return set()
        if isinstance(node, ast.IfExp):
            return self.flags(node.body) | self.flags(node.orelse)
        if isinstance(node, ast.Attribute):
            base = self.flags(node.value)
            if NET in base:
                if node.attr == "exponent":
                    return {EXP}
                if node.attr in EXTRACT_ATTRS:
                    if isinstance(node.value, ast.Name) and node.value.id in self.distributed:
                        return {TEN, EXP}
                    return {TEN}
                if node.attr in NEUTRAL_METHODS or node.attr.startswith("_") and node.attr.endswith("_id"):
                    return set()
                if node.attr in ("H", "T"):
                    return {NET}
                return set()
            return base - {NET}
        if isinstance(node, ast.Subscript):
            base = self.flags(node.value)
            self.flags(node.slice)
            return self.elem(base)
        if isinstance(node, ast.Starred):
            return self.flags(node.value)
        if isinstance(node, ast.Call):
            return self.call(node)
        if isinstance(node, ast.Lambda):
            return set()
        out = set()
        for ch in ast.iter_child_nodes(node):
            if isinstance(ch, ast.expr):
                out |= self.flags(ch)
            elif isinstance(ch, ast.comprehension):
                pass
        if isinstance(node, (ast.ListComp, ast.SetComp, ast.GeneratorExp)):
            out = self.flags(node.elt)
        if isinstance(node, ast.DictComp):
            out = self.flags(node.value)
        if isinstance(node, ast.BinOp) and isinstance(node.op, (ast.BitOr, ast.BitAnd)):
            l_, r_ = self.flags(node.left), self.flags(node.right)
            if NET in l_ or NET in r_:
                return {NET}
        if isinstance(node, ast.BinOp) and isinstance(node.op, (ast.BitXor, ast.MatMult)):
            l_, r_ = self.flags(node.left), self.flags(node.right)
            if NET in l_:
                return {TEN, EXP, VAL}  # tn ^ tags / tn @ other: delegated to the dunder
            if TEN in (l_ | r_):
                return ((l_ | r_) - {NET}) | {VAL}
        return out - {NET}

    def call(self, node):
        fn = node.func
        argflags = [self.flags(a) for a in node.args] + [self.flags(k.value) for k in node.keywords]
        anynet = any(NET in f for f in argflags)
        union = set().union(*argflags) if argflags else set()
        fname = dotted(fn)
        if fname in ("tuple", "list", "iter", "sorted", "enumerate", "zip", "map", "filter", "reversed", "set",
                     "dict", "oset", "concat", "len", "next", "isinstance", "type", "id", "hash", "repr", "str"):
            # iterating a network hands out its tensors: extraction, not delegation
            out = set()
            for fl_ in argflags:
                out |= self.elem(fl_) if NET in fl_ else fl_
            return out
        if fname and fname.split(".")[-1] in SINKS and TEN in union:
            return (union - {NET}) | {VAL}
        if isinstance(fn, ast.Attribute):
            base = self.flags(fn.value)
            m = fn.attr
            if NET not in base and TEN in base and m in TENSOR_VALUE_METHODS:
                return (base | union) - {NET} | {VAL}
            if NET in base:
                if m in EXTRACT_METHODS:
                    return {TEN}
                if m in NEUTRAL_METHODS:
                    return set()
                if m == "copy" or m.endswith("_") or m in ("reindex", "retag", "conj", "view_as", "view_like", "astype"):
                    return {NET}
                # delegation: the callee receives the network itself; what it
                # returns (value or network) has accounted for the exponent
                return {TEN, EXP, VAL}
            if anynet:
                return (union - {NET}) | {TEN, EXP, VAL}
            return (base | union) - {NET}
        if anynet:
            # f(tn, ...): delegation to a function that sees the network
            return (union - {NET}) | {TEN, EXP, VAL}
        return union - {NET}


def _returns(fnode):
    for n in ast.walk(fnode):
        if isinstance(n, ast.Return) and n.value is not None:
            yield n
        elif isinstance(n, (ast.Yield,)) and n.value is not None:
            yield n


def _own_nodes(fnode):
    """Nodes of the function excluding nested function bodies."""
    stack = list(ast.iter_child_nodes(fnode))
    while stack:
        n = stack.pop()
        yield n
        if isinstance(n, (ast.FunctionDef, ast.AsyncFunctionDef, ast.Lambda, ast.ClassDef)):
            continue
        stack.extend(ast.iter_child_nodes(n))


# evaluators that by the repository's own convention return the mantissa only
EXP_DROP_EXEMPT = {
    "TensorNetwork.item": "raw accessor of the single remaining tensor: the repository's own callers and tests compute "
                          "`tn.item() * 10**tn.exponent` (tests/test_tensor/test_tn2d/test_core.py::test_contract_hotrg), "
                          "so folding the exponent in would double count — not one of C01's evaluation routes",
}


def rule_exp_drop(ctx, floor=12):
    r = RuleResult(
        "exp-drop",
        "in every method of the TensorNetwork hierarchy (plus the listed non-method evaluators): a returned "
        "value that is computed from tensors/arrays *extracted* from the network (tensors, tensor_map, "
        "partition_tensors, select*, [...], iteration) and is not itself the network nor the result of a call "
        "that receives the network, must be data-dependent on a read of that network's `.exponent`",
    )
    r.need_controls(1)
    root = ctx.eff.tn_root
    todo = []
    for f in ctx.prog.all_functions(nested=False):
        if f.is_alias or isinstance(f.node, ast.Lambda):
            continue
        if f.cls is not None and f.cls.isa(root) and not f.is_static and not f.is_classmethod and f.posparams:
            # whole-network evaluators: every method of the base class, and the
            # contraction routes that subclasses add
            if f.cls is root or f.name.lstrip("_").startswith("contract") or ctx.is_control(f):
                todo.append((f, f.posparams[0]))
        else:
            key = (f.module.name, f.qualname)
            if key in EXTRA_EVALUATORS:
                todo.append((f, EXTRA_EVALUATORS[key]))
    for key in EXTRA_EVALUATORS:
        ctx.prog.func(*key)  # anchors must exist
    evaluators = 0
    for f, carrier in todo:
        fl = _Flags(f.node, [carrier])
        fl.solve()
        is_init = f.name == "__init__"
        touched = False
        rets = []
        if is_init:
            # constructors "return" what they store on self
            for n in _own_nodes(f.node):
                if isinstance(n, ast.Assign):
                    for t in n.targets:
                        if isinstance(t, ast.Attribute) and isinstance(t.value, ast.Name) and t.value.id == f.posparams[0]:
                            rets.append((n, n.value, f"self.{t.attr} = ..."))
        else:
            for n in _own_nodes(f.node):
                if isinstance(n, ast.Return) and n.value is not None:
                    rets.append((n, n.value, "return " + src_of(n.value)[:50]))
        bad_here = []
        for n, val, text in rets:
            v = fl.flags(val)
            if VAL in v:
                touched = True
            if VAL in v and NET not in v and EXP not in v:
                bad_here.append((n, text))
        if is_init:
            # one obligation for the constructor: some stored state must carry EXP
            stores = [fl.flags(val) for n, val, text in rets]
            if any(TEN in s for s in stores) and f.cls is not None and not f.cls.isa(root):
                touched = True
                if any(EXP in s or NET in s for s in stores):
                    bad_here = []
                else:
                    bad_here = [(n, text) for (n, val, text), s in zip(rets, stores) if TEN in s][:1]
            else:
                bad_here = []
        # contradiction between the arms of `if V is None: ... else: ...` (a test on the accumulator itself): when one arm folds the
        # stored exponent into V, so must the other -- both describe "add the network's exponent to V, which may be absent"
        if touched and not is_init:
            for st in _own_nodes(f.node):
                if not (isinstance(st, ast.If) and st.orelse and isinstance(st.test, ast.Compare) and isinstance(st.test.left, ast.Name)
                        and len(st.test.ops) == 1 and isinstance(st.test.ops[0], (ast.Is, ast.IsNot)) and const_value(st.test.comparators[0], "x") is None):
                    continue
                V = st.test.left.id

                def folds(arm):
                    for a_ in arm:
                        for x in ast.walk(a_):
                            if isinstance(x, (ast.Assign, ast.AugAssign)):
                                tg = x.targets if isinstance(x, ast.Assign) else [x.target]
                                if any(isinstance(t_, ast.Name) and t_.id == V for t_ in tg) and any(
                                        isinstance(y, ast.Attribute) and y.attr == "exponent" and isinstance(y.value, ast.Name) and y.value.id in fl.carriers | {k for k, v_ in fl.var.items() if NET in v_}
                                        for y in ast.walk(x.value)):
                                    return True
                    return False

                fb, fo = folds(st.body), folds(st.orelse)
                if fb != fo:
                    arm = "else" if fb else "if"
                    bad_here.append((st, f"`if {src_of(st.test)}` folds `{carrier}.exponent` into `{V}` in one arm only (the {arm}-arm leaves it out)"))
        if not touched:
            continue
        evaluators += 1
        if bad_here and f.qualname in EXP_DROP_EXEMPT:
            r.exempt(f.qualname, EXP_DROP_EXEMPT[f.qualname])
        elif bad_here:
            for n, text in bad_here:
                r.bad(Finding(
                    "exp-drop", f.qualname,
                    f"value built from tensors extracted from `{carrier}` ignores `{carrier}.exponent`: {text} (line {n.lineno})",
                    where=f"{f.module.relpath}:{f.lineno}", operand="stored state" if is_init else _norm_ret(text),
                ))
        else:
            r.ok(f.qualname, sample={"evaluator": f.fq, "carrier": carrier,
                                     "returns": [t for _, _, t in rets][:3]})
    r.floor(evaluators - r.controls_flagged, floor, "evaluator functions discovered")
    return r


def _norm_ret(text):
    return " ".join(text.split())[:60]


# ------------------------------------------------------------------ exp-flow
def rule_exp_flow(ctx):
    r = RuleResult(
        "exp-flow",
        "tensor_contract: with get=None the `exponent` argument reaches the result on both paths — added to "
        "the returned exponent under strip_exponent, multiplied in as 10**exponent otherwise",
    )
    f = ctx.prog.func("quimb.tensor.tensor_core", "tensor_contract")
    if "exponent" not in f.params or "strip_exponent" not in f.params:
        raise AnalysisError("tensor_contract lost its exponent / strip_exponent parameters")
    # find `if strip_exponent: ... elif exponent is not None: ...`
    found = False
    for n in ast.walk(f.node):
        if isinstance(n, ast.If) and src_of(n.test) == "strip_exponent" and n.orelse:
            body_src = "\n".join(src_of(s) for s in n.body)
            else_src = "\n".join(src_of(s) for s in n.orelse)
            if "exponent" in else_src and "exponent" in body_src:
                found = True
                strip_ok = any(
                    isinstance(s, ast.Assign) and "exponent" in {x.id for x in ast.walk(s.value) if isinstance(x, ast.Name)}
                    and isinstance(s.value, ast.BinOp) and isinstance(s.value.op, ast.Add)
                    for b in n.body for s in ast.walk(b)
                )
                plain_ok = any(
                    isinstance(s, ast.Assign) and isinstance(s.value, ast.BinOp) and isinstance(s.value.op, ast.Mult)
                    and any(isinstance(x, ast.BinOp) and isinstance(x.op, ast.Pow) and any(isinstance(y, ast.Name) and y.id == "exponent" for y in ast.walk(x.right)) for x in ast.walk(s.value))
                    for b in n.orelse for s in ast.walk(b)
                )
                for name, ok in (("strip", strip_ok), ("plain", plain_ok)):
                    if ok:
                        r.ok(f"tensor_contract[{name}]", sample={"path": name, "exponent": "delivered"})
                    else:
                        r.bad(Finding("exp-flow", "tensor_contract",
                                      f"`exponent` is not applied on the {name} path",
                                      where=f"{f.module.relpath}:{f.lineno}", operand=name))
    if not found:
        raise AnalysisError("tensor_contract: exponent dispatch not recognised")
    # the stripped result must be returned together with result_exponent
    src = src_of(f.node)
    if "return result, result_exponent" in " ".join(src.split()):
        r.ok("tensor_contract[return]")
    else:
        r.skip("tensor_contract[return]", "return shape not recognised")
    return r


# --------------------------------------------------------------- exp-combine
def rule_exp_combine(ctx):
    r = RuleResult(
        "exp-combine",
        "the places that build a network from networks carry the exponent: both branches of "
        "TensorNetwork.__init__ assign it (copy branch from the source), add_tensor_network adds the incoming "
        "exponent, _select_tids exposes with_exponent, the network-sum/-product routines account for both",
    )
    tc = "quimb.tensor.tensor_core"
    f = ctx.prog.func(tc, "TensorNetwork.add_tensor_network")
    other = [p_ for p_ in f.posparams if p_ != "self"][0]
    combined = False
    for a in ast.walk(f.node):
        tgt = None
        if isinstance(a, ast.Assign) and any(src_of(t) == "self.exponent" for t in a.targets):
            reads = {src_of(x) for x in ast.walk(a.value) if isinstance(x, ast.Attribute) and x.attr == "exponent"}
            combined |= {"self.exponent", f"{other}.exponent"} <= reads and any(isinstance(x, ast.BinOp) and isinstance(x.op, ast.Add) for x in ast.walk(a.value))
        if isinstance(a, ast.AugAssign) and src_of(a.target) == "self.exponent" and isinstance(a.op, ast.Add):
            combined |= any(isinstance(x, ast.Attribute) and src_of(x) == f"{other}.exponent" for x in ast.walk(a.value))
    if combined:
        r.ok("TensorNetwork.add_tensor_network", sample={"combine": f"self.exponent + {other}.exponent"})
    else:
        r.bad(Finding("exp-combine", "TensorNetwork.add_tensor_network",
                      "incoming network's exponent is not added to the receiver's",
                      where=f"{f.module.relpath}:{f.lineno}"))
    f = ctx.prog.func(tc, "TensorNetwork._select_tids")
    switched = False
    for n_ in ast.walk(f.node):
        if isinstance(n_, ast.If) and any(isinstance(x, ast.Name) and x.id == "with_exponent" for x in ast.walk(n_.test)):
            for a in n_.body:
                if isinstance(a, ast.Assign) and any(isinstance(t, ast.Attribute) and t.attr == "exponent" and src_of(t.value) != "self" for t in a.targets) \
                        and src_of(a.value) == "self.exponent":
                    switched = True
    if "with_exponent" in f.params and switched:
        r.ok("TensorNetwork._select_tids", sample={"select": "exponent copied iff with_exponent"})
    else:
        r.bad(Finding("exp-combine", "TensorNetwork._select_tids", "with_exponent switch lost",
                      where=f"{f.module.relpath}:{f.lineno}"))
    f = ctx.prog.func(tc, "TensorNetwork.__init__")
    n_assign = sum(
        1 for n in ast.walk(f.node) if isinstance(n, ast.Assign)
        and any(src_of(t) == "self.exponent" for t in n.targets)
    )
    if n_assign >= 2:
        r.ok("TensorNetwork.__init__", sample={"init": "exponent assigned in both branches"})
    else:
        r.bad(Finding("exp-combine", "TensorNetwork.__init__", "exponent is not assigned in both branches",
                      where=f"{f.module.relpath}:{f.lineno}"))
    # writers of exponent: enumerate all `X.exponent = / +=` in the tensor package
    writers = 0
    for g in ctx.prog.all_functions(nested=False):
        if g.is_alias or isinstance(g.node, ast.Lambda) or not g.module.name.startswith("quimb.tensor"):
            continue
        for n in ast.walk(g.node):
            if isinstance(n, (ast.Assign, ast.AugAssign)):
                ts = n.targets if isinstance(n, ast.Assign) else [n.target]
                if any(isinstance(t, ast.Attribute) and t.attr == "exponent" for t in ts):
                    writers += 1
    r.floor(writers, 20, "exponent write sites")
    return r


# ------------------------------------------------------------- linear operator
def rule_linop(ctx):
    r = RuleResult(
        "linop-forward/linop-conj",
        "inside TNLinearOperator: every construction of a TNLinearOperator passes a value for each __init__ "
        "parameter that is stored as instance state, derived from the corresponding self.<attr> (or its "
        "transposed partner); every method evaluating self._tensors branches on self.is_conj",
    )
    cls = ctx.prog.cls("quimb.tensor.tensor_core", "TNLinearOperator")
    init = cls.methods.get("__init__")
    if init is None:
        raise AnalysisError("TNLinearOperator.__init__ not found")
    # state parameters: __init__ params assigned to self.<same or _same>
    state = []
    for n in ast.walk(init.node):
        if isinstance(n, ast.Assign):
            pairs = []
            for t in n.targets:
                if isinstance(t, ast.Tuple) and isinstance(n.value, ast.Tuple) and len(t.elts) == len(n.value.elts):
                    pairs.extend(zip(t.elts, n.value.elts))
                else:
                    pairs.append((t, n.value))
            for t, v in pairs:
                if isinstance(t, ast.Attribute) and isinstance(t.value, ast.Name) and t.value.id == "self":
                    for p in init.params[1:]:
                        if p in {x.id for x in ast.walk(v) if isinstance(x, ast.Name)} and t.attr.lstrip("_") == p.lstrip("_"):
                            if p not in state:
                                state.append(p)
    need = [p for p in state if p not in ("tns",)]
    r.floor(len(need), 5, "TNLinearOperator state parameters")
    partner = {"left_inds": "right_inds", "right_inds": "left_inds", "ldims": "rdims", "rdims": "ldims"}
    nconstr = 0
    for name, m in cls.methods.items():
        if m.is_alias or m.cls is not cls or name == "__init__":
            continue
        for n in ast.walk(m.node):
            if isinstance(n, ast.Call) and (dotted(n.func) in ("TNLinearOperator", "self.__class__", "type(self)") or src_of(n.func) in ("self.__class__", "type(self)")):
                nconstr += 1
                kws = {k.arg: k.value for k in n.keywords if k.arg}
                pos = init.posparams[1:]
                defs = {}
                for d in ast.walk(m.node):
                    if isinstance(d, ast.Assign) and len(d.targets) == 1 and isinstance(d.targets[0], ast.Name):
                        defs.setdefault(d.targets[0].id, []).append(d.value)
                i = 0
                for a in n.args:
                    if isinstance(a, ast.Starred) and isinstance(a.value, ast.Name) and defs.get(a.value.id) and all(
                        isinstance(v, ast.Tuple) for v in defs[a.value.id]
                    ) and len({len(v.elts) for v in defs[a.value.id]}) == 1:
                        width = len(defs[a.value.id][0].elts)
                        for j in range(width):
                            if i < len(pos):
                                kws[pos[i]] = ast.Tuple(elts=[v.elts[j] for v in defs[a.value.id]], ctx=ast.Load())
                            i += 1
                        continue
                    if isinstance(a, ast.Starred):
                        i = len(pos)
                        continue
                    if i < len(pos):
                        kws[pos[i]] = a
                    i += 1
                for p_, v_ in list(kws.items()):
                    # follow one local definition:  is_conj = not self.is_conj
                    if isinstance(v_, ast.Name) and v_.id in defs:
                        kws[p_] = ast.Tuple(elts=list(defs[v_.id]), ctx=ast.Load())
                has_star = any(k.arg is None for k in n.keywords)
                missing = []
                for p in need:
                    if p in kws:
                        names = {x.attr for x in ast.walk(kws[p]) if isinstance(x, ast.Attribute)} | {x.id for x in ast.walk(kws[p]) if isinstance(x, ast.Name)}
                        ok = (p in names or ("_" + p) in names or partner.get(p) in names or ("is_conj" == p and True))
                        if p == "is_conj":
                            ok = "is_conj" in names
                        if not ok:
                            missing.append(p + " (not derived from self)")
                    elif not has_star:
                        missing.append(p)
                construct = f"TNLinearOperator.{name}"
                if missing:
                    r.bad(Finding("linop-forward", construct,
                                  f"constructs a TNLinearOperator without forwarding {missing}",
                                  where=f"{m.module.relpath}:{n.lineno}", operand=",".join(missing)))
                else:
                    r.ok(construct, sample={"method": name, "forwards": need})
    r.floor(nconstr, 2, "TNLinearOperator constructions inside the class")
    # linop-conj
    nev = 0
    for name, m in cls.methods.items():
        if m.is_alias or m.cls is not cls or name in ("__init__", "copy", "conj", "astype", "_transpose", "_adjoint", "split", "__array_function__"):
            continue
        uses = any(isinstance(n, ast.Attribute) and n.attr in ("_tensors", "_ins") and isinstance(n.value, ast.Name) and n.value.id == "self" for n in ast.walk(m.node))
        evals = any(isinstance(n, ast.Call) and dotted(n.func) in ("tensor_contract", "array_contract") or (isinstance(n, ast.Call) and isinstance(n.func, ast.Attribute) and n.func.attr in ("_contractors",)) for n in ast.walk(m.node))
        evals = evals or any(isinstance(n, ast.Call) and isinstance(n.func, ast.Attribute) and n.func.attr in ("contract", "trace", "to_dense") and not (isinstance(n.func.value, ast.Name) and n.func.value.id == "self") for n in ast.walk(m.node))
        if not (uses and evals):
            continue
        nev += 1
        reads = any(isinstance(n, ast.Attribute) and n.attr == "is_conj" for n in ast.walk(m.node))
        construct = f"TNLinearOperator.{name}"
        if reads:
            r.ok(construct, sample={"method": name, "is_conj": "consulted"})
        else:
            r.bad(Finding("linop-conj", construct,
                          "evaluates the stored tensors without consulting self.is_conj",
                          where=f"{m.module.relpath}:{m.lineno}"))
    r.floor(nev, 3, "evaluating methods of TNLinearOperator")
    return r


# --------------------------------------------------------- carrier-derivation
CARRIER_RETURNING = ("partition_tensors", "partition")


def _carries_exponent(expr, me):
    s = src_of(expr).replace(" ", "")
    if s == me or s.startswith(f"{me}.copy("):
        return True
    if isinstance(expr, ast.IfExp):
        return _carries_exponent(expr.body, me) and _carries_exponent(expr.orelse, me)
    if isinstance(expr, ast.Call) and isinstance(expr.func, ast.Attribute) and src_of(expr.func.value) == me and (
        expr.func.attr.startswith("select") or expr.func.attr.startswith("_select")
    ):
        return any(k.arg == "with_exponent" and const_value(k.value, None) is True for k in expr.keywords)
    return False


def rule_carrier_derivation(ctx):
    r = RuleResult(
        "carrier-derivation",
        "the routines whose first result is used as the *remaining network* by the tag-based contraction routes "
        "(partition_tensors, partition) hand back a network that carries the receiver's exponent on every "
        "branch: it is the receiver, a copy of it, a selection made with with_exponent=True, or its exponent is "
        "assigned from self.exponent before it is returned",
    )
    cls = ctx.prog.cls("quimb.tensor.tensor_core", "TensorNetwork")
    for name in CARRIER_RETURNING:
        f = cls.methods.get(name)
        if f is None or f.is_alias:
            raise AnalysisError(f"TensorNetwork.{name} not found")
        me = f.posparams[0]
        where = f"{f.module.relpath}:{f.lineno}"
        rets = [n for n in ast.walk(f.node) if isinstance(n, ast.Return) and n.value is not None]
        if not rets:
            raise AnalysisError(f"{name} has no return")
        for rt in rets:
            first = rt.value.elts[0] if isinstance(rt.value, ast.Tuple) and rt.value.elts else rt.value
            if not isinstance(first, ast.Name):
                if _carries_exponent(first, me):
                    r.ok(f"TensorNetwork.{name}", sample={"returns": src_of(first)})
                else:
                    r.bad(Finding("carrier-derivation", f"TensorNetwork.{name}", f"returns `{src_of(first)[:40]}` which does not carry {me}.exponent", where=where))
                continue
            X = first.id
            # all bindings of X, grouped by the `if inplace` arm they sit in
            binds = []
            for n in ast.walk(f.node):
                if isinstance(n, ast.Assign):
                    for t in n.targets:
                        if isinstance(t, ast.Name) and t.id == X:
                            binds.append((n, n.value))
                        elif isinstance(t, ast.Tuple) and isinstance(n.value, ast.Tuple) and len(t.elts) == len(n.value.elts):
                            for a, b in zip(t.elts, n.value.elts):
                                if isinstance(a, ast.Name) and a.id == X:
                                    binds.append((n, b))
            stores = [n for n in ast.walk(f.node) if isinstance(n, ast.Assign) and any(
                isinstance(t, ast.Attribute) and t.attr == "exponent" and src_of(t.value) == X for t in n.targets)
                and f"{me}.exponent" in src_of(n.value)]
            for stmt, val in binds:
                arm = _arm_of(f.node, stmt)
                ok = _carries_exponent(val, me) or any(_arm_of(f.node, s_) == arm or _arm_of(f.node, s_) is None for s_ in stores)
                label = f"TensorNetwork.{name}[{X}{'' if arm is None else ', ' + arm}]"
                if ok:
                    r.ok(label, sample={"function": name, "returned network": X, "bound from": src_of(val)[:50]})
                else:
                    r.bad(Finding(
                        "carrier-derivation", f"TensorNetwork.{name}",
                        f"on the {arm or 'only'} branch the returned network `{X}` is built by `{src_of(val)[:50]}` and never "
                        f"receives {me}.exponent: the remaining network silently loses the stored exponent",
                        where=where, operand=arm or "all"))
    return r


def _arm_of(fnode, stmt):
    for n in ast.walk(fnode):
        if isinstance(n, ast.If) and src_of(n.test).replace(" ", "") in ("inplace", "notinplace"):
            pos = src_of(n.test).replace(" ", "") == "inplace"
            if any(stmt is x for b in n.body for x in ast.walk(b)):
                return "inplace=True" if pos else "inplace=False"
            if any(stmt is x for b in n.orelse for x in ast.walk(b)):
                return "inplace=False" if pos else "inplace=True"
    return None


def rule_hyper_count(ctx):
    r = RuleResult(
        "hyper-count",
        "deciding which labels a local contraction sums requires the *global* number of holders of each label: "
        "compute_contracted_inds compares the local frequency with len(self.ind_map[ix]) (inner/outer "
        "classification alone cannot tell a bond from a hyper index held by three or more tensors) and keeps "
        "explicitly requested outputs",
    )
    f = ctx.prog.func("quimb.tensor.tensor_core", "TensorNetwork.compute_contracted_inds")
    where = f"{f.module.relpath}:{f.lineno}"
    rets = [n for n in ast.walk(f.node) if isinstance(n, ast.Return) and n.value is not None]
    ok_count = False
    ok_out = False
    # every exit decides with the global holder count: a return (fast path) whose expression never looks at self.ind_map classifies a hyper
    # index shared with a third tensor as a bond of the pair
    for rt in rets:
        looks = any(isinstance(x, ast.Attribute) and x.attr == "ind_map" for x in ast.walk(rt))
        if not looks:
            # through locals defined from ind_map
            names = {y.id for y in ast.walk(rt.value) if isinstance(y, ast.Name)}
            for a in ast.walk(f.node):
                if isinstance(a, ast.Assign) and any(isinstance(t, ast.Name) and t.id in names for t in a.targets) and any(isinstance(x, ast.Attribute) and x.attr == "ind_map" for x in ast.walk(a.value)):
                    looks = True
        if not looks:
            r.bad(Finding("hyper-count", "TensorNetwork.compute_contracted_inds",
                          f"the exit `{src_of(rt)[:60]}...` (line {rt.lineno}) decides which labels to keep without the global holder count self.ind_map: a label held by a third "
                          "tensor outside the group is summed early", where=f"{f.module.relpath}:{rt.lineno}", operand="exit-without-count"))
    for rt in rets:
        for c in ast.walk(rt):
            if isinstance(c, ast.Compare) and any(isinstance(x, ast.Call) and dotted(x.func) == "len" and "ind_map[" in src_of(x) for x in ast.walk(c)) \
                    and isinstance(c.ops[0], (ast.NotEq, ast.Lt, ast.Eq, ast.GtE)):
                ok_count = True
            if isinstance(c, ast.Compare) and isinstance(c.ops[0], ast.In) and "output_inds" in src_of(c.comparators[0]):
                ok_out = True
    if ok_count:
        r.ok("TensorNetwork.compute_contracted_inds[count]", sample={"keep if": "local count != len(self.ind_map[ix])"})
    else:
        r.bad(Finding("hyper-count", "TensorNetwork.compute_contracted_inds",
                      "the keep/sum decision does not compare the local frequency with len(self.ind_map[ix]): a label held by "
                      "three or more tensors is summed before all its holders are contracted", where=where, operand="count"))
    if ok_out:
        r.ok("TensorNetwork.compute_contracted_inds[outputs]")
    else:
        r.bad(Finding("hyper-count", "TensorNetwork.compute_contracted_inds", "explicit output labels are not kept", where=where, operand="outputs"))
    return r


# ----------------------------------------------------------------- network sums
def rule_sum_exponents(ctx):
    r = RuleResult(
        "sum-exponents",
        "a sum of two networks is not a product: 10**p·A + 10**q·B cannot be represented by combining the site tensors and "
        "keeping one exponent, so every routine that sums two networks site by site (direct product of corresponding "
        "tensors) must absorb or otherwise account for the exponent of *both* operands (read .exponent / call "
        "distribute_exponent on each) before combining",
    )
    n = 0
    for f in ctx.prog.all_functions(nested=False):
        if f.is_alias or isinstance(f.node, ast.Lambda) or not f.module.name.startswith("quimb.tensor") or f.module.name.startswith("quimb.tensor.tensor_builder"):
            continue
        dps = [c for c in ast.walk(f.node) if isinstance(c, ast.Call) and (dotted(c.func) or "").split(".")[-1] in ("direct_product", "direct_product_", "tensor_direct_product")]
        nets = [p_ for p_ in f.posparams if p_ != "self"][:2]
        if not dps or len(nets) < 2 or not all(p_.lower().startswith("tn") for p_ in nets):
            continue
        n += 1
        # names aliasing each operand: the parameter and locals assigned from it (copy / conditional copy / rebinding)
        alias = {p_: {p_} for p_ in nets}
        for a in ast.walk(f.node):
            if isinstance(a, ast.Assign) and len(a.targets) == 1 and isinstance(a.targets[0], ast.Name):
                for p_ in nets:
                    roots = {x.id for x in ast.walk(a.value) if isinstance(x, ast.Name)}
                    if roots & alias[p_] and not (roots & set().union(*(alias[q] for q in nets if q != p_))):
                        v = a.value
                        if isinstance(v, (ast.IfExp, ast.Name)) or (isinstance(v, ast.Call) and isinstance(v.func, ast.Attribute) and v.func.attr == "copy"):
                            alias[p_].add(a.targets[0].id)
        missing = []
        for p_ in nets:
            handled = any(
                (isinstance(x, ast.Attribute) and x.attr == "exponent" and isinstance(x.value, ast.Name) and x.value.id in alias[p_])
                or (isinstance(x, ast.Call) and isinstance(x.func, ast.Attribute) and x.func.attr in ("distribute_exponent", "equalize_norms_") and isinstance(x.func.value, ast.Name) and x.func.value.id in alias[p_])
                for x in ast.walk(f.node))
            if not handled:
                missing.append(p_)
        if missing:
            r.bad(Finding("sum-exponents", f.qualname, f"sums the site tensors of `{nets[0]}` and `{nets[1]}` but never looks at the exponent of {missing}: "
                          f"with {missing[0]}.exponent = p the result is not 10**p·{missing[0]} ± the other operand", where=f"{f.module.relpath}:{f.lineno}", operand=",".join(missing)))
        else:
            r.ok(f.qualname, sample={"routine": f.qualname, "operands": nets, "exponents": "both absorbed before combining"})
    r.floor(n, 2, "site-wise network sums")
    return r


# ------------------------------------------------------------- linop dtype
def rule_linop_dtype(ctx):
    r = RuleResult(
        "linop-dtype",
        "the dtype a TNLinearOperator advertises to scipy (super().__init__(dtype=...)) is computed over *all* of its tensors "
        "(a common / result type over an iteration of self._tensors), never read from one element: solvers allocate their "
        "work arrays in the advertised dtype, so a real first tensor in a network that also holds complex ones makes them "
        "discard the imaginary parts of every matvec",
    )
    cls = ctx.prog.cls("quimb.tensor.tensor_core", "TNLinearOperator")
    init = cls.methods.get("__init__")
    if init is None:
        raise AnalysisError("TNLinearOperator.__init__ not found")
    where = f"{init.module.relpath}:{init.lineno}"
    sup = [c for c in ast.walk(init.node) if isinstance(c, ast.Call) and isinstance(c.func, ast.Attribute) and c.func.attr == "__init__"
           and isinstance(c.func.value, ast.Call) and getattr(c.func.value.func, "id", None) == "super"]
    if not sup:
        raise AnalysisError("TNLinearOperator.__init__: super().__init__ not found")
    dt = next((k.value for k in sup[0].keywords if k.arg == "dtype"), None)
    if dt is None:
        raise AnalysisError("TNLinearOperator.__init__: dtype= not passed to LinearOperator")
    defs = {}
    for a in ast.walk(init.node):
        if isinstance(a, ast.Assign) and len(a.targets) == 1 and isinstance(a.targets[0], ast.Name):
            defs[a.targets[0].id] = a.value
    e = dt
    hops = 0
    while isinstance(e, ast.Name) and e.id in defs and hops < 4:
        e = defs[e.id]
        hops += 1
    single = [x for x in ast.walk(e) if isinstance(x, ast.Subscript) and isinstance(const_value(x.slice, None), int)
              and any(isinstance(y, (ast.Attribute, ast.Name)) and (getattr(y, "attr", None) or getattr(y, "id", None)) in ("_tensors", "tns", "tensors") for y in ast.walk(x.value))]
    over_all = any(isinstance(x, (ast.GeneratorExp, ast.ListComp, ast.Starred)) for x in ast.walk(e)) or any(
        isinstance(x, ast.Attribute) and x.attr in ("arrays", "dtype") and isinstance(x.value, ast.Name) and x.value.id in ("tns", "self") for x in ast.walk(e))
    if single and not over_all:
        r.bad(Finding("linop-dtype", "TNLinearOperator.__init__", f"advertises dtype `{src_of(e)}`, the dtype of a single tensor: wrong for networks of mixed real / complex tensors",
                      where=where, operand="single-tensor"))
    elif over_all:
        r.ok("TNLinearOperator.__init__[dtype]", sample={"dtype": src_of(e)[:70]})
    else:
        r.skip("TNLinearOperator.__init__[dtype]", f"dtype expression `{src_of(e)[:60]}` not classified")
    return r


# -------------------------------------------------- partial contraction routes
def rule_partial_contraction_inds(ctx):
    r = RuleResult(
        "partial-contraction-inds",
        "sibling agreement over every routine that contracts a *subset* of a network's tensors with tensor_contract and puts "
        "the result back into that network (contract_between, contract_ind, contract_tags, pair / loop simplification, "
        "contracting gates): which labels the local contraction keeps must be decided with network-wide holder information — "
        "output_inds derived from compute_contracted_inds(...) or from an expression over an ind_map — because the default of "
        "tensor_contract (keep what appears once among the operands) sums a label that other tensors of the network still hold "
        "(a hyper index) too early, silently changing the network's value",
    )
    n = 0
    for modname in ("quimb.tensor.tensor_core", "quimb.tensor.gating"):
        mod = ctx.prog.modules.get(modname)
        if mod is None:
            raise AnalysisError(f"module {modname} not found")
        for f in mod.all_functions:
            if f.is_alias or isinstance(f.node, ast.Lambda):
                continue
            defs = {}
            for x in ast.walk(f.node):
                if isinstance(x, ast.Assign) and len(x.targets) == 1:
                    t0 = x.targets[0]
                    for nm in ([t0] if isinstance(t0, ast.Name) else [e for e in t0.elts if isinstance(e, ast.Name)] if isinstance(t0, (ast.Tuple, ast.List)) else []):
                        defs.setdefault(nm.id, []).append(x.value)
            for st in ast.walk(f.node):
                call = None
                result = None
                if isinstance(st, ast.Assign) and isinstance(st.value, ast.Call) and dotted(st.value.func) == "tensor_contract" and isinstance(st.targets[0], ast.Name):
                    call, result = st.value, st.targets[0].id
                elif isinstance(st, ast.AugAssign) and isinstance(st.op, (ast.BitOr, ast.BitAnd)) and isinstance(st.value, ast.Call) and dotted(st.value.func) == "tensor_contract":
                    call, result = st.value, "<attached>"
                if call is None:
                    continue
                # is the result put back into a network?
                readded = result == "<attached>"
                if not readded:
                    for x in ast.walk(f.node):
                        if isinstance(x, ast.Call) and isinstance(x.func, ast.Attribute) and x.func.attr == "add_tensor" and x.lineno > call.lineno \
                                and any(isinstance(a, ast.Name) and a.id == result for a in x.args):
                            readded = True
                        if isinstance(x, ast.AugAssign) and isinstance(x.op, (ast.BitOr, ast.BitAnd)) and x.lineno > call.lineno \
                                and any(isinstance(a, ast.Name) and a.id == result for a in ast.walk(x.value)):
                            readded = True
                # are the operands taken out of a network?
                taken = any(
                    isinstance(x, ast.Attribute) and x.attr in ("pop_tensor", "_tids_get", "_inds_get", "partition_tensors", "tensor_map")
                    for a in call.args for x in ast.walk(a)
                )
                for a in call.args:
                    for nm in ast.walk(a):
                        if isinstance(nm, ast.Name):
                            for d in defs.get(nm.id, []):
                                if any(isinstance(x, ast.Attribute) and x.attr in ("pop_tensor", "_tids_get", "_inds_get", "partition_tensors", "tensor_map") for x in ast.walk(d)):
                                    taken = True
                if not (readded and taken):
                    continue
                n += 1
                construct = f.qualname
                where = f"{f.module.relpath}:{call.lineno}"
                oi = next((k.value for k in call.keywords if k.arg == "output_inds"), None)
                ok = False
                why = "no output_inds is given"
                if oi is not None:
                    todo, seen = [oi], set()
                    while todo:
                        e = todo.pop()
                        for x in ast.walk(e):
                            if isinstance(x, ast.Call) and isinstance(x.func, ast.Attribute) and x.func.attr == "compute_contracted_inds":
                                ok = True
                            if isinstance(x, ast.Attribute) and x.attr == "ind_map":
                                ok = True
                            if isinstance(x, ast.Name) and x.id not in seen:
                                seen.add(x.id)
                                todo.extend(defs.get(x.id, []))
                    why = f"output_inds=`{src_of(oi)}` is not derived from compute_contracted_inds / an ind_map"
                if ok:
                    r.ok(f"{construct}@{call.lineno}", sample={"route": f.qualname, "kept labels": src_of(oi)[:50]})
                else:
                    r.bad(Finding(
                        "partial-contraction-inds", construct,
                        f"contracts tensors taken from the network and puts the result back, but {why}: a label that other tensors of the network "
                        "also hold is summed as soon as two of its holders are contracted (A(x,h) B(h,y) C(h,z): contracting A,B first sums h)",
                        where=where, operand="output_inds"))
    r.floor(n, 3, "partial contraction routes")
    return r


# ------------------------------------------------------------- view-accrual
SELECTORS = ("select", "select_any", "select_all", "select_neighbors", "select_local", "_select_tids", "_select_local_tids", "_select_without_tids", "select_sites")


ACCRUING_WITH_OPTION = {"gauge_all_canonize_", "gauge_all_simple_", "gauge_all_belief_propagation_", "gauge_all_", "canonize_around_", "_canonize_around_tids"}


def rule_view_accrual(ctx):
    r = RuleResult(
        "view-accrual",
        "rescaling that accrues into `exponent` must accrue into the network that is kept: calling "
        "equalize_norms_(value) / strip_exponent on a temporary selection (a view returned by select*(), whose own "
        "exponent starts at 0 and is thrown away) rescales the shared tensors while the stripped factor is lost",
    )
    n = 0
    for g in ctx.prog.all_functions(nested=False):
        if g.is_alias or isinstance(g.node, ast.Lambda) or not g.module.name.startswith("quimb.tensor"):
            continue
        defs = {}
        for x in ast.walk(g.node):
            if isinstance(x, ast.Assign) and len(x.targets) == 1 and isinstance(x.targets[0], ast.Name):
                defs.setdefault(x.targets[0].id, []).append(x)
        for c in ast.walk(g.node):
            if not (isinstance(c, ast.Call) and isinstance(c.func, ast.Attribute)):
                continue
            indirect = False
            if c.func.attr in ACCRUING_WITH_OPTION:
                # in-place gauging routines accrue into their receiver's exponent when handed equalize_norms: explicitly, or through
                # an open **kwargs the caller forwards (the option is then the user's to give)
                explicit = next((k.value for k in c.keywords if k.arg == "equalize_norms"), None)
                opaque = any(k.arg is None for k in c.keywords)
                if explicit is None and not opaque:
                    continue
                if explicit is not None and const_value(explicit, 1) in (False, None):
                    continue
                indirect = True
            elif c.func.attr not in ("equalize_norms_", "equalize_norms", "strip_exponent"):
                continue
            if c.func.attr == "equalize_norms" and not any(k.arg == "inplace" and const_value(k.value, None) is True for k in c.keywords):
                continue
            # value=None redistributes the factor into the tensors: nothing is accrued
            val = c.args[0] if (c.args and c.func.attr.startswith("equalize")) else next((k.value for k in c.keywords if k.arg == "value"), None)
            if c.func.attr.startswith("equalize") and (val is None or const_value(val, 0) is None):
                continue
            recv = c.func.value
            temp = None
            if isinstance(recv, ast.Call) and isinstance(recv.func, ast.Attribute) and recv.func.attr in SELECTORS:
                temp = src_of(recv)[:40]
            elif isinstance(recv, ast.Name) and recv.id in defs:
                for d in defs[recv.id]:
                    v = d.value
                    if isinstance(v, ast.Call) and isinstance(v.func, ast.Attribute) and v.func.attr in SELECTORS and d.lineno < c.lineno \
                            and not any(k.arg == "virtual" and const_value(k.value, None) is False for k in v.keywords):
                        # is the view's exponent ever read back afterwards?
                        read_back = any(isinstance(y, ast.Attribute) and y.attr == "exponent" and src_of(y.value) == recv.id and y.lineno > c.lineno for y in ast.walk(g.node))
                        returned = any(isinstance(y, ast.Return) and y.value is not None and recv.id in {z.id for z in ast.walk(y.value) if isinstance(z, ast.Name)} for y in ast.walk(g.node))
                        if returned and indirect and not g.name.lstrip("_").startswith(("select", "partition")):
                            # handing the view back does not help when the callers work on the kept network: the accrual has to be
                            # folded into the kept network here (self.exponent / <kept>.exponent written from the view's)
                            folded = any(isinstance(y, ast.Assign) and any(isinstance(t, ast.Attribute) and t.attr == "exponent" for t in y.targets)
                                         and any(isinstance(z, ast.Attribute) and z.attr == "exponent" and src_of(z.value) == recv.id for z in ast.walk(y.value)) for y in ast.walk(g.node))
                            returned = folded
                        if not read_back and not returned:
                            temp = f"{recv.id} = {src_of(v)[:30]}"
            if c.func.attr == "strip_exponent" and temp is None:
                continue
            n += 1
            if temp:
                r.bad(Finding("view-accrual", g.qualname,
                              f"`{src_of(c)[:60]}` (line {c.lineno}) accrues the stripped factor into the exponent of a temporary selection ({temp}) that is discarded: "
                              f"the kept network's value changes by that factor", where=f"{g.module.relpath}:{c.lineno}", operand=c.func.attr))
            else:
                r.ok(f"{g.qualname}:{c.func.attr}", sample={"function": g.qualname, "call": src_of(c)[:60], "receiver": "the kept network"})
    r.floor(n, 5, "exponent-accruing equalize_norms_ calls")
    return r


def rule_conj_mangle_universe(ctx):
    r = RuleResult(
        "conj-mangle-universe",
        "TensorNetwork.conj(mangle_inner=..., output_inds=...) builds the bra layer of norm / overlap networks: with an explicit "
        "output_inds every label that is *not* an output must be renamed in the conjugated copy — also a dangling one — so that "
        "it is summed inside each layer instead of being joined between ket and bra. The set handed to mangle_inner_(which=...) "
        "on the explicit-output path is therefore the complement of output_inds in the set of *all* labels of the network",
    )
    f = ctx.prog.func("quimb.tensor.tensor_core", "TensorNetwork.conj")
    if f is None:
        raise AnalysisError("conj-mangle-universe: TensorNetwork.conj not found")
    calls = [c for c in _own_nodes(f.node) if isinstance(c, ast.Call) and isinstance(c.func, ast.Attribute) and c.func.attr in ("mangle_inner_", "mangle_inner")]
    if not calls:
        raise AnalysisError("conj-mangle-universe: conj no longer calls mangle_inner_")
    ALL = {"ind_map", "all_inds", "_get_all_inds", "ind_sizes"}
    INNER = {"inner_inds", "_inner_inds", "outer_inds", "_outer_inds"}
    n = 0
    for c in calls:
        w = next((kw.value for kw in c.keywords if kw.arg == "which"), None)
        if w is None:
            continue
        # definitions of the expression (one level of locals)
        exprs = [w]
        if isinstance(w, ast.Name):
            exprs = [a.value for a in _own_nodes(f.node) if isinstance(a, ast.Assign) and any(isinstance(t, ast.Name) and t.id == w.id for t in a.targets)]
        for e in exprs:
            names = {x.id for x in ast.walk(e) if isinstance(x, ast.Name)}
            if "output_inds" not in names and not any(isinstance(x, ast.Name) and x.id == getattr(w, "id", None) for x in ast.walk(e)):
                continue  # the definition for output_inds=None
            if "output_inds" not in names:
                # `which = which - ...` style: follow the self-reference to the other definitions
                continue
            n += 1
            attrs = {x.attr for x in ast.walk(e) if isinstance(x, ast.Attribute)} | {dotted(x.func).split(".")[-1] for x in ast.walk(e) if isinstance(x, ast.Call) and dotted(x.func)}
            universe_names = set()
            # left operand of the difference, through a self-referencing local
            left = e.left if isinstance(e, ast.BinOp) and isinstance(e.op, ast.Sub) else e
            lattrs = {x.attr for x in ast.walk(left) if isinstance(x, ast.Attribute)}
            if isinstance(left, ast.Name):
                for a in _own_nodes(f.node):
                    if isinstance(a, ast.Assign) and any(isinstance(t, ast.Name) and t.id == left.id for t in a.targets) and a.value is not e:
                        lattrs |= {x.attr for x in ast.walk(a.value) if isinstance(x, ast.Attribute)}
            construct = "TensorNetwork.conj"
            if lattrs & INNER and not (lattrs & ALL):
                r.bad(Finding("conj-mangle-universe", construct,
                              f"with explicit output_inds the labels to rename are taken from `{sorted(lattrs & INNER)[0]}` minus the outputs: a dangling label that is "
                              "not requested as output keeps its name in the conjugated copy and is joined between the two layers of norm()/overlap() "
                              "instead of being summed in each",
                              where=f"{f.module.relpath}:{e.lineno}", operand="universe"))
            elif lattrs & ALL:
                r.ok(construct, sample={"which": src_of(e)[:70], "universe": sorted(lattrs & ALL)[0]})
            else:
                r.skip(construct, f"universe of `{src_of(e)[:60]}` not recognised")
    r.floor(n, 1, "explicit-output definitions of the mangled set in TensorNetwork.conj")
    return r


def rule_linop_private_tensors(ctx):
    r = RuleResult(
        "linop-private-tensors",
        "TNLinearOperator.__init__ folds a stored exponent into tensors (distribute_exponent rewrites tensor data in place): the network it "
        "does that to is a private copy *including its tensors* — `tns.copy()`; a virtual copy (`copy(virtual=True)`) or the caller's own "
        "network shares the Tensor objects, so the caller's network would be rescaled while still carrying its exponent",
    )
    f = ctx.prog.func("quimb.tensor.tensor_core", "TNLinearOperator.__init__")
    if f is None:
        raise AnalysisError("linop-private-tensors: TNLinearOperator.__init__ not found")
    MUT = {"distribute_exponent", "equalize_norms_", "multiply_", "multiply_each_", "strip_exponent"}
    calls = [c for c in ast.walk(f.node) if isinstance(c, ast.Call) and isinstance(c.func, ast.Attribute) and c.func.attr in MUT and isinstance(c.func.value, ast.Name)]
    if not calls:
        r.ok("TNLinearOperator.__init__", sample={"in-place rescaling": "none"})
        return r
    for c in calls:
        X = c.func.value.id
        defs = [a for a in ast.walk(f.node) if isinstance(a, ast.Assign) and any(isinstance(t, ast.Name) and t.id == X for t in a.targets) and a.lineno < c.lineno]
        where = f"{f.module.relpath}:{c.lineno}"
        last = max(defs, key=lambda a: a.lineno) if defs else None
        private = last is not None and isinstance(last.value, ast.Call) and isinstance(last.value.func, ast.Attribute) and last.value.func.attr == "copy" \
            and not any(k.arg == "virtual" and const_value(k.value, False) is not False for k in last.value.keywords)
        if private:
            r.ok("TNLinearOperator.__init__", sample={"rescaled": X, "is": src_of(last.value)})
        else:
            r.bad(Finding("linop-private-tensors", "TNLinearOperator.__init__",
                          f"`{src_of(c)}` rewrites tensor data of `{X}`, which is {('`' + src_of(last.value) + '`') if last is not None else 'the caller network itself'}: the Tensor objects are shared with "
                          "the caller's network, which is rescaled by 10**exponent while keeping its exponent", where=where, operand="shared-tensors"))
    return r
