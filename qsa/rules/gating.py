"""C06 (narrow): gate mode vocabulary and outer-label rewiring."""

import ast

from ..framework import RuleResult, Finding
from ..consteval import ConstEnv, UNKNOWN
from ..model import dotted, src_of, const_value
from .. import AnalysisError

GATING = "quimb.tensor.gating"


def rule_gate_modes(ctx):
    r = RuleResult(
        "gate-modes",
        "the `contract` vocabulary of gate application is closed: tensor_network_gate_inds validates it with "
        "check_opt against _VALID_GATE_CONTRACT, _SPLIT_GATE_CONTRACT is a subset of it, every literal any gating "
        "function compares `contract` with belongs to the vocabulary (no misspelt mode can be silently treated as "
        "another one), and every valid mode is compared against somewhere (reaches a handler)",
    )
    m = ctx.prog.module(GATING)
    env = ConstEnv(m)
    valid = env.get("_VALID_GATE_CONTRACT")
    split = env.get("_SPLIT_GATE_CONTRACT")
    if valid is UNKNOWN or split is UNKNOWN:
        raise AnalysisError("gate contract vocabularies could not be evaluated")
    valid, split = set(valid), set(split)
    r.floor(len(valid), 6, "valid gate contract modes")
    if split <= valid:
        r.ok("_SPLIT_GATE_CONTRACT", sample={"valid": sorted(map(str, valid)), "gate-splitting": sorted(map(str, split))})
    else:
        r.bad(Finding("gate-modes", "_SPLIT_GATE_CONTRACT", f"contains {sorted(split - valid)} which are not valid modes", where=m.relpath))
    f = ctx.prog.func(GATING, "tensor_network_gate_inds")
    chk = [c for c in ast.walk(f.node) if isinstance(c, ast.Call) and dotted(c.func) == "check_opt" and len(c.args) >= 3 and src_of(c.args[1]) == "contract" and src_of(c.args[2]) == "_VALID_GATE_CONTRACT"]
    if chk and chk[0].lineno < min(n.lineno for n in ast.walk(f.node) if isinstance(n, ast.Compare)):
        r.ok("tensor_network_gate_inds[check_opt]", sample={"validated": "check_opt('contract', contract, _VALID_GATE_CONTRACT) before any use"})
    else:
        r.bad(Finding("gate-modes", "tensor_network_gate_inds", "`contract` is not validated against _VALID_GATE_CONTRACT before it is used", where=f"{m.relpath}:{f.lineno}", operand="check_opt"))
    compared = set()
    for g in m.all_functions:
        if isinstance(g.node, ast.Lambda) or "contract" not in g.params:
            continue
        for n in ast.walk(g.node):
            if isinstance(n, ast.Compare) and src_of(n.left) == "contract":
                for c in n.comparators:
                    v = const_value(c, UNKNOWN)
                    vals = list(v) if isinstance(v, (tuple, list, set)) else [v]
                    if isinstance(c, ast.Name):
                        vv = env.get(c.id)
                        vals = list(vv) if vv is not UNKNOWN and isinstance(vv, (tuple, list, set, frozenset)) else []
                    for x in vals:
                        if x is UNKNOWN:
                            continue
                        compared.add(x)
                        if x not in valid and x not in (True, False, None):
                            r.bad(Finding("gate-modes", g.qualname, f"compares `contract` with {x!r}, which is not in _VALID_GATE_CONTRACT", where=f"{m.relpath}:{n.lineno}", operand=str(x)))
                        else:
                            r.ok(f"{g.qualname}[{x!r}]", nontrivial=False)
    for mode in sorted(map(str, valid)):
        pass
    unreached = {x for x in valid if isinstance(x, str) and x not in compared}
    if unreached:
        r.bad(Finding("gate-modes", "gating", f"valid modes {sorted(unreached)} are never compared against: they fall through to another mode's handler", where=m.relpath, operand="unreached"))
    else:
        r.ok("gating[every mode reaches a comparison]", sample={"modes": sorted(map(str, valid))})
    return r


def rule_rewire(ctx):
    r = RuleResult(
        "rewire-pairing",
        "the lazy/contracted gate paths keep the outer labels: fresh bond labels (one rand_uuid per gate index) are "
        "built, the network tensors carrying the target labels are reindexed with exactly dict(zip(inds, bonds)) "
        "before the gate tensor is attached or contracted in, and the gate tensor's labels are (inds, bonds) — or "
        "(bonds, inds) under transpose — so the labels it exposes are exactly the original `inds`",
    )
    f = ctx.prog.func(GATING, "_tensor_network_gate_inds_basic")
    where = f"{f.module.relpath}:{f.lineno}"
    defs = {}
    for n in ast.walk(f.node):
        if isinstance(n, ast.Assign) and len(n.targets) == 1 and isinstance(n.targets[0], ast.Name):
            defs[n.targets[0].id] = n.value
    # fresh bonds
    bname = next((k for k, v in defs.items() if isinstance(v, ast.ListComp) and isinstance(v.elt, ast.Call) and (dotted(v.elt.func) or "").split(".")[-1] == "rand_uuid"
                  and isinstance(v.generators[0].iter, ast.Call) and dotted(v.generators[0].iter.func) == "range"), None)
    if bname is None:
        r.bad(Finding("rewire-pairing", f.qualname, "fresh bond labels [rand_uuid() for _ in range(ng)] not found", where=where, operand="bonds"))
        return r
    r.ok("basic[fresh bonds]", sample={"bonds": f"{bname} = {src_of(defs[bname])}"})
    mname = next((k for k, v in defs.items() if src_of(v).replace(" ", "") == f"dict(zip(inds,{bname}))"), None)
    if mname is None:
        r.bad(Finding("rewire-pairing", f.qualname, f"reindex map dict(zip(inds, {bname})) not found", where=where, operand="map"))
        return r
    r.ok("basic[reindex map]", sample={"map": f"{mname} = dict(zip(inds, {bname}))"})
    gname = next((k for k, v in defs.items() if isinstance(v, ast.IfExp) and src_of(v.test) == "transpose"
                  and src_of(v.body).replace(" ", "") == f"(*{bname},*inds)" and src_of(v.orelse).replace(" ", "") == f"(*inds,*{bname})"), None)
    if gname is None:
        r.bad(Finding("rewire-pairing", f.qualname, "gate labels are not (*inds, *bonds) / (*bonds, *inds) under transpose", where=where, operand="gate-inds"))
    else:
        r.ok("basic[gate labels]", sample={"gate inds": src_of(defs[gname])})
    # gate tensor constructions use gix
    tgs = [c for c in ast.walk(f.node) if isinstance(c, ast.Call) and (dotted(c.func) or "").split(".")[-1] in ("Tensor", "from_parray")]
    for c in tgs:
        kws = {k.arg: src_of(k.value) for k in c.keywords if k.arg}
        if kws.get("inds") == gname:
            r.ok(f"basic[{dotted(c.func)} inds]")
        else:
            r.bad(Finding("rewire-pairing", f.qualname, f"gate tensor is built with inds={kws.get('inds')}, expected {gname}", where=where, operand="TG-inds"))
    # every attach / contract of the gate tensor is preceded (same block) by <network>.reindex_(map); the network is the
    # function's first parameter and the gate tensor whatever local the constructions above are bound to
    tnname = f.posparams[0]
    tgnames = {a.targets[0].id for a in ast.walk(f.node) if isinstance(a, ast.Assign) and isinstance(a.targets[0], ast.Name) and a.value in tgs}
    if not tgnames:
        raise AnalysisError("basic gate path: the gate tensor is not bound to a local")
    n = 0
    for block in _blocks(f.node):
        for i, st in enumerate(block):
            attaches = isinstance(st, ast.AugAssign) and isinstance(st.op, ast.BitOr) and src_of(st.target) == tnname \
                and any(isinstance(x, ast.Name) and x.id in tgnames for x in ast.walk(st.value))
            if attaches:
                n += 1
                before = [s for s in block[:i] if isinstance(s, ast.Expr) and isinstance(s.value, ast.Call) and src_of(s.value.func) in (f"{tnname}.reindex_", f"{tnname}.reindex")
                          and [src_of(a) for a in s.value.args] == [mname]]
                if before:
                    r.ok(f"basic[attach @ line {st.lineno}]", sample={"attach": src_of(st)[:50], "preceded by": f"{tnname}.reindex_({mname})"})
                else:
                    r.bad(Finding("rewire-pairing", f.qualname, f"`{src_of(st)[:40]}` (line {st.lineno}) is not preceded in its block by tn.reindex_({mname}): the gate's inner labels would not meet the network", where=where, operand=f"attach"))
    if n < 2:
        raise AnalysisError("basic gate path: fewer than two attach sites found")
    # the split path receives the same map and gate tensor
    calls = [c for c in ast.walk(f.node) if isinstance(c, ast.Call) and dotted(c.func) == "_tensor_network_gate_inds_eager_split"]
    if calls and mname in [src_of(a) for a in calls[0].args] and (tgnames & {src_of(a) for a in calls[0].args}):
        r.ok("basic[eager split receives map and gate]")
    else:
        r.bad(Finding("rewire-pairing", f.qualname, "the eager-split path is not handed the reindex map and the gate tensor", where=where, operand="eager-split"))
    g = ctx.prog.func(GATING, "_tensor_network_gate_inds_eager_split")
    # the parameter that receives the map (by position of the argument in the call above) is applied with reindex
    mpos = [src_of(a) for a in calls[0].args].index(mname) if calls and mname in [src_of(a) for a in calls[0].args] else None
    mparam = g.posparams[mpos] if mpos is not None and mpos < len(g.posparams) else None
    applied = mparam is not None and any(
        isinstance(c, ast.Call) and isinstance(c.func, ast.Attribute) and c.func.attr in ("reindex", "reindex_") and any(isinstance(a, ast.Name) and a.id == mparam for a in c.args)
        for c in ast.walk(g.node))
    if applied:
        r.ok("eager_split[uses map]")
    else:
        r.bad(Finding("rewire-pairing", g.qualname, "reindex_map is never applied in the eager-split path", where=f"{g.module.relpath}:{g.lineno}", operand="map"))
    return r


def _blocks(fnode):
    stack = [fnode.body]
    while stack:
        b = stack.pop()
        yield b
        for st in b:
            for fld in ("body", "orelse", "finalbody"):
                sub = getattr(st, fld, None)
                if isinstance(sub, list) and sub and isinstance(sub[0], ast.stmt):
                    stack.append(sub)
            for h in getattr(st, "handlers", []):
                stack.append(h.body)


# ------------------------------------------------------------------ dagger
def _must_assign(stmts, name, pred):
    """Does every path through ``stmts`` execute an assignment `name = v`
    with pred(v)?  (if/else aware; loops and try bodies are not relied on)"""
    for st in stmts:
        if isinstance(st, ast.Assign) and any(isinstance(t, ast.Name) and t.id == name for t in st.targets) and pred(st.value):
            return True
        if isinstance(st, ast.If) and st.orelse:
            if _must_assign(st.body, name, pred) and _must_assign(st.orelse, name, pred):
                return True
        if isinstance(st, (ast.Return, ast.Raise)):
            return True  # path leaves: no obligation on it
    return False


def rule_dagger_total(ctx):
    r = RuleResult(
        "dagger-total",
        "G-dagger is conjugate *and* transpose for every kind of gate: a function that handles `dagger` itself "
        "(an `if dagger:` branch) sets transpose on every path through that branch — not only for complex or "
        "parametrized gates — or derives it unconditionally (`transpose = dagger or transpose`); otherwise it "
        "forwards dagger to its callee",
    )
    n = 0
    for modname in ("quimb.tensor.gating", "quimb.tensor.tnag.core", "quimb.tensor.tensor_core", "quimb.tensor.tn1d.core"):
        m = ctx.prog.module(modname)
        for f in m.all_functions:
            if isinstance(f.node, ast.Lambda) or f.parent is not None or "dagger" not in f.params or "transpose" not in f.params:
                continue
            where = f"{m.relpath}:{f.lineno}"
            branches = [x for x in ast.walk(f.node) if isinstance(x, ast.If) and src_of(x.test) == "dagger"]
            derived = any(isinstance(x, ast.Assign) and any(isinstance(t, ast.Name) and t.id == "transpose" for t in x.targets)
                          and "dagger" in {y.id for y in ast.walk(x.value) if isinstance(y, ast.Name)} for x in f.node.body)
            forwards = any(isinstance(c, ast.Call) and any(k.arg == "dagger" and src_of(k.value) == "dagger" for k in c.keywords) for c in ast.walk(f.node))
            if not branches and not derived:
                if forwards:
                    r.ok(f.qualname, sample={"function": f.qualname, "dagger": "forwarded"}, nontrivial=False)
                continue
            n += 1
            if derived:
                r.ok(f.qualname, sample={"function": f.qualname, "dagger": "transpose derived unconditionally from dagger"})
                continue
            bad = [b for b in branches if not _must_assign(b.body, "transpose", lambda v: const_value(v, None) is True or "dagger" in src_of(v))]
            if bad:
                r.bad(Finding("dagger-total", f.qualname,
                              f"the `if dagger:` branch (line {bad[0].lineno}) does not set transpose on every path: for some gates (e.g. real dtype) "
                              f"dagger=True applies G instead of G^T", where=where))
            else:
                r.ok(f.qualname, sample={"function": f.qualname, "dagger": "every path through `if dagger:` sets transpose = True"})
    r.floor(n, 2, "functions handling dagger themselves")
    return r


def rule_where_order(ctx):
    r = RuleResult(
        "where-order",
        "gate_with_auto_swap sorts the two target sites; the orientation with which the gate is finally applied "
        "(final_gate_where / absorb) is therefore assigned only inside the branch on the original order "
        "(i > j): an assignment outside it forgets the flip for a descending `where`",
    )
    for qual in ("MatrixProductState.gate_with_auto_swap", "MatrixProductOperator.gate_sandwich_with_auto_swap"):
        f = ctx.prog.func("quimb.tensor.tn1d.core", qual)
        where = f"{f.module.relpath}:{f.lineno}"
        # the two locals unpacked from the `where` parameter (whatever they are called)
        pair = None
        for a_ in ast.walk(f.node):
            if isinstance(a_, ast.Assign) and isinstance(a_.targets[0], ast.Tuple) and len(a_.targets[0].elts) == 2 and isinstance(a_.value, ast.Name) and a_.value.id == "where" \
                    and all(isinstance(e_, ast.Name) for e_ in a_.targets[0].elts):
                pair = {e_.id for e_ in a_.targets[0].elts}
        if pair is None:
            r.skip(qual, "the two sites are not unpacked from `where`")
            continue
        order_ifs = [x for x in ast.walk(f.node) if isinstance(x, ast.If) and isinstance(x.test, ast.Compare) and len(x.test.ops) == 1
                     and isinstance(x.test.ops[0], (ast.Gt, ast.Lt)) and isinstance(x.test.left, ast.Name) and isinstance(x.test.comparators[0], ast.Name)
                     and {x.test.left.id, x.test.comparators[0].id} == pair]
        # orientation variables: locals (other than the two sites) assigned a 2-tuple built from the sites inside such a branch
        ovars = set()
        for o in order_ifs:
            for st_ in o.body + o.orelse:
                for a_ in ast.walk(st_):
                    if isinstance(a_, ast.Assign) and isinstance(a_.value, ast.Tuple) and len(a_.value.elts) == 2 \
                            and any(isinstance(y_, ast.Name) and y_.id in pair for y_ in ast.walk(a_.value)):
                        ovars |= {t_.id for t_ in a_.targets if isinstance(t_, ast.Name) and t_.id not in pair}
        targets = [x for x in ast.walk(f.node) if isinstance(x, ast.Assign) and any(isinstance(t, ast.Name) and t.id in ovars for t in x.targets)
                   and not (isinstance(x.value, ast.Constant) and x.value.value is None)]
        if not targets:
            r.skip(qual, "no orientation variable found")
            continue
        if not order_ifs:
            r.bad(Finding("where-order", qual, "no branch on the original order of the two sites (i > j) found", where=where))
            continue
        # a gate application whose `where` is a tuple written outside the order branch has a fixed orientation
        for c in ast.walk(f.node):
            if isinstance(c, ast.Call) and isinstance(c.func, ast.Attribute) and c.func.attr.rstrip("_") in ("gate_split", "gate_sandwich", "gate", "gate_inds"):
                wv = next((k.value for k in c.keywords if k.arg == "where"), None)
                if isinstance(wv, ast.Tuple) and len(wv.elts) == 2 and all(isinstance(e, ast.Name) for e in wv.elts) and {e.id for e in wv.elts} == pair:
                    inside = any(any(c is y for y in ast.walk(o)) for o in order_ifs)
                    if not inside:
                        r.bad(Finding("where-order", qual,
                                      f"`{src_of(c)[:60]}` (line {c.lineno}) applies the gate on the sorted pair {src_of(wv)} outside the branch on the original site order: "
                                      "for where=(larger, smaller) the gate is applied with its two legs exchanged", where=where, operand=f"line-independent:{src_of(wv)}"))
        for a in targets:
            inside = any(any(a is y for y in ast.walk(o)) for o in order_ifs)
            if inside:
                r.ok(f"{qual}[line {a.lineno}]", sample={"function": qual, "assignment": src_of(a)[:50], "control": "under the i > j test"})
            else:
                r.bad(Finding("where-order", qual,
                              f"`{src_of(a)[:50]}` (line {a.lineno}) is assigned outside the branch on the original site order: for where=(larger, smaller) "
                              f"the gate is applied with its two legs exchanged", where=where, operand=f"line-independent:{src_of(a.value)[:30]}"))
    return r


def rule_fresh_bond_names(ctx):
    r = RuleResult(
        "fresh-bond-names",
        "an index that a gate routine creates and leaves inside the caller's network (the bond of a split gate / split "
        "tensor) is named by rand_uuid() or by a caller-supplied parameter, never by a string literal: a literal name "
        "silently merges with any existing index of the same name (hyper-index) and changes the network's value",
    )
    mod = ctx.prog.modules.get("quimb.tensor.gating")
    if mod is None:
        raise AnalysisError("quimb.tensor.gating not found")
    n = 0
    for f in mod.all_functions:
        if f.is_alias or isinstance(f.node, ast.Lambda):
            continue
        defs = {}
        for x in ast.walk(f.node):
            if isinstance(x, ast.Assign) and len(x.targets) == 1 and isinstance(x.targets[0], ast.Name):
                defs.setdefault(x.targets[0].id, []).append(x.value)
        literal_bonds = set()
        for c in ast.walk(f.node):
            if not isinstance(c, ast.Call):
                continue
            for kw in c.keywords:
                if kw.arg != "bond_ind":
                    continue
                n += 1
                v = kw.value
                where = f"{f.module.relpath}:{c.lineno}"
                if isinstance(v, ast.Constant) and isinstance(v.value, str):
                    literal_bonds.add(v.value)
                    r.bad(Finding("fresh-bond-names", f.qualname,
                                  f"`{src_of(c.func)}(..., bond_ind={v.value!r})` creates an index with the fixed name {v.value!r} that stays in the gated network: "
                                  f"if the target already has an index {v.value!r} the two are silently identified",
                                  where=where, operand=f"bond_ind={v.value}"))
                elif isinstance(v, ast.Constant) and v.value is None:
                    r.ok(f"{f.qualname}@{c.lineno}", nontrivial=False)
                elif isinstance(v, ast.Name) and (v.id in f.params or any(isinstance(d, ast.Call) and (getattr(d.func, "id", None) or getattr(d.func, "attr", None)) == "rand_uuid" for d in defs.get(v.id, []))):
                    r.ok(f"{f.qualname}@{c.lineno}", sample={"function": f.qualname, "bond": v.id, "from": "rand_uuid()" if v.id not in f.params else "parameter"})
                else:
                    r.skip(f"{f.qualname}@{c.lineno}", f"bond name `{src_of(v)}` provenance not followed")
    r.floor(n, 5, "bond_ind= sites in gating.py")
    return r


def rule_nonlocal_factorisation(ctx):
    r = RuleResult(
        "nonlocal-factorisation",
        "MatrixProductState.gate_nonlocal factorises the dense gate into a sub-MPO before applying it: that factorisation is itself a "
        "truncating split with its own default cutoff and its own default site tags, so the call receives (i) the state's site_tag_id — "
        "otherwise the gate tensors carry foreign tags on a state with custom tags — and (ii) the caller's `cutoff` whenever one is "
        "given (keyword, or a dict that was filled from compress_opts['cutoff']) — otherwise cutoff=0.0 does not mean exact",
    )
    f = ctx.prog.func("quimb.tensor.tn1d.core", "MatrixProductState.gate_nonlocal")
    if f is None:
        raise AnalysisError("nonlocal-factorisation: MatrixProductState.gate_nonlocal not found")
    calls = [c for c in ast.walk(f.node) if isinstance(c, ast.Call) and isinstance(c.func, ast.Attribute) and c.func.attr == "from_dense"]
    if not calls:
        raise AnalysisError("nonlocal-factorisation: gate_nonlocal no longer factorises the gate with from_dense")
    kwparam = f.node.args.kwarg.arg if f.node.args.kwarg else None
    for c in calls:
        where = f"{f.module.relpath}:{c.lineno}"
        kws = {k.arg: k.value for k in c.keywords if k.arg}
        stars = [k.value.id for k in c.keywords if k.arg is None and isinstance(k.value, ast.Name)]
        # (i) tags
        tag_ok = "site_tag_id" in kws and any(isinstance(y, ast.Name) and y.id == "self" for y in ast.walk(kws["site_tag_id"]))
        if tag_ok:
            r.ok("gate_nonlocal[site_tag_id]", sample={"from_dense": "site_tag_id=" + src_of(kws["site_tag_id"])})
        else:
            r.bad(Finding("nonlocal-factorisation", "MatrixProductState.gate_nonlocal", "the gate's sub-MPO is built with from_dense's default site tags, not the state's site_tag_id",
                          where=where, operand="site_tag_id"))
        # (ii) cutoff
        cut_ok = False
        if "cutoff" in kws and kwparam and any(isinstance(y, ast.Name) and y.id == kwparam for y in ast.walk(kws["cutoff"])):
            cut_ok = True
        if kwparam in stars:
            cut_ok = True
        for d in stars:
            for a in ast.walk(f.node):
                if isinstance(a, ast.Assign) and any(isinstance(t, ast.Subscript) and isinstance(t.value, ast.Name) and t.value.id == d and const_value(t.slice, None) == "cutoff" for t in a.targets) \
                        and kwparam and any(isinstance(y, ast.Name) and y.id == kwparam for y in ast.walk(a.value)):
                    cut_ok = True
        if cut_ok:
            r.ok("gate_nonlocal[cutoff]", sample={"from_dense": "receives the caller's cutoff"})
        else:
            r.bad(Finding("nonlocal-factorisation", "MatrixProductState.gate_nonlocal",
                          "the gate's sub-MPO is built with from_dense's own default cutoff: the caller's cutoff (e.g. 0.0 for an exact application) does not reach the "
                          "factorisation of the gate, weak interaction terms are dropped", where=where, operand="cutoff"))
    return r
