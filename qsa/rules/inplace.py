"""C03 family: the in-place discipline.

rules
  inplace-effect   under ``inplace=False`` (all other flags at their defaults)
                   no mutation effect reaches a *subject* of the function
  alias-spelling   ``X_ = partialmethod(T, inplace=True)``  =>  T is X
  array-immut      no in-place write into numerical data owned by a tensor
"""

import ast

from ..framework import RuleResult, Finding, CONTROL_REL
from ..effects import flat, flags_of
from ..model import const_value, dotted, src_of

# Documented exceptions, one symbol each.
EXEMPT_SUBJECTS = {
    ("TensorNetwork.insert_compressor_between_regions", "insert_into"):
        "documented output parameter: when given, the compressor tensors are inserted into it "
        "(the receiver is then left untouched, which the rule checks on the forked path)",
}


def subjects_of(ctx, f, sT):
    subj = set()
    for o in flat(sT.ret):
        if o[0] == "P":
            subj.add(o[1])
    if f.cls is not None and not f.is_static and not f.is_classmethod and f.posparams:
        if f.name == "__init__":
            for o in sT.holds.get(f.posparams[0], ()):
                if o[0] == "P":
                    subj.add(o[1])
        else:
            subj.add(f.posparams[0])
    for fl in flags_of(f):
        if fl.startswith("inplace_") and fl[8:] in f.params:
            subj.add(fl[8:])
    subj.discard("cls")
    return subj


def inplace_functions(ctx, family=None):
    out = []
    for f in ctx.prog.all_functions(nested=False):
        if f.is_alias or "inplace" not in f.params:
            continue
        if family is not None and not family(f):
            continue
        out.append(f)
    return out


def rule_inplace_effect(ctx, family=None, rule="inplace-effect", floor=200, controls=1):
    r = RuleResult(
        rule,
        "for every function with an `inplace` parameter: under inplace=False no mutation effect "
        "(attribute/subscript store, mutator call, in-place operator, array write; followed through "
        "the call graph with alias tracking) reaches the receiver / returned-in-place argument or any "
        "tensor it shares with it",
    )
    eff = ctx.eff
    funcs = inplace_functions(ctx, family)
    r.floor(len([f for f in funcs if not ctx.is_control(f)]), floor, "functions with an inplace parameter")
    r.need_controls(controls)
    for f in funcs:
        sT = eff.summary(f, {"inplace": True})
        sF = eff.summary(f, {"inplace": False})
        subj = subjects_of(ctx, f, sT)
        if not subj:
            r.skip(f.fq, "no subject identified (nothing returned in place, not a method)")
            continue
        if f.name == "__init__" and f.posparams and f.cls is not None:
            # a constructor that copies under inplace=False must not *retain* the caller's network either: its
            # later methods (run, normalize, compress ...) would then mutate it.  Only parameters stored in an
            # attribute that the class uses as a tensor network are considered.
            kept = {o[1] for o in sF.holds.get(f.posparams[0], ()) if o[0] == "P"} & subj
            for prm in sorted(kept):
                attrs = set()
                for c_ in f.cls.mro:
                    ini = c_.methods.get("__init__")
                    if ini is None or ini.is_alias:
                        continue
                    for n_ in ast.walk(ini.node):
                        if isinstance(n_, ast.Assign) and any(isinstance(t_, ast.Attribute) and src_of(t_.value) == "self" for t_ in n_.targets):
                            if any(isinstance(x_, ast.Name) and x_.id == prm for x_ in ast.walk(n_.value)):
                                attrs |= {t_.attr for t_ in n_.targets if isinstance(t_, ast.Attribute)}
                network_attr = False
                for c_ in f.cls.mro:
                    for m_ in c_.methods.values():
                        if m_.is_alias or isinstance(m_.node, ast.Lambda):
                            continue
                        for x_ in ast.walk(m_.node):
                            if isinstance(x_, ast.Attribute) and x_.attr in ("tensor_map", "ind_map", "tag_map", "tensors") and isinstance(x_.value, ast.Attribute) \
                                    and x_.value.attr in attrs and src_of(x_.value.value) == "self":
                                network_attr = True
                if not network_attr:
                    continue
                r.bad(Finding(
                    rule, f.qualname,
                    f"under inplace=False the constructor keeps a reference to the caller's `{prm}` (stored on self): every later in-place "
                    f"method of the object then mutates the caller's network", where=f"{f.module.relpath}:{f.lineno}", operand=prm + ":retained"))
        for prm in sorted(subj):
            construct = f"{f.qualname}"
            muts = [m for m in sF.mut.get(prm, []) if m.level in ("obj", "elem")]
            sure = [m for m in muts if m.sure]
            ex = EXEMPT_SUBJECTS.get((f.qualname, prm))
            if sure and ex:
                r.exempt(f"{construct}[{prm}]", ex)
                continue
            if sure:
                m = sure[0]
                r.bad(Finding(
                    rule, construct,
                    f"under inplace=False the plain spelling mutates `{prm}`: {m.what} (line {m.line})",
                    where=f"{f.module.relpath}:{f.lineno}", operand=prm,
                    detail=[f"via {c}" for c in m.chain],
                ))
            else:
                if muts:
                    r.unresolved += 1
                    if len(r.notes) < 20:
                        r.notes.append(f"possible (unresolved receiver/flag) mutation of {prm} in {f.fq}: {muts[0].what}")
                mutT = [m for m in sT.mut.get(prm, []) if m.sure and m.level in ("obj", "elem")]
                r.ok(
                    f"{construct}[{prm}]",
                    sample={"function": f.fq, "subject": prm,
                            "inplace=True": (mutT[0].what if mutT else "no sure mutation"),
                            "inplace=False": "no mutation reaches the subject"},
                    nontrivial=bool(mutT),
                )
    return r


def rule_alias_spelling(ctx, family=None, floor=150):
    r = RuleResult(
        "alias-spelling",
        "every `X_ = functools.partialmethod(T, inplace=True)` binds T to the method named X of the "
        "same class body (so f_ is f on the same object) and T has an `inplace` parameter",
    )
    n = 0
    r.need_controls(1)
    for c in ctx.prog.all_classes():
        for name, f in c.methods.items():
            if not f.is_alias or f.cls is not c:
                continue
            kw = f.alias_kwargs
            if "inplace" not in kw:
                continue
            if family is not None and not family(f):
                continue
            n += 1
            construct = f"{c.name}.{name}"
            where = f"{c.module.relpath}:{f.lineno}"
            if const_value(kw["inplace"], None) is not True:
                r.bad(Finding("alias-spelling", construct, "alias does not bind inplace=True", where=where))
                continue
            if not name.endswith("_"):
                # e.g. a plain name bound in place on purpose: not a pair
                r.skip(construct, "alias without trailing underscore")
                continue
            real, akw = ctx.prog.deref_alias(f)
            plain = c.find(name[:-1])
            if real is None or plain is None:
                r.bad(Finding(
                    "alias-spelling", construct,
                    f"in-place spelling `{name}` (bound to `{f.alias_target}`) has no resolvable plain twin "
                    f"`{name[:-1]}` in the class", where=where,
                ))
                continue
            preal, pkw = (ctx.prog.deref_alias(plain) if plain.is_alias else (plain, {}))
            if preal is not real:
                r.bad(Finding(
                    "alias-spelling", construct,
                    f"in-place spelling `{name}` is bound to `{real.qualname}`, but `{name[:-1]}` is "
                    f"`{preal.qualname if preal else '?'}`", where=where,
                ))
                continue
            a_kw = {k: ast.dump(v) for k, v in akw.items() if k != "inplace"}
            p_kw = {k: ast.dump(v) for k, v in pkw.items()}
            if a_kw != p_kw:
                r.bad(Finding(
                    "alias-spelling", construct,
                    f"`{name}` and `{name[:-1]}` bind different keywords: {sorted(a_kw)} vs {sorted(p_kw)}",
                    where=where,
                ))
                continue
            if not real.accepts("inplace"):
                r.bad(Finding("alias-spelling", construct, f"target `{real.qualname}` does not accept inplace", where=where))
                continue
            r.ok(construct, sample={"alias": construct, "target": real.fq, "bound": sorted(akw)})
    r.floor(n - r.controls_flagged, floor, "inplace partialmethod aliases")
    return r


def rule_array_immut(ctx):
    r = RuleResult(
        "array-immut",
        "copies share numerical arrays, so no code under quimb/tensor writes in place (subscript store, "
        "augmented assignment, out=, .fill/.sort/..., np.copyto/put*) into an array obtained from a "
        "tensor or network (.data/.arrays/.params/get_params, followed through views and callees)",
    )
    eff = ctx.eff
    n = 0
    r.need_controls(1)
    for f in ctx.prog.all_functions(nested=True):
        if f.is_alias or not f.module.name.startswith("quimb.tensor"):
            continue
        s = eff.summary(f, {})
        extra = []
        if "inplace" in f.params:
            extra = eff.summary(f, {"inplace": True}).awrites
        n += 1
        aws = list(s.awrites) + [a for a in extra if a not in s.awrites]
        if not aws:
            r.ok(f.qualname, nontrivial=False)
            continue
        for prm, line, what, chain in aws:
            r.bad(Finding(
                "array-immut", f.qualname,
                f"in-place write into array data of `{prm}`: {what} (line {line})",
                where=f"{f.module.relpath}:{f.lineno}", operand=prm,
                detail=[f"via {c}" for c in chain],
            ))
    r.floor(n, 2000, "functions scanned under quimb/tensor")
    # how many array-valued reads were tracked (non-vacuity of the A-origin)
    return r


PURE_DUNDERS = {
    "__add__", "__sub__", "__mul__", "__truediv__", "__pow__", "__and__", "__or__", "__matmul__", "__xor__",
    "__rshift__", "__lshift__", "__neg__", "__pos__", "__abs__", "__radd__", "__rsub__", "__rmul__",
    "__rtruediv__", "__rpow__", "__rmatmul__", "__floordiv__", "__mod__", "__invert__", "__eq__", "__ne__",
    "__getitem__", "__contains__", "__len__", "__iter__", "__repr__", "__str__", "__copy__", "__call__",
}


OPERATOR_EXEMPT = {
    "Tensor.__or__": "`|` builds a *virtual* network that shares its operands' tensors by design; colliding inner "
                     "bond labels are mangled on the shared tensors (a value-preserving rename of internal labels)",
    "TensorNetwork.__or__": "same: virtual combination, inner-label mangling on shared tensors is the documented semantics",
}


def rule_operator_pure(ctx):
    r = RuleResult(
        "operator-pure",
        "binary / unary operators of the tensor classes are the plain spelling of their in-place twins (`__iop__`): "
        "every non-in-place operator method of Tensor / TensorNetwork (including the arithmetic operators that "
        "are generated by a factory and attached with setattr) reaches no mutation effect on either operand",
    )
    eff = ctx.eff
    targets = []
    # (a) explicit dunder methods
    for c in ctx.prog.all_classes():
        if not eff.in_tensor_world(c):
            continue
        for name, f in c.methods.items():
            if f.cls is c and not f.is_alias and name in PURE_DUNDERS and name not in ("__call__", "__getitem__", "__iter__"):
                targets.append((f"{c.name}.{name}", f))
    # (b) factory-made operators:  setattr(Tensor, meth_name, factory(op, meth_name))
    m = ctx.prog.module("quimb.tensor.tensor_core")
    factories = set()
    for n in ast.walk(m.tree):
        if isinstance(n, ast.Call) and isinstance(n.func, ast.Name) and n.func.id == "setattr" and len(n.args) == 3:
            v = n.args[2]
            if isinstance(v, ast.Call) and isinstance(v.func, ast.Name) and v.func.id in m.functions:
                factories.add(v.func.id)
    for fac in sorted(factories):
        for f in m.all_functions:
            if f.parent is not None and f.parent.name == fac and f.parent.parent is None:
                targets.append((f"{fac}.<locals>.{f.name}", f))
    r.floor(len(targets), 12, "operator functions")
    for label, f in targets:
        s = eff.summary(f, {})
        bad = None
        for prm in f.posparams[:2]:
            sure = [mu for mu in s.mut.get(prm, []) if mu.sure and mu.level in ("obj", "elem")]
            if sure:
                bad = (prm, sure[0])
                break
        if bad and label in OPERATOR_EXEMPT:
            r.exempt(label, OPERATOR_EXEMPT[label])
        elif bad:
            prm, mu = bad
            r.bad(Finding(
                "operator-pure", label,
                f"non-in-place operator mutates its operand `{prm}`: {mu.what} (line {mu.line})",
                where=f"{f.module.relpath}:{f.lineno}", operand=prm, detail=[f"via {c}" for c in mu.chain],
            ))
        else:
            r.ok(label, sample={"operator": label, "operands": f.posparams[:2], "effect": "none reaches the operands"})
    return r


# ------------------------------------------------------------- axis-by-label
REDUCERS = {"sum", "mean", "max", "min", "prod", "take", "trace", "argmax", "argmin", "any", "all", "norm", "count_nonzero",
            "cumsum", "squeeze", "amax", "amin", "nansum", "std", "var", "diagonal", "multiply_diagonal", "concatenate"}
ELEMENTWISE = {"conj", "real", "imag", "abs", "sqrt", "exp", "log", "astype", "asarray", "copy", "to_numpy", "square"}


def rule_axis_by_label(ctx):
    r = RuleResult(
        "axis-by-label",
        "a reduction / selection along an axis of an array taken directly from a stored tensor (t.data, possibly "
        "through elementwise maps) must obtain the axis from the tensor's labels (inds.index(...)): a literal or "
        "ndim-derived axis silently assumes one storage order (results then depend on how a tensor happens to "
        "store its axes)",
    )
    n_lab = 0
    for g in ctx.prog.all_functions(nested=False):
        if g.is_alias or isinstance(g.node, ast.Lambda) or not g.module.name.startswith("quimb.tensor"):
            continue
        if g.module.name.startswith(("quimb.tensor.decomp", "quimb.tensor.array_ops", "quimb.tensor.contraction", "quimb.tensor.optimize",
                                     "quimb.tensor.drawing", "quimb.tensor.fitting", "quimb.tensor.belief_propagation", "quimb.tensor.circuit")):
            continue  # array-level code: arrays there have a fixed, locally established layout
        defs = {}
        for n in ast.walk(g.node):
            if isinstance(n, ast.Assign) and len(n.targets) == 1 and isinstance(n.targets[0], ast.Name):
                defs.setdefault(n.targets[0].id, []).append(n.value)

        def is_data(e, depth=0):
            """expression is tensor data in stored axis order"""
            if depth > 4:
                return False
            if isinstance(e, ast.Attribute) and e.attr in ("data", "_data"):
                # data of a tensor that was explicitly transposed to a known order is fine
                base = e.value
                if isinstance(base, ast.Call) and isinstance(base.func, ast.Attribute) and base.func.attr.startswith(("transpose", "fuse", "to_dense")):
                    return False
                if isinstance(base, ast.Name) and any(isinstance(d, ast.Call) and isinstance(d.func, ast.Attribute) and d.func.attr.startswith(("transpose", "fuse", "contract")) for d in defs.get(base.id, [])):
                    return False
                return True
            if isinstance(e, ast.Name):
                return any(is_data(d, depth + 1) for d in defs.get(e.id, []))
            if isinstance(e, ast.BinOp):
                return is_data(e.left, depth + 1) or is_data(e.right, depth + 1)
            if isinstance(e, ast.Call):
                fn = (dotted(e.func) or "").split(".")[-1]
                args = list(e.args)
                if fn == "do" and args and isinstance(args[0], ast.Constant):
                    fn = str(args[0].value)
                    args = args[1:]
                if fn in ELEMENTWISE and args:
                    return is_data(args[0], depth + 1)
                if isinstance(e.func, ast.Attribute) and e.func.attr in ELEMENTWISE:
                    return is_data(e.func.value, depth + 1)
            return False

        def labelled(e, depth=0):
            """axis expression derived from a label lookup"""
            if depth > 4:
                return False
            for x in ast.walk(e):
                if isinstance(x, ast.Call) and isinstance(x.func, ast.Attribute) and x.func.attr == "index":
                    return True
                if isinstance(x, ast.Name) and x.id in defs and any(labelled(d, depth + 1) for d in defs[x.id]):
                    return True
                if isinstance(x, ast.Name) and x.id in g.params and x.id.startswith(("axis", "ax")):
                    return True  # the caller supplies the axis together with the matching label bookkeeping
            return False

        for c in ast.walk(g.node):
            if not isinstance(c, ast.Call):
                continue
            fn = (dotted(c.func) or "")
            base = fn.split(".")[-1]
            args = list(c.args)
            if base == "do" and args and isinstance(args[0], ast.Constant):
                base = str(args[0].value).split(".")[-1]
                args = args[1:]
            if base not in REDUCERS:
                continue
            axis = next((k.value for k in c.keywords if k.arg in ("axis", "axes")), None)
            if axis is None:
                continue
            target = args[0] if args else (c.func.value if isinstance(c.func, ast.Attribute) else None)
            if isinstance(target, (ast.Tuple, ast.List)) and target.elts:
                target = target.elts[0]
            if target is None or not is_data(target):
                continue
            construct = f"{g.qualname}:{base}"
            if labelled(axis):
                n_lab += 1
                r.ok(construct, sample={"function": g.qualname, "operation": src_of(c)[:70], "axis": "from inds.index(...)"})
            else:
                r.bad(Finding(
                    "axis-by-label", g.qualname,
                    f"`{src_of(c)[:70]}` (line {c.lineno}) reduces stored tensor data along axis `{src_of(axis)}`, which is not derived from a label "
                    f"lookup: the result depends on the order in which the tensor stores its axes",
                    where=f"{g.module.relpath}:{c.lineno}", operand=base))
        # positional broadcasting: stored data combined elementwise with a freshly built lower-rank array aligns on the
        # trailing stored axes, whatever label they carry
        ARRAY_MAKERS = {"asarray", "array", "ones", "zeros", "arange", "linspace", "diag", "stack", "concatenate", "eye", "full", "ones_like", "zeros_like"}

        def made_array(e, depth=0):
            if depth > 3:
                return False
            if isinstance(e, ast.Call):
                fn = (dotted(e.func) or "").split(".")[-1]
                args = list(e.args)
                if fn == "do" and args and isinstance(args[0], ast.Constant):
                    fn = str(args[0].value).split(".")[-1]
                    args = args[1:]
                if fn in ("ones_like", "zeros_like"):
                    return False  # same shape as its argument: no broadcasting
                if fn in ARRAY_MAKERS:
                    return True
                if fn in ("reshape",) and args:
                    return False  # an explicit reshape establishes the alignment
            if isinstance(e, ast.Name):
                return any(made_array(d, depth + 1) for d in defs.get(e.id, []))
            return False

        for b in ast.walk(g.node):
            if isinstance(b, ast.BinOp) and isinstance(b.op, (ast.Mult, ast.Add, ast.Sub, ast.Div)):
                for data_side, other in ((b.left, b.right), (b.right, b.left)):
                    if is_data(data_side) and not is_data(other) and made_array(other):
                        r.bad(Finding(
                            "axis-by-label", g.qualname,
                            f"`{src_of(b)[:70]}` (line {b.lineno}) broadcasts a freshly built array against stored tensor data: the array is aligned "
                            "with the trailing stored axis, not with the labelled index it is meant for — the result depends on the storage order",
                            where=f"{g.module.relpath}:{b.lineno}", operand="broadcast"))
                        break
    r.floor(n_lab, 2, "label-derived axis uses on tensor data")
    r.need_controls(1)
    return r


# ------------------------------------------------------------------ positional hand-over
HANDOVER_EXEMPT = {
    "tensor_network_sum": "the direct product is built from the operand whose axis order the target shares (a copy of the first network)",
    "tensor_network_fit_autodiff": "the optimised tensors belong to a copy of the same network (same order of tensors, same axis order)",
    "_tn1d_fit_sum_sweep_1site": "the new tensor is contracted with the target's own index order",
    "TensorNetworkInfinite2DFlat._sync_site": "tensors of one site type share one layout by construction",
}


def rule_positional_handover(ctx):
    r = RuleResult(
        "axis-by-label[handover]",
        "`A.modify(data=B.data)` copies B's array into A positionally. On every path to such a hand-over B has been given A's axis "
        "order — `B.transpose_like_(A)` (possibly at the end of a call chain) after B's last definition, or B is contracted with "
        "`output_inds=A.inds` — otherwise the result depends on how B happens to store its axes (must-analysis over the "
        "function's branches; a raising branch is not a path)",
    )
    n = 0
    for g in ctx.prog.all_functions(nested=False):
        if g.is_alias or isinstance(g.node, ast.Lambda) or not g.module.name.startswith("quimb.tensor"):
            continue
        sites = []
        for c in ast.walk(g.node):
            if isinstance(c, ast.Call) and isinstance(c.func, ast.Attribute) and c.func.attr == "modify" and isinstance(c.func.value, ast.Name):
                kws = {k.arg: k.value for k in c.keywords if k.arg}
                d = kws.get("data")
                if "inds" in kws or d is None:
                    continue
                if isinstance(d, ast.Attribute) and d.attr == "data" and isinstance(d.value, ast.Name) and d.value.id != c.func.value.id:
                    sites.append((c, c.func.value.id, d.value.id))
        if not sites:
            continue
        verdicts = {}

        def chain_root(call):
            x = call
            while isinstance(x, ast.Call) and isinstance(x.func, ast.Attribute):
                x = x.func.value
            return x.id if isinstance(x, ast.Name) else None

        def step(st, state):
            """state: frozenset of (B, A) pairs `B is stored in A's axis order`; returns new state or None (path ends)."""
            # hand-over sites inside this simple statement are judged against the state *before* it
            for c, A, B in sites:
                if any(x is c for x in ast.walk(st)) and not isinstance(st, (ast.If, ast.For, ast.While, ast.With, ast.Try)):
                    verdicts.setdefault(id(c), []).append((B, A) in state)
            if isinstance(st, (ast.Return, ast.Raise, ast.Continue, ast.Break)):
                return None
            if isinstance(st, ast.If):
                a = run(st.body, state)
                b = run(st.orelse, state)
                if a is None:
                    return b
                if b is None:
                    return a
                return a & b
            if isinstance(st, (ast.For, ast.While)):
                a = run(st.body, state)
                return state if a is None else (state & a)
            if isinstance(st, ast.With):
                return run(st.body, state)
            if isinstance(st, ast.Try):
                a = run(st.body, state)
                outs = [a] + [run(h.body, state) for h in st.handlers]
                outs = [o for o in outs if o is not None]
                if not outs:
                    return None
                res = outs[0]
                for o in outs[1:]:
                    res = res & o
                return res
            new = set(state)
            # definitions kill
            if isinstance(st, (ast.Assign, ast.AugAssign)):
                tg = st.targets if isinstance(st, ast.Assign) else [st.target]
                killed = {y.id for t in tg for y in ast.walk(t) if isinstance(y, ast.Name)}
                new = {(b_, a_) for (b_, a_) in new if b_ not in killed and a_ not in killed}
                # B = <...>.contract(..., output_inds=A.inds)  /  B = X.transpose_like(A)
                if isinstance(st, ast.Assign) and len(tg) == 1 and isinstance(tg[0], ast.Name) and isinstance(st.value, ast.Call):
                    v = st.value
                    for kw in v.keywords:
                        if kw.arg == "output_inds" and isinstance(kw.value, ast.Attribute) and kw.value.attr == "inds" and isinstance(kw.value.value, ast.Name):
                            new.add((tg[0].id, kw.value.value.id))
                    if isinstance(v.func, ast.Attribute) and v.func.attr in ("transpose_like", "transpose_like_") and v.args and isinstance(v.args[0], ast.Name):
                        new.add((tg[0].id, v.args[0].id))
            # B.transpose_like_(A), also at the end of a chain  B.reindex_(...).transpose_like_(A)
            for x in ast.walk(st):
                if isinstance(x, ast.Call) and isinstance(x.func, ast.Attribute) and x.func.attr == "transpose_like_" and x.args and isinstance(x.args[0], ast.Name):
                    root = chain_root(x)
                    if root:
                        new.add((root, x.args[0].id))
                # another in-place axis permutation of B un-aligns it
                if isinstance(x, ast.Call) and isinstance(x.func, ast.Attribute) and x.func.attr in ("transpose_", "moveindex_", "fuse_", "unfuse_") and isinstance(x.func.value, ast.Name):
                    new = {(b_, a_) for (b_, a_) in new if b_ != x.func.value.id and a_ != x.func.value.id}
            return frozenset(new)

        def run(stmts, state):
            for st in stmts:
                state = step(st, state)
                if state is None:
                    return None
            return state

        run(g.node.body, frozenset())
        for c, A, B in sites:
            n += 1
            construct = f"{g.qualname}:{A}<-{B}"
            vs = verdicts.get(id(c), [])
            if g.qualname in HANDOVER_EXEMPT:
                r.exempt(construct, HANDOVER_EXEMPT[g.qualname])
            elif vs and all(vs):
                r.ok(construct, sample={"function": g.qualname, "hand-over": src_of(c)[:50], "aligned": f"{B} like {A} on every path"})
            elif not vs:
                r.skip(construct, "hand-over inside a nested function / comprehension: not enumerated")
            else:
                r.bad(Finding("axis-by-label", g.qualname,
                              f"`{src_of(c)[:60]}` hands `{B}`'s array to `{A}` positionally, but on some path `{B}` was not given `{A}`'s axis order "
                              f"(`{B}.transpose_like_({A})`) after its last definition: the result depends on the stored axis order of the operands",
                              where=f"{g.module.relpath}:{c.lineno}", operand=f"handover:{A}<-{B}"))
    r.floor(n, 8, "positional hand-over sites")
    return r
