"""C04 (and C08's 'any tensor flagged as isometric is'): the isometry flag
``left_inds`` as a typestate, and scale compensation through ``exponent``."""

import ast

from ..framework import RuleResult, Finding
from ..model import dotted, src_of, const_value
from .. import AnalysisError

TC = "quimb.tensor.tensor_core"

# callers allowed to use the low-level data setters that bypass modify()
SETTER_CALLERS = {
    "_set_data": {
        "Tensor.__init__": "constructor",
        "Tensor.modify": "clears the flag in the same branch",
        "Tensor.set_params": "re-wraps the same numbers in a copied structured array (meaning preserving)",
        "Tensor._apply_function": "only reachable from modify(apply=...) and PTensor plumbing",
        "PTensor._apply_function": "parametrized tensors chain the function lazily",
    },
    "_apply_function": {
        "Tensor.modify": "clears the flag in the same branch",
        "PTensor.conj": "conjugation preserves isometry; flag passed on explicitly",
    },
}

PRESERVING_FUNCS = {"conj", "reshape", "transpose", "astype", "copy", "asarray", "ascontiguousarray", "squeeze", "fuse", "unfuse", "to", "real_if_close"}
ARITH = (ast.Mult, ast.Div, ast.Add, ast.Sub, ast.Pow, ast.MatMult, ast.FloorDiv, ast.Mod)


def rule_iso_invalidate(ctx):
    r = RuleResult(
        "iso-invalidate",
        "every data write drops the isometry flag: in Tensor.modify the `data`, `apply` and `inds` branches each "
        "assign self._left_inds = None after the write (an explicit left_inds= in the same call re-asserts it "
        "afterwards); the low-level setters _set_data / _apply_function that bypass modify are called only from "
        "the listed meaning-preserving callers",
    )
    f = ctx.prog.func(TC, "Tensor.modify")
    where = f"{f.module.relpath}:{f.lineno}"
    order = []
    for st in f.node.body:
        if isinstance(st, ast.If) and isinstance(st.test, ast.Compare) and isinstance(st.test.left, ast.Constant):
            key = st.test.left.value
            order.append(key)
            if key in ("data", "apply", "inds"):
                clears = [n.lineno for n in ast.walk(st) if isinstance(n, ast.Assign) and any(src_of(t) == "self._left_inds" for t in n.targets) and const_value(n.value, 0) is None]
                writes = [n.lineno for n in ast.walk(st) if (isinstance(n, ast.Call) and isinstance(n.func, ast.Attribute) and n.func.attr in ("_set_data", "_apply_function"))
                          or (isinstance(n, ast.Assign) and any(src_of(t) in ("self._inds", "self._data") for t in n.targets))]
                top_clear = any(isinstance(s, ast.Assign) and any(src_of(t) == "self._left_inds" for t in s.targets) for s in st.body)
                if clears and writes and max(clears) > min(writes) and top_clear:
                    r.ok(f"Tensor.modify[{key}]", sample={"branch": key, "flag": "self._left_inds = None after the write"})
                else:
                    r.bad(Finding("iso-invalidate", "Tensor.modify", f"branch `{key}` does not (unconditionally) clear self._left_inds after writing",
                                  where=where, operand=key))
    for key in ("data", "apply", "inds", "left_inds"):
        if key not in order:
            raise AnalysisError(f"Tensor.modify lost its `{key}` branch")
    if order.index("left_inds") > max(order.index(k) for k in ("data", "apply", "inds")):
        r.ok("Tensor.modify[order]", sample={"order": order})
    else:
        r.bad(Finding("iso-invalidate", "Tensor.modify", "left_inds is applied before a branch that clears it", where=where, operand="order"))
    # who may call the bypassing setters
    n = 0
    for g in ctx.prog.all_functions(nested=True):
        if g.is_alias or isinstance(g.node, ast.Lambda):
            continue
        q = g.qualname.split(".<locals>.")[0]
        for c in ast.walk(g.node):
            if isinstance(c, ast.Call) and isinstance(c.func, ast.Attribute) and c.func.attr in SETTER_CALLERS:
                n += 1
                allowed = SETTER_CALLERS[c.func.attr]
                if q in allowed:
                    r.ok(f"{q}:{c.func.attr}", sample={"caller": q, "setter": c.func.attr, "why": allowed[q]})
                elif ctx.is_control(g):
                    r.bad(Finding("iso-invalidate", q, "control", where=f"{g.module.relpath}:{c.lineno}"))
                else:
                    r.bad(Finding("iso-invalidate", q,
                                  f"calls {src_of(c.func)}(...) which writes tensor data without clearing the isometry flag "
                                  f"(only {sorted(allowed)} may)", where=f"{g.module.relpath}:{c.lineno}", operand=c.func.attr))
    r.floor(n, 6, "calls of _set_data/_apply_function")
    return r


def _local_defs(fnode):
    defs = {}
    for n in ast.walk(fnode):
        if isinstance(n, ast.Assign) and len(n.targets) == 1 and isinstance(n.targets[0], ast.Name):
            defs.setdefault(n.targets[0].id, []).append(n.value)
    return defs


def _own_flag_source(expr, defs, depth=0):
    """If ``expr`` is (derived from) `<Y>.left_inds`, return src of Y."""
    if depth > 3 or expr is None:
        return None
    for n in ast.walk(expr):
        if isinstance(n, ast.Attribute) and n.attr in ("left_inds", "_left_inds") and isinstance(n.ctx, ast.Load):
            return src_of(n.value)
    if isinstance(expr, ast.Name) and expr.id in defs:
        for d in defs[expr.id]:
            y = _own_flag_source(d, defs, depth + 1)
            if y:
                return y
    return None


def _classify_data(expr, owner, defs, depth=0):
    """'same' / 'preserved' / 'scaled' / 'unknown' for a data expression
    relative to `<owner>.data`."""
    if expr is None or depth > 4:
        return "unknown"
    s = src_of(expr)
    if s in (f"{owner}.data", f"{owner}._data"):
        return "same"
    if isinstance(expr, ast.Name) and expr.id in defs:
        kinds = {_classify_data(d, owner, defs, depth + 1) for d in defs[expr.id]}
        if "scaled" in kinds:
            return "scaled"
        if kinds <= {"same", "preserved"}:
            return "preserved"
        return "unknown"
    if isinstance(expr, ast.BinOp) and isinstance(expr.op, ARITH):
        sides = [_classify_data(expr.left, owner, defs, depth + 1), _classify_data(expr.right, owner, defs, depth + 1)]
        if any(k in ("same", "preserved", "scaled") for k in sides):
            return "scaled"
        return "unknown"
    if isinstance(expr, ast.Call):
        fn = dotted(expr.func) or ""
        base = fn.split(".")[-1]
        args = list(expr.args)
        if base == "do" and args and isinstance(args[0], ast.Constant):
            base = str(args[0].value)
            args = args[1:]
        if isinstance(expr.func, ast.Attribute) and base in PRESERVING_FUNCS:
            k = _classify_data(expr.func.value, owner, defs, depth + 1)
            return "preserved" if k in ("same", "preserved") else k
        if base in PRESERVING_FUNCS and args:
            k = _classify_data(args[0], owner, defs, depth + 1)
            return "preserved" if k in ("same", "preserved") else k
        # any other function of the owner's data *and* the data of another tensor (direct sum / product, stacking, contraction
        # with a second operand): the result is a different matrix; whether it is still an isometry is a property of the
        # operation and of which indices are summed, not something the owner's flag can vouch for
        if len(args) >= 2:
            kinds = [_classify_data(a, owner, defs, depth + 1) for a in args]
            other_data = any(isinstance(y, ast.Attribute) and y.attr in ("data", "_data") and src_of(y.value) != owner for a in args for y in ast.walk(a))
            if any(k in ("same", "preserved") for k in kinds) and other_data:
                return "scaled"
        return "unknown"
    return "unknown"


CLAIM_EXEMPT = {}

# constructions that flag caller-supplied operator data as 'left-isometric'
PARAM_CLAIM_EXEMPT = {
    "MERA.__init__": "documented: the constructor takes the unitaries / isometries of a MERA",
    "MERA.from_fill_fn": "fills are isometrized before use",
}


def rule_iso_claim(ctx, only_modules=None, rule="iso-claim"):
    r = RuleResult(
        rule,
        "a non-None left_inds may be (re)asserted together with new data only if the data keeps the isometry: "
        "(i) every site that re-asserts a tensor's own flag (left_inds derived from <t>.left_inds) pairs it with "
        "that tensor's data unchanged or transformed only by conj/reshape/transpose/astype — never with "
        "arithmetic on it; modify(apply=f, left_inds=own) only for f = conj; (ii) no construction flags a "
        "caller-supplied array (a function parameter) as isometric",
    )
    r.need_controls(1)
    n_own = 0
    n_param = 0
    n_split = [0]
    for g in ctx.prog.all_functions(nested=False):
        if g.is_alias or isinstance(g.node, ast.Lambda) or not g.module.name.startswith("quimb.tensor"):
            continue
        if only_modules is not None and g.module.name not in only_modules and not ctx.is_control(g):
            continue
        defs = _local_defs(g.node)
        q = g.qualname if not ctx.is_control(g) else "QsaControl." + g.qualname
        for c in ast.walk(g.node):
            if not isinstance(c, ast.Call):
                continue
            kws = {k.arg: k.value for k in c.keywords if k.arg}
            if "left_inds" not in kws or const_value(kws["left_inds"], 0) is None:
                continue
            fn = dotted(c.func) or src_of(c.func)
            base = fn.split(".")[-1]
            is_modify = base == "modify"
            is_ctor = base in ("Tensor", "PTensor", "IsoTensor", "from_parray") or fn in ("self.__class__", "cls")
            if not (is_modify or is_ctor):
                continue  # e.g. split(left_inds=...) names a bipartition, not a claim
            where = f"{g.module.relpath}:{c.lineno}"
            data = kws.get("data")
            if data is None and is_ctor and c.args:
                data = c.args[0]
            # (iv) data made by the free function isometrize()/unitize(): the result has orthonormal columns only when the matrix
            # is not wider than tall (else orthonormal rows), so the flagged side has to depend on the shape
            if data is not None:
                verdict = _isometrized_claim(g, c, data, kws["left_inds"], defs)
                if verdict is not None:
                    n_split[0] += 1
                    okv, msg = verdict
                    if okv:
                        r.ok(f"{q}:{fn}[isometrized]", sample={"site": q, "claim": src_of(kws["left_inds"])[:30], "shape-dependent": msg})
                    else:
                        r.bad(Finding("iso-claim", q, msg, where=where, operand="isometrized-shape"))
                    continue
            owner = _own_flag_source(kws["left_inds"], defs)
            if owner is not None:
                n_own += 1
                if "apply" in kws:
                    fname = dotted(kws["apply"]) or src_of(kws["apply"])
                    if fname.split(".")[-1] in ("conj",):
                        r.ok(f"{q}:{fn}[apply]", sample={"site": q, "claim": "own flag", "apply": fname})
                    else:
                        r.bad(Finding("iso-claim", q, f"re-asserts {owner}.left_inds while applying `{fname}` to the data", where=where, operand="apply"))
                    continue
                if data is None:
                    # re-assertion without new data: sound only if the owner's data was not rewritten between the
                    # moment the flag was read (a local snapshot `x = t.left_inds`) and this call
                    lv = kws["left_inds"]
                    snap = None
                    if isinstance(lv, ast.Name):
                        for a_ in ast.walk(g.node):
                            if isinstance(a_, ast.Assign) and any(isinstance(t_, ast.Name) and t_.id == lv.id for t_ in a_.targets) \
                                    and isinstance(a_.value, ast.Attribute) and a_.value.attr in ("left_inds", "_left_inds") and a_.lineno < c.lineno:
                                snap = a_
                    if snap is not None:
                        between = []
                        for x_ in ast.walk(g.node):
                            if isinstance(x_, ast.Call) and isinstance(x_.func, ast.Attribute) and src_of(x_.func.value) == owner and snap.lineno < x_.lineno < c.lineno:
                                nm = x_.func.attr
                                rewrites = nm.endswith("_") and nm.rstrip("_") not in ("conj", "transpose", "transpose_like", "reindex", "retag", "add_tag", "drop_tags", "astype") \
                                    or (nm == "modify" and any(k.arg in ("data", "apply") for k in x_.keywords))
                                if rewrites:
                                    between.append(x_)
                            if isinstance(x_, ast.AugAssign) and src_of(x_.target) == owner and snap.lineno < x_.lineno < c.lineno:
                                between.append(x_)
                        if between:
                            r.bad(Finding(
                                "iso-claim", q,
                                f"re-asserts the flag read from {owner}.left_inds at line {snap.lineno} after `{src_of(between[0])[:40]}` (line {between[0].lineno}) rewrote "
                                f"{owner}'s data in place: unless that operation is unitary the tensor is no longer an isometry but is flagged as one",
                                where=where, operand="stale-snapshot"))
                            continue
                    r.ok(f"{q}:{fn}[no data]", nontrivial=False)
                    continue
                kind = _classify_data(data, owner, defs)
                if kind == "scaled":
                    r.bad(Finding(
                        "iso-claim", q,
                        f"re-asserts {owner}.left_inds (line {c.lineno}) together with data `{src_of(data)[:50]}` that is an "
                        f"arithmetic transform of {owner}.data: the tensor is no longer an isometry but stays flagged",
                        where=where, operand="scaled",
                    ))
                elif kind in ("same", "preserved"):
                    r.ok(f"{q}:{fn}", sample={"site": q, "claim": f"{owner}.left_inds", "data": src_of(data)[:50], "kind": kind})
                else:
                    r.skip(f"{q}:{fn}", f"data provenance `{src_of(data)[:40]}` not classified")
                continue
            # (iii) a factor of a decomposition made in this function: isometric only for the absorb modes that put the
            # singular values on the *other* factor -- an unconditional claim with a run-time absorb mode is wrong for some value
            if data is not None:
                verdict = _split_factor_claim(g, c, data)
                if verdict is not None:
                    n_split[0] += 1
                    okv, msg = verdict
                    if okv:
                        r.ok(f"{q}:{fn}[split factor]", sample={"site": q, "claim": src_of(kws["left_inds"])[:30], "factor": msg})
                    else:
                        r.bad(Finding("iso-claim", q, msg, where=where, operand="split-factor"))
                    continue
            # (ii) caller-supplied arrays
            if data is not None:
                root = data
                while isinstance(root, ast.Call) and root.args:
                    # do("reshape", G, ...) / reshape(G, ...)
                    a = [x for x in root.args if not isinstance(x, ast.Constant)]
                    if not a:
                        break
                    root = a[0]
                if isinstance(root, ast.Name) and root.id in g.params and root.id not in defs:
                    n_param += 1
                    if q in PARAM_CLAIM_EXEMPT:
                        r.exempt(f"{q}:{fn}", PARAM_CLAIM_EXEMPT[q])
                    else:
                        r.bad(Finding(
                            "iso-claim", q,
                            f"flags the caller-supplied array `{root.id}` as isometric (left_inds={src_of(kws['left_inds'])[:30]}) "
                            f"without any provenance; a non-unitary operator is then skipped by the canonization shortcut",
                            where=where, operand=f"param:{root.id}",
                        ))
    if only_modules is None:
        r.floor(n_own - r.controls_flagged, 5, "sites re-asserting a tensor's own flag")
    return r


def _isometrized_claim(g, claim_call, data, lv, defs):
    """None when `data` does not come from the free function isometrize()/unitize() in g; else (ok, message)."""
    def from_iso(e, depth=0):
        if depth > 4 or e is None:
            return False
        if isinstance(e, ast.Call):
            fn = dotted(e.func) or ""
            if isinstance(e.func, ast.Name) and fn in ("isometrize", "unitize"):
                return True
            return any(from_iso(a, depth + 1) for a in e.args)
        if isinstance(e, ast.Name) and e.id in defs:
            return any(from_iso(d, depth + 1) for d in defs[e.id])
        return False

    if not from_iso(data):
        return None
    # the claimed side: some definition of it must sit under a test on the shape of the matrix (or the sizes of the index groups)
    if isinstance(lv, ast.IfExp):
        tests = [lv.test]
    else:
        tests = []
    if isinstance(lv, ast.Name):
        def visit(stmts, guards):
            for s_ in stmts:
                if isinstance(s_, ast.Assign) and any(isinstance(t, ast.Name) and t.id == lv.id for t in s_.targets):
                    tests.extend(guards)
                    tests.extend(x.test for x in ast.walk(s_.value) if isinstance(x, ast.IfExp))
                if isinstance(s_, ast.If):
                    visit(s_.body, guards + [s_.test])
                    visit(s_.orelse, guards + [s_.test])
                elif isinstance(s_, (ast.For, ast.While, ast.With)):
                    visit(s_.body, guards)
                elif isinstance(s_, ast.Try):
                    visit(s_.body, guards)
        visit(g.node.body, [])
    # names used in the tests stand for their local definitions (`dl = prod(...)`; `if dl < dr:`)
    origins = {k: list(v) for k, v in defs.items()}
    for a_ in ast.walk(g.node):
        if isinstance(a_, ast.Assign):
            for t_ in a_.targets:
                if isinstance(t_, (ast.Tuple, ast.List)):
                    for e_ in t_.elts:
                        if isinstance(e_, ast.Name):
                            origins.setdefault(e_.id, []).append(a_.value)
    exprs = list(tests)
    seen_names = set()
    frontier = list(tests)
    for _ in range(3):
        nxt = []
        for t in frontier:
            for y in ast.walk(t):
                if isinstance(y, ast.Name) and y.id in origins and y.id not in seen_names:
                    seen_names.add(y.id)
                    nxt.extend(d for d in origins[y.id] if d is not None)
        exprs.extend(nxt)
        frontier = nxt
    shape_dep = any(
        (isinstance(x, ast.Attribute) and x.attr in ("shape", "size", "ndim")) or
        (isinstance(x, ast.Call) and (dotted(x.func) or "").split(".")[-1] in ("ind_size", "inds_size", "prod", "shape", "size", "len"))
        for t in exprs for x in ast.walk(t))
    if shape_dep:
        return True, "yes"
    return False, (f"flags the result of isometrize() as isometric with respect to `{src_of(lv)[:30]}` whatever its shape: a matrix wider than tall only "
                   "gets orthonormal rows, so the claimed side is wrong for it (a later canonization skips the tensor as 'already isometric')")


def _split_factor_claim(g, claim_call, data):
    """None when `data` is not a factor of a decomposition made in g; else (ok, message)."""
    root = data
    while True:
        if isinstance(root, ast.Call) and isinstance(root.func, ast.Attribute) and root.func.attr in ("conj", "conjugate") and not root.args:
            root = root.func.value
        elif isinstance(root, ast.Call) and (dotted(root.func) or "").split(".")[-1] in ("conj", "conjugate") and root.args:
            root = root.args[0]
        else:
            break
    if not isinstance(root, ast.Name):
        return None
    for a in ast.walk(g.node):
        if not (isinstance(a, ast.Assign) and len(a.targets) == 1 and isinstance(a.targets[0], ast.Tuple) and isinstance(a.value, ast.Call)):
            continue
        names = [e.id if isinstance(e, ast.Name) else None for e in a.targets[0].elts]
        if root.id not in names or a.lineno > claim_call.lineno:
            continue
        fn = (dotted(a.value.func) or "").split(".")[-1]
        if fn not in ("split", "tensor_split", "array_split"):
            continue
        kws = {k.arg: k.value for k in a.value.keywords if k.arg}
        k = names.index(root.id)
        last = len(names) - 1
        if k not in (0, last) or len(names) not in (2, 3):
            return None
        need = "right" if k == 0 else "left"  # the singular values must sit on the other factor
        E = kws.get("absorb")
        if E is None:
            return None  # default mode of the method: decided by parse_split_left_right_isom, not here
        vals = None
        if isinstance(E, ast.Constant):
            vals = {E.value}
        elif isinstance(E, ast.IfExp) and isinstance(E.body, ast.Constant) and isinstance(E.orelse, ast.Constant):
            vals = {E.body.value, E.orelse.value}
        elif isinstance(E, ast.Subscript) and isinstance(E.value, ast.Dict) and all(isinstance(v, ast.Constant) for v in E.value.values):
            vals = {v.value for v in E.value.values}
        if vals is not None:
            bad = sorted(str(v) for v in vals if v not in (need, None))
            if not bad:
                return True, f"`{root.id}` with absorb in {sorted(map(str, vals))}"
            run_names = {x.id for x in ast.walk(E) if isinstance(x, ast.Name)}
        else:
            bad = ["<run-time value>"]
            run_names = {x.id for x in ast.walk(E) if isinstance(x, ast.Name)}
        # a conditional claim (`left_inds=X if flag else None`) whose flag is computed from what selects the absorb mode
        lv = next((k_.value for k_ in claim_call.keywords if k_.arg == "left_inds"), None)
        if isinstance(lv, ast.IfExp):
            tnames = {x.id for x in ast.walk(lv.test) if isinstance(x, ast.Name)}
            for a2 in ast.walk(g.node):
                if isinstance(a2, ast.Assign) and any(isinstance(y, ast.Name) and y.id in tnames for t_ in a2.targets for y in ast.walk(t_)):
                    tnames |= {x.id for x in ast.walk(a2.value) if isinstance(x, ast.Name)}
            if run_names & tnames:
                # the decomposition method is a run-time value too (polar factors of wide / tall matrices have more bond than
                # dangling dimension and only orthonormal rows): the flag also has to look at the shape of the factor it describes
                meth = kws.get("method")
                if meth is not None and not isinstance(meth, ast.Constant):
                    flag_names = {x.id for x in ast.walk(lv.test) if isinstance(x, ast.Name)}
                    shape_seen = False
                    for a2 in ast.walk(g.node):
                        if isinstance(a2, ast.Assign) and any(isinstance(y, ast.Name) and y.id in flag_names for t_ in a2.targets for y in ast.walk(t_)):
                            for x in ast.walk(a2.value):
                                if isinstance(x, ast.Attribute) and x.attr == "shape" and isinstance(x.value, ast.Name) and x.value.id == root.id:
                                    shape_seen = True
                                if isinstance(x, ast.Call) and (dotted(x.func) or "").split(".")[-1] == "shape" and any(isinstance(y, ast.Name) and y.id == root.id for y in ast.walk(x)):
                                    shape_seen = True
                    if not shape_seen:
                        return False, (f"flags `{root.id}` as isometric from (method, absorb) alone: for a run-time method the flag never looks at the factor's shape, but a factor "
                                       "whose bond is larger than its dangling dimension (polar factor of a wide / tall matrix) cannot be an isometry")
                return True, f"`{root.id}` claimed conditionally on a flag computed from {sorted(run_names & tnames)} and the factor's shape"
        # a claim guarded by a test on what selects the absorb mode is decided per arm -- not judged here
        for st in ast.walk(g.node):
            if isinstance(st, (ast.If, ast.IfExp)) and any(x is claim_call for x in ast.walk(st)) and not any(x is a for x in ast.walk(st)):
                if run_names & {x.id for x in ast.walk(st.test) if isinstance(x, ast.Name)}:
                    return True, f"`{root.id}` claimed under a test on {sorted(run_names)}"
        return False, (f"flags `{root.id}` (factor {k} of `{src_of(a.value)[:50]}...`) as isometric unconditionally although absorb=`{src_of(E)[:40]}` can be "
                       f"{bad[0]}: with the singular values absorbed into this factor it is not an isometry, and the canonization shortcut will skip it")
    return None


# ------------------------------------------------------------ exp-compensate
def rule_exp_compensate(ctx):
    r = RuleResult(
        "exp-compensate",
        "rescaling for conditioning is compensated in `exponent`: wherever log10(F) is accrued into a network's "
        "exponent, the same F divides tensor data of that network in the same function; distribute_exponent "
        "multiplies the tensors by 10**((exponent-new)/n) and then stores `new`; a scale popped from a gauging "
        "info record is either accrued or redistributed (if/else, never dropped)",
    )
    n = 0
    for g in ctx.prog.all_functions(nested=False):
        if g.is_alias or isinstance(g.node, ast.Lambda) or not g.module.name.startswith("quimb.tensor"):
            continue
        if "belief_propagation" in g.module.name:
            continue
        for st in ast.walk(g.node):
            if not isinstance(st, (ast.Assign, ast.AugAssign)):
                continue
            ts = st.targets if isinstance(st, ast.Assign) else [st.target]
            if not any(isinstance(t, ast.Attribute) and t.attr == "exponent" for t in ts):
                continue
            logs = [c for c in ast.walk(st.value) if isinstance(c, ast.Call) and ((dotted(c.func) or "").endswith("log10") or (c.args and const_value(c.args[0], None) == "log10"))]
            if not logs:
                continue
            n += 1
            arg = logs[0].args[-1]
            where = f"{g.module.relpath}:{st.lineno}"
            if not isinstance(arg, ast.Name):
                r.skip(f"{g.qualname}:exponent", f"log10 argument `{src_of(arg)}` is not a simple name")
                continue
            F = arg.id
            divides = any(
                isinstance(b, ast.BinOp) and isinstance(b.op, ast.Div) and isinstance(b.right, ast.Name) and b.right.id == F
                for b in ast.walk(g.node)
            ) or any(
                isinstance(a, ast.AugAssign) and isinstance(a.op, ast.Div) and isinstance(a.value, ast.Name) and a.value.id == F
                for a in ast.walk(g.node)
            )
            if divides:
                r.ok(f"{g.qualname}[log10({F})]", sample={"function": g.qualname, "accrued": f"log10({F})", "divided by": F})
            else:
                r.bad(Finding("exp-compensate", g.qualname,
                              f"accrues log10({F}) into the exponent (line {st.lineno}) but nothing in the function is divided by {F}",
                              where=where, operand=F))
    r.floor(n, 2, "log10 accruals into exponent")
    # distribute_exponent
    f = ctx.prog.func(TC, "TensorNetwork.distribute_exponent")
    where = f"{f.module.relpath}:{f.lineno}"
    mult = [c for c in ast.walk(f.node) if isinstance(c, ast.Call) and isinstance(c.func, ast.Attribute) and c.func.attr in ("multiply_each_", "multiply_each")]
    store = [s for s in f.node.body if isinstance(s, ast.Assign) and any(src_of(t) == "self.exponent" for t in s.targets)]
    newp = [p_ for p_ in f.posparams if p_ != "self"][:1]
    newp = newp[0] if newp else None

    def _is_factor(e):
        # 10 ** ((self.exponent - <new>) / <number of tensors>)
        if not (isinstance(e, ast.BinOp) and isinstance(e.op, ast.Pow) and const_value(e.left, None) in (10, 10.0)):
            return False
        q = e.right
        if not (isinstance(q, ast.BinOp) and isinstance(q.op, ast.Div) and isinstance(q.left, ast.BinOp) and isinstance(q.left.op, ast.Sub)):
            return False
        a, b, nden = q.left.left, q.left.right, q.right
        return src_of(a) == "self.exponent" and isinstance(b, ast.Name) and b.id == newp and ("num_tensors" in src_of(nden) or "len(" in src_of(nden))

    factor_ok = any(_is_factor(e) for e in ast.walk(f.node))
    ok = (
        factor_ok and mult and store and newp is not None
        and isinstance(store[-1].value, ast.Name) and store[-1].value.id == newp and store[-1].lineno > mult[0].lineno
    )
    if ok:
        r.ok("TensorNetwork.distribute_exponent", sample={"factor": "10 ** ((exponent - new) / num_tensors)", "then": "exponent = new"})
    else:
        r.bad(Finding("exp-compensate", "TensorNetwork.distribute_exponent",
                      "tensors are not multiplied by 10**((exponent - new)/n) before the exponent is reset to new", where=where))
    # accrued-or-redistributed: nfact = info.pop("exponent")
    m = 0
    for g in ctx.prog.all_functions(nested=False):
        if g.is_alias or isinstance(g.node, ast.Lambda) or not g.module.name.startswith("quimb.tensor"):
            continue
        for st in ast.walk(g.node):
            if isinstance(st, ast.Assign) and isinstance(st.value, ast.Call) and src_of(st.value).replace("'", '"') == 'info.pop("exponent")' and isinstance(st.targets[0], ast.Name):
                v = st.targets[0].id
                m += 1
                used = False
                for n_ in ast.walk(g.node):
                    if isinstance(n_, ast.If) and n_.orelse:
                        a = any(isinstance(x, ast.AugAssign) and isinstance(x.target, ast.Attribute) and x.target.attr == "exponent" and v in src_of(x.value) for s in n_.body for x in ast.walk(s))
                        b = any(isinstance(x, ast.Call) and isinstance(x.func, ast.Attribute) and x.func.attr.startswith("multiply") and v in src_of(x) for s in n_.orelse for x in ast.walk(s))
                        if a and b:
                            used = True
                if used:
                    r.ok(f"{g.qualname}[{v}]", sample={"function": g.qualname, "popped": v, "then": "accrued into exponent, else redistributed"})
                else:
                    r.bad(Finding("exp-compensate", g.qualname, f"scale `{v}` popped from the gauging record is not accrued-or-redistributed on both branches",
                                  where=f"{g.module.relpath}:{st.lineno}", operand=v))
    if m == 0:
        raise AnalysisError("no `info.pop('exponent')` site found (gauge_all_simple changed)")
    return r


# rewrite families named by C04 (for the shared inplace-effect rule)
REWRITE_PREFIXES = (
    "gauge_", "canonize_", "canonicalize", "equalize_norms", "balance_bonds", "fuse_multibonds", "squeeze",
    "rank_simplify", "diagonal_reduce", "antidiag_gauge", "column_reduce", "split_simplify", "pair_simplify",
    "loop_simplify", "full_simplify", "hyperinds_resolve", "compress_", "insert_gauge", "isometrize", "unitize",
    "strip_exponent", "normalize", "convert_to_zero", "randomize", "drop_tags", "expand_bond_dimension",
    "left_canon", "right_canon", "shift_orthogonality", "compress", "reduce_inds_onto_bond", "flip", "astype",
)


def rewrite_family(f):
    return f.name.lstrip("_").startswith(REWRITE_PREFIXES)


# ---------------------------------------------------------------- strip-member
def rule_strip_member(ctx):
    r = RuleResult(
        "strip-member",
        "N.strip_exponent(X) divides X and accrues log10 of the factor into N.exponent, so X must be a tensor "
        "that N actually holds: a tid, a tensor read from N, or a fresh tensor that was added to N *virtually* "
        "(N |= X / add_tensor(X, virtual=True)) earlier in the function — stripping a tensor that N only holds "
        "a copy of changes N's value by the stripped factor",
    )
    n = 0
    for g in ctx.prog.all_functions(nested=False):
        if g.is_alias or isinstance(g.node, ast.Lambda) or not g.module.name.startswith("quimb.tensor"):
            continue
        calls = [c for c in ast.walk(g.node) if isinstance(c, ast.Call) and isinstance(c.func, ast.Attribute) and c.func.attr == "strip_exponent" and c.args]
        if not calls:
            continue
        # bindings
        binds = {}
        for x in ast.walk(g.node):
            if isinstance(x, ast.Assign):
                for t in x.targets:
                    for nm in ([t] if isinstance(t, ast.Name) else [e for e in ast.walk(t) if isinstance(e, ast.Name)] if isinstance(t, (ast.Tuple, ast.List)) else []):
                        binds.setdefault(nm.id, []).append(x.value)
            elif isinstance(x, (ast.For, ast.comprehension)):
                for nm in [e for e in ast.walk(x.target) if isinstance(e, ast.Name)]:
                    binds.setdefault(nm.id, []).append(x.iter)
        for c in calls:
            N = src_of(c.func.value)
            X = c.args[0]
            n += 1
            where = f"{g.module.relpath}:{c.lineno}"
            label = f"{g.qualname}:{N}.strip_exponent({src_of(X)[:20]})"
            if not isinstance(X, ast.Name):
                # N[...] / N.tensor_map[...]
                if src_of(X).startswith(N + "[") or src_of(X).startswith(N + ".tensor_map["):
                    r.ok(label, sample={"site": g.qualname, "tensor": src_of(X), "membership": "read from the network"})
                else:
                    r.skip(label, "argument shape not classified")
                continue
            name = X.id
            srcs = binds.get(name, [])
            if name.startswith("tid") or (name in g.params and not srcs):
                r.ok(label, sample={"site": g.qualname, "tensor": name, "membership": "tid / parameter"}, nontrivial=False)
                continue
            from_net = any(N + "." in src_of(v) or src_of(v).startswith(N + "[") or src_of(v) == N or ("tensor_map" in src_of(v)) or "_tids_get" in src_of(v) or "_inds_get" in src_of(v) for v in srcs)
            if from_net:
                r.ok(label, sample={"site": g.qualname, "tensor": name, "membership": "read from the network"})
                continue
            # fresh local: look for how it was added to N before the call
            virtual_add = False
            copy_add = None
            for x in ast.walk(g.node):
                if getattr(x, "lineno", 10**9) >= c.lineno:
                    continue
                if isinstance(x, ast.AugAssign) and src_of(x.target) == N and name in {e.id for e in ast.walk(x.value) if isinstance(e, ast.Name)}:
                    if isinstance(x.op, ast.BitOr):
                        virtual_add = True
                    elif isinstance(x.op, ast.BitAnd):
                        copy_add = x
                if isinstance(x, ast.Call) and isinstance(x.func, ast.Attribute) and src_of(x.func.value) == N and x.func.attr in ("add", "add_tensor", "add_tensor_network"):
                    if name in {e.id for a in x.args for e in ast.walk(a) if isinstance(e, ast.Name)}:
                        virt = any(k.arg == "virtual" and const_value(k.value, None) is True for k in x.keywords)
                        if virt:
                            virtual_add = True
                        else:
                            copy_add = x
            if virtual_add:
                r.ok(label, sample={"site": g.qualname, "tensor": name, "membership": "added virtually before"})
            elif copy_add is not None:
                r.bad(Finding(
                    "strip-member", g.qualname,
                    f"{N}.strip_exponent({name}) (line {c.lineno}) rescales `{name}`, but {N} only holds a *copy* of it "
                    f"(added by `{src_of(copy_add)[:40]}` at line {copy_add.lineno}): the network keeps the unscaled copy while "
                    f"its exponent absorbs the norm", where=where, operand=name))
            else:
                r.skip(label, f"origin of `{name}` not classified")
    r.floor(n, 15, "strip_exponent call sites")
    return r


def rule_gauge_record_agree(ctx):
    r = RuleResult(
        "gauge-record-agree",
        "gauge_simple_insert returns, for later removal, a record of what it multiplied into the tensors: in each of its loops the "
        "vector handed to multiply_index_diagonal_ is the very local (or its inverse, under return_gauges='inverse') that is stored in "
        "the record — a transformed copy on one side only (conditioning, powers, smudging) makes insert-then-remove change the tensors",
    )
    f = ctx.prog.func("quimb.tensor.tensor_core", "TensorNetwork.gauge_simple_insert")
    if f is None:
        raise AnalysisError("gauge-record-agree: TensorNetwork.gauge_simple_insert not found")
    n = 0
    for lp in ast.walk(f.node):
        if not isinstance(lp, ast.For):
            continue
        applied = [c for c in ast.walk(lp) if isinstance(c, ast.Call) and isinstance(c.func, ast.Attribute) and c.func.attr.rstrip("_") == "multiply_index_diagonal" and len(c.args) >= 2]
        records = [c for c in ast.walk(lp) if isinstance(c, ast.Call) and isinstance(c.func, ast.Attribute) and c.func.attr == "append" and c.args
                   and isinstance(c.args[0], ast.Tuple) and len(c.args[0].elts) == 3]
        if not applied or not records:
            continue
        n += 1
        # names the recorded vector is built from (through one local: gr = g if ... else g ** -1)
        base = set()
        for rc in records:
            e = rc.args[0].elts[2]
            exprs = [e]
            if isinstance(e, ast.Name):
                exprs = [a.value for a in ast.walk(lp) if isinstance(a, ast.Assign) and any(isinstance(t, ast.Name) and t.id == e.id for t in a.targets)] or [e]
            for x in exprs:
                base |= {y.id for y in ast.walk(x) if isinstance(y, ast.Name)}
        where = f"{f.module.relpath}:{lp.lineno}"
        q = f"TensorNetwork.gauge_simple_insert[loop@{src_of(lp.iter)[:30]}]"
        bad = [c for c in applied if not (isinstance(c.args[1], ast.Name) and c.args[1].id in base)]
        # the recorded local must not be re-bound between an application and the record
        rebound = []
        for c in applied:
            if isinstance(c.args[1], ast.Name):
                for a in ast.walk(lp):
                    if isinstance(a, ast.Assign) and any(isinstance(t, ast.Name) and t.id == c.args[1].id for t in a.targets) and c.lineno < a.lineno <= max(rc.lineno for rc in records):
                        rebound.append(a)
        if bad:
            r.bad(Finding("gauge-record-agree", "TensorNetwork.gauge_simple_insert",
                          f"`{src_of(bad[0])[:60]}` multiplies `{src_of(bad[0].args[1])[:30]}` into the tensor while the record for removal stores {sorted(base)}: "
                          "gauge_simple_remove / gauge_simple_temp no longer undo what was inserted", where=f"{f.module.relpath}:{bad[0].lineno}", operand="applied-vs-recorded"))
        elif rebound:
            r.bad(Finding("gauge-record-agree", "TensorNetwork.gauge_simple_insert",
                          f"`{src_of(rebound[0])[:50]}` re-binds the gauge between its application and its record", where=f"{f.module.relpath}:{rebound[0].lineno}", operand="rebound"))
        else:
            r.ok(q, sample={"loop": src_of(lp.iter)[:30], "applied": sorted({src_of(c.args[1]) for c in applied}), "recorded from": sorted(base)})
    r.floor(n, 2, "insert loops of gauge_simple_insert")
    return r


def rule_merge_collapses_holders(ctx):
    r = RuleResult(
        "merge-collapses-holders",
        "diagonal_reduce merges two existing indices by renaming one into the other across the whole network; afterwards *every* tensor that "
        "held both carries the surviving index twice. The later passes and the contraction bookkeeping treat the labels of a tensor as "
        "distinct, so the repeated index is collapsed (diagonal taken) on every holder of the surviving index — in a loop over the holders, "
        "not only on the diagonal tensor that triggered the merge",
    )
    f = ctx.prog.func("quimb.tensor.tensor_core", "TensorNetwork.diagonal_reduce")
    if f is None:
        raise AnalysisError("merge-collapses-holders: TensorNetwork.diagonal_reduce not found")
    renames = [c for c in ast.walk(f.node) if isinstance(c, ast.Call) and isinstance(c.func, ast.Attribute) and c.func.attr == "reindex_" and isinstance(c.func.value, ast.Name)]
    if not renames:
        raise AnalysisError("merge-collapses-holders: diagonal_reduce no longer renames an index network-wide")
    where = f"{f.module.relpath}:{renames[0].lineno}"
    loops = [lp for lp in ast.walk(f.node) if isinstance(lp, ast.For) and lp.lineno > renames[0].lineno
             and any(isinstance(y, ast.Attribute) and y.attr in ("_inds_get", "ind_map") for y in ast.walk(lp.iter))
             and any(isinstance(c, ast.Call) and isinstance(c.func, ast.Attribute) and c.func.attr.rstrip("_") == "collapse_repeated" for c in ast.walk(lp))]
    if loops:
        r.ok("TensorNetwork.diagonal_reduce", sample={"rename": src_of(renames[0])[:40], "collapsed on": "every holder of the surviving index"})
    else:
        r.bad(Finding("merge-collapses-holders", "TensorNetwork.diagonal_reduce",
                      f"after `{src_of(renames[0])[:40]}` only the diagonal tensor is collapsed: another tensor that held both merged indices keeps the surviving one twice, "
                      "and pair_simplify / antidiag_gauge / split_simplify then produce a wrong network", where=where, operand="holders"))
    return r


def rule_flag_setter_total(ctx):
    r = RuleResult(
        "flag-setter-total",
        "every invalidation of the isometry flag ends in Tensor._set_left_inds(None) (through modify / the property setter): the setter "
        "assigns self._left_inds on every path — a branch that leaves the attribute alone keeps a stale claim alive",
    )
    cls = ctx.prog.cls("quimb.tensor.tensor_core", "Tensor")
    f = cls.methods.get("_set_left_inds")
    if f is None:
        raise AnalysisError("flag-setter-total: Tensor._set_left_inds not found")

    def assigns(stmts):
        """True when every path through stmts assigns self._left_inds"""
        for st in stmts:
            if isinstance(st, ast.Assign) and any(isinstance(t, ast.Attribute) and t.attr == "_left_inds" for t in st.targets):
                return True
            if isinstance(st, ast.If) and st.orelse and assigns(st.body) and assigns(st.orelse):
                return True
            if isinstance(st, (ast.Return, ast.Raise)):
                return isinstance(st, ast.Raise)
        return False

    if assigns(f.node.body):
        r.ok("Tensor._set_left_inds", sample={"setter": "assigns self._left_inds on every path"})
    else:
        r.bad(Finding("flag-setter-total", "Tensor._set_left_inds", "a path through the setter does not assign self._left_inds: modify(left_inds=None) / a data write can no longer clear the flag",
                      where=f"{f.module.relpath}:{f.lineno}", operand="path"))
    return r
