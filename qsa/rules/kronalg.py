"""C15 (narrow): structural clauses of the Kronecker / embedding / partial-trace routines of quimb/core.py.

Decides three necessary conditions, none of which is the algebra itself:
  * the row-ownership range reaches every constructor that accepts it (a dropped `ownership` silently builds all rows);
  * every dense / sparse dispatcher hands both sibling implementations the same arguments in the same order;
  * the (operator?, operator?, sparse?) table of `expectation` is total, is looked up in the order its keys are written, and
    the dense and sparse entry of each kind use their two operands in the same roles.
"""

import ast

from ..framework import RuleResult, Finding
from ..model import src_of, const_value, dotted
from .. import AnalysisError

CORE = "quimb.core"


def rule_dispatch_sibling_args(ctx):
    r = RuleResult(
        "dispatch-sibling-args",
        "every `if issparse(x): return f_sparse(args) ... return f_dense(args)` dispatcher of quimb/core.py passes the same "
        "argument expressions, in the same order, to both siblings (dense and sparse inputs must denote the same operation)",
    )
    mod = ctx.prog.modules.get(CORE)
    if mod is None:
        raise AnalysisError("quimb.core not found")
    n = 0
    for f in mod.all_functions:
        if f.is_alias or isinstance(f.node, ast.Lambda) or f.parent is not None:
            continue
        body = f.node.body
        for k, st in enumerate(body):
            if not (isinstance(st, ast.If) and any(isinstance(c, ast.Call) and getattr(c.func, "id", None) in ("issparse", "isdense") for c in ast.walk(st.test))):
                continue
            a = st.body[-1] if st.body else None
            b = st.orelse[-1] if st.orelse else (body[k + 1] if k + 1 < len(body) else None)
            if not (isinstance(a, ast.Return) and isinstance(b, ast.Return) and isinstance(a.value, ast.Call) and isinstance(b.value, ast.Call)):
                continue
            fa, fb = dotted(a.value.func), dotted(b.value.func)
            if not fa or not fb or fa == fb:
                continue
            n += 1
            # positional operands must agree; keywords are compared only where both calls give them (a sparse sibling may
            # take format options — stype — that have no dense counterpart)
            ka = {k_.arg: src_of(k_.value) for k_ in a.value.keywords if k_.arg}
            kb = {k_.arg: src_of(k_.value) for k_ in b.value.keywords if k_.arg}
            common = sorted(set(ka) & set(kb))
            args_a = [src_of(x) for x in a.value.args] + [f"{k_}={ka[k_]}" for k_ in common]
            args_b = [src_of(x) for x in b.value.args] + [f"{k_}={kb[k_]}" for k_ in common]
            construct = f"{f.qualname}[{fa}/{fb}]"
            if args_a == args_b:
                r.ok(construct, sample={"dispatcher": f.qualname, "siblings": [fa, fb], "arguments": args_a})
            else:
                r.bad(Finding("dispatch-sibling-args", f.qualname, f"{fa}({', '.join(args_a)}) vs {fb}({', '.join(args_b)}): the dense and sparse siblings are not given the same arguments",
                              where=f"{f.module.relpath}:{st.lineno}", operand=f"{fa}/{fb}"))
    r.floor(n, 3, "dense / sparse dispatchers")
    return r


def _roles(lam):
    """how a two-argument lambda uses its operands: (which is the 'outer' vector, which is sandwiched)"""
    a, b = [x.arg for x in lam.args.args][:2]
    names = [x.id for x in ast.walk(lam.body) if isinstance(x, ast.Name) and x.id in (a, b)]
    counts = (names.count(a), names.count(b))
    # first operand under a conjugating call (vdot's first argument, dag(...))
    conj_first = None
    for c in ast.walk(lam.body):
        if isinstance(c, ast.Call) and getattr(c.func, "id", None) == "vdot" and c.args and isinstance(c.args[0], ast.Name):
            conj_first = "a" if c.args[0].id == a else "b"
        if isinstance(c, ast.Call) and getattr(c.func, "id", None) == "dag" and c.args and isinstance(c.args[0], ast.Name) and conj_first is None:
            conj_first = "a" if c.args[0].id == a else "b"
    return counts, conj_first


def rule_expec_table(ctx):
    r = RuleResult(
        "expec-table",
        "_EXPEC_METHODS is total over (isop(a), isop(b), sparse), `expectation` looks it up in the order the keys are written, "
        "and for every (isop(a), isop(b)) the dense and the sparse entry use their operands in the same roles (same number of "
        "occurrences of each operand, same operand conjugated)",
    )
    mod = ctx.prog.modules.get(CORE)
    tab = mod.assigns.get("_EXPEC_METHODS")
    if not isinstance(tab, ast.Dict):
        raise AnalysisError("_EXPEC_METHODS not found")
    entries = {}
    for k, v in zip(tab.keys, tab.values):
        key = const_value(k, None)
        lam = next((x for x in ast.walk(v) if isinstance(x, ast.Lambda)), None)
        if key is None or lam is None:
            raise AnalysisError(f"_EXPEC_METHODS entry {src_of(k)} not understood")
        entries[tuple(int(x) for x in key)] = lam
    where = f"{mod.relpath}:{tab.lineno}"
    f = ctx.prog.func(CORE, "expectation")
    look = [n for n in ast.walk(f.node) if isinstance(n, ast.Subscript) and isinstance(n.slice, ast.Tuple) and src_of(n.value) == "_EXPEC_METHODS"]
    if not look:
        raise AnalysisError("expectation: table lookup not found")
    order = [src_of(e) for e in look[0].slice.elts]
    good_order = len(order) == 3 and "isop(a)" in order[0] and "isop(b)" in order[1] and "issparse" in order[2]
    if good_order:
        r.ok("expectation[lookup]", sample={"lookup": order})
    else:
        r.bad(Finding("expec-table", "expectation", f"table is looked up with {order}; its keys are written as (isop(a), isop(b), sparse)", where=where, operand="lookup"))
    for ia in (0, 1):
        for ib in (0, 1):
            d, s = entries.get((ia, ib, 0)), entries.get((ia, ib, 1))
            construct = f"_EXPEC_METHODS[{ia},{ib}]"
            if d is None or s is None:
                r.bad(Finding("expec-table", "_EXPEC_METHODS", f"no {'dense' if d is None else 'sparse'} entry for (isop(a), isop(b)) = ({ia}, {ib})", where=where, operand=f"{ia}{ib}"))
                continue
            rd, rs = _roles(d), _roles(s)
            if rd == rs:
                r.ok(construct, sample={"kind": (ia, ib), "dense": src_of(d.body)[:40], "sparse": src_of(s.body)[:50], "roles": str(rd)})
            else:
                r.bad(Finding("expec-table", "_EXPEC_METHODS", f"({ia}, {ib}): dense `{src_of(d.body)[:50]}` and sparse `{src_of(s.body)[:50]}` use their operands in different roles {rd} vs {rs}",
                              where=where, operand=f"{ia}{ib}"))
    return r


def rule_ownership_guard(ctx):
    r = RuleResult(
        "ownership-guard",
        "kron validates a requested row range against the product dimension and rejects it otherwise (raise), and slices the "
        "rows that the per-factor slicing over-produced with both end offsets (def-use from the `ownership` parameter; local names are free)",
    )
    f = ctx.prog.func(CORE, "kron")
    where = f"{f.module.relpath}:{f.lineno}"
    if "ownership" not in f.params:
        raise AnalysisError("ownership-guard: kron lost its ownership parameter")
    # the two locals unpacked from `ownership`
    ends = None
    for a in ast.walk(f.node):
        if isinstance(a, ast.Assign) and isinstance(a.targets[0], ast.Tuple) and len(a.targets[0].elts) == 2 and isinstance(a.value, ast.Name) and a.value.id == "ownership" \
                and all(isinstance(e, ast.Name) for e in a.targets[0].elts):
            ends = tuple(e.id for e in a.targets[0].elts)
    if ends is None:
        raise AnalysisError("ownership-guard: `ownership` is no longer unpacked into two locals in kron")
    guards = [n for n in ast.walk(f.node) if isinstance(n, ast.If) and any(isinstance(x, ast.Raise) for x in n.body)
              and set(ends) <= {y.id for y in ast.walk(n.test) if isinstance(y, ast.Name)}]
    if guards:
        r.ok("kron[range]", sample={"guard": src_of(guards[0].test)})
    else:
        r.bad(Finding("ownership-guard", "kron", "a row range outside [0, D] is not rejected", where=where, operand="range"))
    # names derived (transitively) from each end of the range
    def derived(seed):
        out = {seed}
        changed = True
        while changed:
            changed = False
            for a in ast.walk(f.node):
                if isinstance(a, ast.Assign):
                    tg, val = a.targets[0], a.value
                    pairs = []
                    if isinstance(tg, ast.Tuple) and isinstance(val, ast.Tuple) and len(tg.elts) == len(val.elts):
                        pairs = list(zip(tg.elts, val.elts))
                    elif isinstance(tg, ast.Name):
                        pairs = [(tg, val)]
                    for t_, v_ in pairs:
                        if isinstance(t_, ast.Name) and t_.id not in out and any(isinstance(y, ast.Name) and y.id in out for y in ast.walk(v_)):
                            # an offset, not the product itself: arithmetic on the end point
                            if isinstance(v_, (ast.BinOp, ast.Name)):
                                out.add(t_.id)
                                changed = True
        return out
    d_lo, d_hi = derived(ends[0]), derived(ends[1])
    # the result of the core product, and a row slice of it whose two bounds depend on the two ends
    ok = False
    first = None
    for n in ast.walk(f.node):
        if isinstance(n, ast.Subscript) and isinstance(n.value, ast.Name):
            sl = n.slice.elts[0] if isinstance(n.slice, ast.Tuple) and n.slice.elts else n.slice
            if isinstance(sl, ast.Slice) and sl.lower is not None and sl.upper is not None:
                first = first or n
                lo_names = {y.id for y in ast.walk(sl.lower) if isinstance(y, ast.Name)}
                hi_names = {y.id for y in ast.walk(sl.upper) if isinstance(y, ast.Name)}
                if lo_names & d_lo and hi_names & d_hi:
                    ok = True
                    first = n
    if ok:
        r.ok("kron[trim]", sample={"trim": src_of(first)})
    else:
        r.bad(Finding("ownership-guard", "kron", "over-produced rows are not trimmed at both ends (no row slice whose lower bound derives from the start and whose upper bound derives from the stop of the range)", where=where, operand="trim"))
    return r


def rule_ptr_recursion_base(ctx):
    r = RuleResult(
        "ptr-recursion-base",
        "the sparse partial trace removes one non-kept subsystem per recursion step, chosen as the largest one *not in keep*; when every "
        "remaining subsystem is kept that choice degenerates to a kept subsystem, so the recursion needs a base case that returns before "
        "the choice whenever len(keep) == len(dims) (dimension-1 subsystems between kept blocks stop the merging of kept neighbours from "
        "reducing keep to a single block)",
    )
    f = ctx.prog.func(CORE, "_partial_trace_simple")
    if f is None:
        raise AnalysisError("ptr-recursion-base: quimb.core._partial_trace_simple not found")
    lose = [c for c in ast.walk(f.node) if isinstance(c, ast.Call) and (dotted(c.func) or "").split(".")[-1] == "_trace_lose"]
    if not lose:
        raise AnalysisError("ptr-recursion-base: _partial_trace_simple no longer calls _trace_lose")
    first = min(c.lineno for c in lose)
    params = f.posparams

    def lens(e):
        return {x.args[0].id for x in ast.walk(e) if isinstance(x, ast.Call) and dotted(x.func) == "len" and x.args and isinstance(x.args[0], ast.Name)}

    guard = None
    for st in f.node.body:
        if isinstance(st, ast.If) and st.lineno < first and any(isinstance(x, ast.Return) for x in st.body):
            for cmp_ in ast.walk(st.test):
                if isinstance(cmp_, ast.Compare) and len(cmp_.ops) == 1 and isinstance(cmp_.ops[0], (ast.Eq, ast.GtE)):
                    names = lens(cmp_)
                    if len(names) >= 2:     # len(keep) against len(dims), whatever the locals are called
                        guard = st
    where = f"{f.module.relpath}:{first}"
    if guard is not None:
        r.ok("_partial_trace_simple", sample={"base case": src_of(guard.test)})
    else:
        r.bad(Finding("ptr-recursion-base", "_partial_trace_simple", "no base case for `every remaining subsystem is kept` before the subsystem to lose is chosen: a kept subsystem is traced out "
                                                                       "(e.g. dims [2, 1, 2], keep [0, 2])", where=where, operand="base"))
    return r


def rule_ptr_keep_order(ctx):
    r = RuleResult(
        "ptr-keep-order",
        "pkron / ikron place the factors of an operator on the subsystems in the order of `inds`; for partial trace to be the adjoint of "
        "that embedding for index subsets *in any order*, the reduced state has to list the kept subsystems in the order of `keep`. The dense "
        "route may therefore not consume `keep` only through order-insensitive operations (complement of the index set): somewhere the "
        "order of `keep` has to reach the axes of the result (a transpose / argsort / axis list built from keep)",
    )
    f = ctx.prog.func(CORE, "_partial_trace_dense")
    if f is None:
        raise AnalysisError("ptr-keep-order: quimb.core._partial_trace_dense not found")
    uses = [x for x in ast.walk(f.node) if isinstance(x, ast.Name) and x.id == "keep" and isinstance(x.ctx, ast.Load)]
    ordered = False
    for c in ast.walk(f.node):
        if isinstance(c, ast.Call) and any(isinstance(y, ast.Name) and y.id == "keep" for a in list(c.args) + [k.value for k in c.keywords] for y in ast.walk(a)):
            nm = (dotted(c.func) or "").split(".")[-1]
            if nm in ("argsort", "transpose", "moveaxis", "permute", "take", "einsum"):
                ordered = True
    where = f"{f.module.relpath}:{f.lineno}"
    if ordered:
        r.ok("_partial_trace_dense", sample={"keep": "its order reaches the axes of the result"})
    else:
        consumers = sorted({(dotted(c.func) or "").split(".")[-1] for c in ast.walk(f.node) if isinstance(c, ast.Call)
                            and any(isinstance(y, ast.Name) and y.id == "keep" for a in c.args for y in ast.walk(a))})
        r.bad(Finding("ptr-keep-order", "_partial_trace_dense", f"`keep` is only consumed by {consumers} (order-insensitive): the reduced state always lists the kept subsystems in ascending order, "
                                                                 "so Tr[pkron(A, dims, inds) rho] != Tr[A ptr(rho, dims, inds)] for an unsorted `inds`", where=where, operand="order"))
    return r


def rule_permute_layout(ctx):
    r = RuleResult(
        "permute-layout",
        "`permute(x, dims, perm)` takes the dims of the *current* layout. Where the current layout is a permutation P of the subsystems and "
        "the perm handed over is its inverse Q (Q = argsort(P), or Q[P] = arange(n)), the dims are dims∘P: they are assembled from P's own "
        "pieces and may not be computed from Q (dims∘Q is the layout after permuting twice — equal only for involutions, so uniform dims and "
        "self-inverse orders hide it)",
    )
    n = 0
    for modname in (CORE, "quimb.calc"):
        m = ctx.prog.modules.get(modname)
        if m is None:
            continue
        for f in m.all_functions:
            if f.is_alias or isinstance(f.node, ast.Lambda) or f.parent is not None:
                continue
            for c in ast.walk(f.node):
                if not (isinstance(c, ast.Call) and isinstance(c.func, ast.Name) and c.func.id == "permute" and len(c.args) >= 3):
                    continue
                D, Q = c.args[1], c.args[2]
                if not isinstance(Q, ast.Name):
                    continue
                # is Q built as the inverse of another permutation?
                inv_of = None
                for a in ast.walk(f.node):
                    if isinstance(a, ast.Assign):
                        for t in a.targets:
                            if isinstance(t, ast.Subscript) and isinstance(t.value, ast.Name) and t.value.id == Q.id and isinstance(t.slice, ast.Name):
                                inv_of = t.slice.id
                            if isinstance(t, ast.Name) and t.id == Q.id and isinstance(a.value, ast.Call) and (dotted(a.value.func) or "").split(".")[-1] == "argsort" \
                                    and a.value.args and isinstance(a.value.args[0], ast.Name):
                                inv_of = a.value.args[0].id
                if inv_of is None:
                    continue
                n += 1
                # def-use closure of the dims argument
                closure, frontier = set(), {y.id for y in ast.walk(D) if isinstance(y, ast.Name)}
                dname = D.id if isinstance(D, ast.Name) else src_of(D)[:30]
                while frontier:
                    nm = frontier.pop()
                    if nm in closure:
                        continue
                    closure.add(nm)
                    for a in ast.walk(f.node):
                        if isinstance(a, ast.Assign) and any(isinstance(y, ast.Name) and y.id == nm and isinstance(y.ctx, ast.Store) for t in a.targets for y in ast.walk(t)):
                            frontier |= {y.id for y in ast.walk(a.value) if isinstance(y, ast.Name)} - closure
                q = f"{f.qualname}:permute"
                if Q.id in closure:
                    r.bad(Finding("permute-layout", f.qualname,
                                  f"`{src_of(c)[:50]}` (line {c.lineno}): the dims `{dname}` are computed from `{Q.id}`, the inverse of the current layout `{inv_of}`, which is also the perm handed "
                                  "over: the operator is reshaped with the dims of the twice-permuted layout (wrong whenever the dims differ and the order is not self-inverse)",
                                  where=f"{m.relpath}:{c.lineno}", operand="dims-from-inverse"))
                else:
                    r.ok(q, sample={"function": f.qualname, "current layout": inv_of, "perm": Q.id, "dims built from": sorted(closure - {dname})[:6]})
    r.floor(n, 1, "permute calls that undo a known layout")
    return r
