"""C17: backend tables of the eigen / singular solvers."""

import ast

from ..framework import RuleResult, Finding
from ..model import dotted, src_of, const_value, FuncInfo
from .registries import static_dict_of_functions, _reads
from .. import AnalysisError

BASE = "quimb.linalg.base_linalg"
SELECTION_OPTS = ("k", "B", "which", "sigma", "isherm", "return_vecs", "sort", "v0", "tol", "ncv")


def _settings_keys(f):
    for n in ast.walk(f.node):
        if isinstance(n, ast.Assign) and isinstance(n.targets[0], ast.Name) and n.targets[0].id == "settings" and isinstance(n.value, ast.Dict):
            return {const_value(k, None): v for k, v in zip(n.value.keys, n.value.values)}
    return None


def rule_backend_use_or_reject(ctx):
    r = RuleResult(
        "backend-use-or-reject",
        "every backend registered in _EIGS_METHODS / _SVDS_METHODS accepts every key of the `settings` dict its "
        "dispatcher builds, and reads each selection-bearing option it accepts by name (k, B, which, sigma, isherm, "
        "return_vecs, sort ...): an accepted-but-unread option is silently ignored; the dispatcher builds each "
        "setting from its own parameter of the same name; the scipy fallback re-issues the same settings",
    )
    n = 0
    for regname, dispname in (("_EIGS_METHODS", "eigensystem_partial"), ("_SVDS_METHODS", "svds")):
        disp = ctx.prog.func(BASE, dispname)
        settings = _settings_keys(disp)
        if settings is None:
            raise AnalysisError(f"{dispname}: settings dict not found")
        where = f"{disp.module.relpath}:{disp.lineno}"
        for k, v in settings.items():
            names = {x.id for x in ast.walk(v) if isinstance(x, ast.Name)}
            if k in disp.params and k not in names:
                r.bad(Finding("backend-use-or-reject", dispname, f"setting `{k}` is built from {sorted(names)} instead of the dispatcher's own `{k}`", where=where, operand=k))
            else:
                r.ok(f"{dispname}[{k}]", nontrivial=False)
        # call sites of the registry and the fallback pass **settings
        calls = [c for c in ast.walk(disp.node) if isinstance(c, ast.Call) and any(kw.arg is None and src_of(kw.value) == "settings" for kw in c.keywords)]
        if len(calls) >= 1:
            r.ok(f"{dispname}[**settings]", sample={"dispatcher": dispname, "calls with **settings": len(calls)})
        else:
            r.bad(Finding("backend-use-or-reject", dispname, "backends are not called with **settings", where=where, operand="settings"))
        fb = [c for c in calls if isinstance(c.func, ast.Name)]
        if "fallback_to_scipy" in disp.params:
            if fb:
                r.ok(f"{dispname}[fallback]", sample={"fallback": src_of(fb[0])[:60]})
            else:
                r.bad(Finding("backend-use-or-reject", dispname, "the scipy fallback does not re-issue the call with the same settings", where=where, operand="fallback"))
        reg = static_dict_of_functions(ctx, BASE, regname)
        for name, (f, kw, v) in sorted(reg.items()):
            if f is None:
                r.skip(f"{regname}[{name}]", f"backend `{src_of(v)}` not resolved")
                continue
            n += 1
            wheref = f"{f.module.relpath}:{f.lineno}"
            for k in settings:
                if not f.accepts(k):
                    r.bad(Finding("backend-use-or-reject", f.qualname, f"backend {name!r} does not accept setting `{k}`", where=wheref, operand=f"{name}:{k}"))
                elif k in f.params and k in SELECTION_OPTS and not _reads(f, k):
                    r.bad(Finding("backend-use-or-reject", f.qualname, f"backend {name!r} accepts `{k}` but never reads it (the option is silently ignored)", where=wheref, operand=f"{name}:{k}:unread"))
                else:
                    r.ok(f"{name}[{k}]", sample={"backend": name, "function": f.qualname, "setting": k, "status": "read" if k in f.params else "via **kwargs"}, nontrivial=k in f.params)
    r.floor(n, 6, "resolved registered backends")
    return r


def rule_dense_table(ctx):
    r = RuleResult(
        "dense-table",
        "_DENSE_EIG_METHODS is total over (isherm, return_vecs, generalized) and each entry's function agrees with "
        "its key: an `h` routine iff Hermitian, a `vals` routine iff no vectors are requested, scipy.linalg iff the "
        "problem is generalized",
    )
    m = ctx.prog.module("quimb.linalg.numpy_linalg")
    node = m.assigns.get("_DENSE_EIG_METHODS")
    if not isinstance(node, ast.Dict):
        raise AnalysisError("_DENSE_EIG_METHODS is not a literal dict")
    seen = set()
    for k, v in zip(node.keys, node.values):
        key = const_value(k, None)
        if not (isinstance(key, tuple) and len(key) == 3):
            raise AnalysisError("_DENSE_EIG_METHODS key shape changed")
        seen.add(key)
        isherm, vecs, gen = key
        name = dotted(v) or src_of(v)
        base = name.split(".")[-1]
        problems = []
        if (base in ("eigh", "eigvalsh")) != bool(isherm):
            problems.append(f"Hermitian={isherm} but routine is {base}")
        if ("vals" in base) == bool(vecs):
            problems.append(f"return_vecs={vecs} but routine is {base}")
        if gen and not (name.startswith("scla.") or name.startswith("scipy.linalg")):
            problems.append(f"generalized problem but routine {name} is not from scipy.linalg")
        if problems:
            for p_ in problems:
                r.bad(Finding("dense-table", "_DENSE_EIG_METHODS", f"entry {key}: {p_}", where=m.relpath, operand=str(key)))
        else:
            r.ok(f"_DENSE_EIG_METHODS[{key}]", sample={"key": list(key), "routine": name})
    want = {(a, b, c) for a in (True, False) for b in (True, False) for c in (True, False)}
    if seen == want:
        r.ok("_DENSE_EIG_METHODS[total]")
    else:
        r.bad(Finding("dense-table", "_DENSE_EIG_METHODS", f"missing keys {sorted(want - seen)}", where=m.relpath, operand="total"))
    return r
