"""C17: backend tables of the eigen / singular solvers."""

import ast

from ..framework import RuleResult, Finding
from ..model import dotted, src_of, const_value, FuncInfo
from .registries import static_dict_of_functions, _reads
from .. import AnalysisError

BASE = "quimb.linalg.base_linalg"
SELECTION_OPTS = ("k", "B", "which", "sigma", "isherm", "return_vecs", "sort", "v0", "tol", "ncv")


def _settings_name(f):
    starred = {kw.value.id for c in ast.walk(f.node) if isinstance(c, ast.Call) for kw in c.keywords if kw.arg is None and isinstance(kw.value, ast.Name)}
    best = (None, -1)
    for n in ast.walk(f.node):
        if isinstance(n, ast.Assign) and isinstance(n.targets[0], ast.Name) and n.targets[0].id in starred and isinstance(n.value, ast.Dict) \
                and all(isinstance(k, ast.Constant) for k in n.value.keys) and len(n.value.keys) > best[1]:
            best = (n.targets[0].id, len(n.value.keys))
    return best[0]


def _settings_keys(f):
    """the dict literal bound to the local that the dispatcher **-expands into the backend call (whatever its name)"""
    starred = {kw.value.id for c in ast.walk(f.node) if isinstance(c, ast.Call) for kw in c.keywords if kw.arg is None and isinstance(kw.value, ast.Name)}
    best = None
    for n in ast.walk(f.node):
        if isinstance(n, ast.Assign) and isinstance(n.targets[0], ast.Name) and n.targets[0].id in starred and isinstance(n.value, ast.Dict) \
                and all(isinstance(k, ast.Constant) for k in n.value.keys):
            d = {const_value(k, None): v for k, v in zip(n.value.keys, n.value.values)}
            if best is None or len(d) > len(best):
                best = d
    return best


def rule_backend_use_or_reject(ctx):
    r = RuleResult(
        "backend-use-or-reject",
        "every backend registered in _EIGS_METHODS / _SVDS_METHODS accepts every key of the `settings` dict its "
        "dispatcher builds, and reads each selection-bearing option it accepts by name (k, B, which, sigma, isherm, "
        "return_vecs, sort ...): an accepted-but-unread option is silently ignored; the dispatcher builds each "
        "setting from its own parameter of the same name; the scipy fallback re-issues the same settings",
    )
    n = 0
    for regname, dispname in (("_EIGS_METHODS", "eigensystem_partial"), ("_SVDS_METHODS", "svds")):
        disp = ctx.prog.func(BASE, dispname)
        settings = _settings_keys(disp)
        if settings is None:
            raise AnalysisError(f"{dispname}: settings dict not found")
        where = f"{disp.module.relpath}:{disp.lineno}"
        for k, v in settings.items():
            names = {x.id for x in ast.walk(v) if isinstance(x, ast.Name)}
            if k in disp.params and k not in names:
                r.bad(Finding("backend-use-or-reject", dispname, f"setting `{k}` is built from {sorted(names)} instead of the dispatcher's own `{k}`", where=where, operand=k))
            else:
                r.ok(f"{dispname}[{k}]", nontrivial=False)
        # call sites of the registry and the fallback pass **settings
        calls = [c for c in ast.walk(disp.node) if isinstance(c, ast.Call) and any(kw.arg is None and isinstance(kw.value, ast.Name) and kw.value.id == _settings_name(disp) for kw in c.keywords)]
        if len(calls) >= 1:
            r.ok(f"{dispname}[**settings]", sample={"dispatcher": dispname, "calls with **settings": len(calls)})
        else:
            r.bad(Finding("backend-use-or-reject", dispname, "backends are not called with **settings", where=where, operand="settings"))
        fb = [c for c in calls if isinstance(c.func, ast.Name)]
        if "fallback_to_scipy" in disp.params:
            if fb:
                r.ok(f"{dispname}[fallback]", sample={"fallback": src_of(fb[0])[:60]})
            else:
                r.bad(Finding("backend-use-or-reject", dispname, "the scipy fallback does not re-issue the call with the same settings", where=where, operand="fallback"))
        reg = static_dict_of_functions(ctx, BASE, regname)
        for name, (f, kw, v) in sorted(reg.items()):
            if f is None:
                r.skip(f"{regname}[{name}]", f"backend `{src_of(v)}` not resolved")
                continue
            n += 1
            wheref = f"{f.module.relpath}:{f.lineno}"
            for k in settings:
                if not f.accepts(k):
                    r.bad(Finding("backend-use-or-reject", f.qualname, f"backend {name!r} does not accept setting `{k}`", where=wheref, operand=f"{name}:{k}"))
                elif k in f.params and k in SELECTION_OPTS and not _reads(f, k):
                    r.bad(Finding("backend-use-or-reject", f.qualname, f"backend {name!r} accepts `{k}` but never reads it (the option is silently ignored)", where=wheref, operand=f"{name}:{k}:unread"))
                else:
                    r.ok(f"{name}[{k}]", sample={"backend": name, "function": f.qualname, "setting": k, "status": "read" if k in f.params else "via **kwargs"}, nontrivial=k in f.params)
    r.floor(n, 6, "resolved registered backends")
    return r


def rule_dense_table(ctx):
    r = RuleResult(
        "dense-table",
        "_DENSE_EIG_METHODS is total over (isherm, return_vecs, generalized) and each entry's function agrees with "
        "its key: an `h` routine iff Hermitian, a `vals` routine iff no vectors are requested, scipy.linalg iff the "
        "problem is generalized",
    )
    m = ctx.prog.module("quimb.linalg.numpy_linalg")
    node = m.assigns.get("_DENSE_EIG_METHODS")
    if not isinstance(node, ast.Dict):
        raise AnalysisError("_DENSE_EIG_METHODS is not a literal dict")
    seen = set()
    for k, v in zip(node.keys, node.values):
        key = const_value(k, None)
        if not (isinstance(key, tuple) and len(key) == 3):
            raise AnalysisError("_DENSE_EIG_METHODS key shape changed")
        seen.add(key)
        isherm, vecs, gen = key
        name = dotted(v) or src_of(v)
        base = name.split(".")[-1]
        problems = []
        if (base in ("eigh", "eigvalsh")) != bool(isherm):
            problems.append(f"Hermitian={isherm} but routine is {base}")
        if ("vals" in base) == bool(vecs):
            problems.append(f"return_vecs={vecs} but routine is {base}")
        if gen and not (name.startswith("scla.") or name.startswith("scipy.linalg")):
            problems.append(f"generalized problem but routine {name} is not from scipy.linalg")
        if problems:
            for p_ in problems:
                r.bad(Finding("dense-table", "_DENSE_EIG_METHODS", f"entry {key}: {p_}", where=m.relpath, operand=str(key)))
        else:
            r.ok(f"_DENSE_EIG_METHODS[{key}]", sample={"key": list(key), "routine": name})
    want = {(a, b, c) for a in (True, False) for b in (True, False) for c in (True, False)}
    if seen == want:
        r.ok("_DENSE_EIG_METHODS[total]")
    else:
        r.bad(Finding("dense-table", "_DENSE_EIG_METHODS", f"missing keys {sorted(want - seen)}", where=m.relpath, operand="total"))
    return r


# ---------------------------------------------------------------------------
# selection / sorting permutations
# ---------------------------------------------------------------------------

LINALG_MODULES = (
    "quimb.linalg.base_linalg", "quimb.linalg.numpy_linalg", "quimb.linalg.scipy_linalg",
    "quimb.linalg.autoblock", "quimb.linalg.rand_linalg", "quimb.linalg.approx_spectral",
    "quimb.linalg.slepc_linalg",
)
_SHAPE_ONLY = {"size", "shape", "ndim", "dtype"}


def _own_walk(node):
    todo = [node]
    while todo:
        n = todo.pop()
        yield n
        for c in ast.iter_child_nodes(n):
            if not isinstance(c, (ast.FunctionDef, ast.AsyncFunctionDef, ast.Lambda)):
                todo.append(c)


def _value_names(e):
    """names used by value in e (a name that only appears as x.size / x.shape / len(x) does not count)."""
    shape_only = set()
    for n in ast.walk(e):
        if isinstance(n, ast.Attribute) and n.attr in _SHAPE_ONLY and isinstance(n.value, ast.Name):
            shape_only.add(id(n.value))
        if isinstance(n, ast.Call) and isinstance(n.func, ast.Name) and n.func.id == "len":
            for a in n.args:
                if isinstance(a, ast.Name):
                    shape_only.add(id(a))
    return {n.id for n in ast.walk(e) if isinstance(n, ast.Name) and id(n) not in shape_only}


def _argsort_subject(ctx, f, e, depth=0):
    """If expression e is (a slice of) an argsort of values, return the set of caller-side names whose *values*
    determine the order; None if e is not a value-determined permutation; () if not a permutation at all."""
    while isinstance(e, ast.Subscript):
        e = e.value
    if not isinstance(e, ast.Call):
        return ()
    fname = getattr(e.func, "attr", None) or getattr(e.func, "id", None)
    if fname == "argsort":
        if isinstance(e.func, ast.Attribute) and not (isinstance(e.func.value, ast.Name) and e.func.value.id in ("np", "numpy", "xp")) and not e.args:
            return _value_names(e.func.value)  # x.argsort()
        return _value_names(e.args[0]) if e.args else None
    callee = None
    if isinstance(e.func, ast.Name):
        callee = ctx.prog.lookup(f.module, e.func.id)
    elif dotted(e.func):
        callee = ctx.prog.resolve_expr(f.module, e.func)
    if isinstance(callee, FuncInfo) and depth < 3 and callee.module.name in LINALG_MODULES:
        rets = [n for n in _own_walk(callee.node) if isinstance(n, ast.Return) and n.value is not None]
        if not rets:
            return ()
        subs = [_argsort_subject(ctx, callee, rt.value, depth + 1) for rt in rets]
        if all(s == () for s in subs):
            return ()  # not a selector helper at all
        # a selector with a return that is no argsort selects, on that path, without looking at the values
        subs = [None if s == () else s for s in subs]
        if any(s is None for s in subs):
            return None
        # map callee params back to caller expressions
        out = set()
        pos = list(callee.posparams)
        for s in subs:
            hit = False
            for k, a in enumerate(e.args):
                if k < len(pos) and pos[k] in s:
                    out |= _value_names(a)
                    hit = True
            for kw in e.keywords:
                if kw.arg in s:
                    out |= _value_names(kw.value)
                    hit = True
            if not hit:
                return None
        return out
    return ()


def rule_perm_provenance(ctx):
    r = RuleResult(
        "perm-provenance",
        "every index array used to select or reorder eigen/singular values in quimb/linalg is (a slice of) an argsort "
        "of the *values* of the array it permutes (followed through selector helpers such as sort_inds, every return "
        "of which must itself be such an argsort); and all arrays returned together with a permuted array are "
        "permuted by the same index in the same block (values never reordered without their vectors)",
    )
    n = 0
    for modname in LINALG_MODULES:
        mod = ctx.prog.modules.get(modname)
        if mod is None:
            continue
        for f in mod.all_functions:
            if f.is_alias or isinstance(f.node, ast.Lambda):
                continue
            perms = {}
            for a in _own_walk(f.node):
                if isinstance(a, ast.Assign) and len(a.targets) == 1 and isinstance(a.targets[0], ast.Name):
                    s = _argsort_subject(ctx, f, a.value)
                    if s != ():
                        perms.setdefault(a.targets[0].id, []).append((a, s))
            if not perms:
                continue
            # returned-together groups
            groups = []
            for rt in _own_walk(f.node):
                if isinstance(rt, ast.Return) and isinstance(rt.value, ast.Tuple):
                    g = set()
                    for el in rt.value.elts:
                        x = el
                        while isinstance(x, ast.Call) and len(x.args) == 1 and not x.keywords:
                            x = x.args[0]
                        while isinstance(x, ast.Subscript):
                            x = x.value
                        if isinstance(x, ast.Name):
                            g.add(x.id)
                    if len(g) > 1:
                        groups.append(g)
            parents = {}
            fields = {}
            for p_ in _own_walk(f.node):
                for fld, val in ast.iter_fields(p_):
                    for c in (val if isinstance(val, list) else [val]):
                        if isinstance(c, ast.AST):
                            parents[c] = p_
                            fields[c] = fld
            for iname, defs in perms.items():
                for a, subj in defs:
                    n += 1
                    where = f"{f.module.relpath}:{a.lineno}"
                    construct = f.qualname
                    # arrays permuted with this index after the definition, in the same block
                    blk = parents.get(a)
                    body = None
                    for fld in ("body", "orelse", "finalbody"):
                        if isinstance(getattr(blk, fld, None), list) and a in getattr(blk, fld):
                            body = getattr(blk, fld)
                    later = body[body.index(a) + 1:] if body else []
                    permuted = set()
                    for st in later:
                        stop = False
                        for x in _own_walk(st):
                            if isinstance(x, ast.Subscript) and isinstance(x.value, ast.Name):
                                idx = x.slice.elts if isinstance(x.slice, ast.Tuple) else [x.slice]
                                if any(isinstance(i_, ast.Name) and i_.id == iname for i_ in idx) and isinstance(x.ctx, ast.Load):
                                    permuted.add(x.value.id)
                            if isinstance(x, ast.Assign) and any(isinstance(t, ast.Name) and t.id == iname for t in x.targets):
                                stop = True
                        if stop:
                            break
                    if not permuted:
                        n -= 1
                        continue
                    if subj is None:
                        r.bad(Finding("perm-provenance", construct,
                                      f"`{iname} = {src_of(a.value)[:60]}` selects/reorders {sorted(permuted)} through a helper with a return "
                                      "that does not look at the values (positions only): correct only if the solver already returned them in order",
                                      where=where, operand=f"{iname}:positional"))
                        continue
                    if not (subj & permuted):
                        r.bad(Finding("perm-provenance", construct,
                                      f"`{iname}` is an argsort of {sorted(subj)} but is applied to {sorted(permuted)}: the order is not determined by the array being selected from",
                                      where=where, operand=f"{iname}:foreign-key"))
                        continue
                    missing = set()
                    for g in groups:
                        if g & permuted:
                            missing |= (g - permuted)
                    # a member defined only after this block (e.g. built from the permuted ones) is not a companion
                    anc = set()
                    q = a
                    while q in parents:
                        anc.add((id(parents[q]), fields[q]))
                        q = parents[q]
                    defined_before = {
                        t.id for x in _own_walk(f.node)
                        if isinstance(x, ast.Assign) and x.lineno <= a.lineno and (id(parents.get(x)), fields.get(x)) in anc
                        for t0 in x.targets for t in ast.walk(t0) if isinstance(t, ast.Name)
                    } | set(f.params)
                    missing &= defined_before
                    if missing:
                        r.bad(Finding("perm-provenance", construct,
                                      f"{sorted(permuted)} reordered by `{iname}` but {sorted(missing)}, returned together with it, is not: values and vectors no longer correspond",
                                      where=where, operand=f"{iname}:companions"))
                        continue
                    r.ok(f"{construct}[{iname}]", sample={"function": f.qualname, "index": f"{iname} = {src_of(a.value)[:50]}", "keyed on": sorted(subj & permuted), "permutes": sorted(permuted)})
    r.floor(n, 7, "selection / sorting permutations")
    return r


def rule_none_vs_zero(ctx):
    r = RuleResult(
        "none-vs-zero",
        "in quimb/linalg an optional numeric selection parameter (default None: sigma, the target / shift of a spectral "
        "window, k ...) is only ever tested with `is None` / `is not None`: a truthiness test treats the legitimate value 0 "
        "(eigenvalues nearest zero) as 'not given' and silently selects a different part of the spectrum",
    )
    NUMERIC = {"sigma", "target", "shift", "k", "w_0", "w_sz", "k_min", "k_max", "tol", "ncv", "maxiter"}
    n = 0
    for f in ctx.prog.all_functions(nested=False):
        if f.is_alias or isinstance(f.node, ast.Lambda):
            continue
        if not (f.module.name in LINALG_MODULES or ctx.is_control(f)):
            continue
        a = f.node.args
        params = a.args + a.kwonlyargs
        defaults = [None] * (len(a.args) - len(a.defaults)) + list(a.defaults) + list(a.kw_defaults)
        nonep = {p_.arg for p_, d in zip(params, defaults) if isinstance(d, ast.Constant) and d.value is None and p_.arg in NUMERIC}
        if not nonep:
            continue
        if not ctx.is_control(f):
            n += 1
        hit = None
        for x in ast.walk(f.node):
            tests = []
            if isinstance(x, (ast.If, ast.IfExp, ast.While)):
                tests = [x.test]
            elif isinstance(x, ast.BoolOp):
                tests = list(x.values)
            elif isinstance(x, ast.UnaryOp) and isinstance(x.op, ast.Not):
                tests = [x.operand]
            for t in tests:
                if isinstance(t, ast.Name) and t.id in nonep:
                    hit = (t.id, x.lineno)
        if hit:
            r.bad(Finding("none-vs-zero", f.qualname, f"tests the truthiness of `{hit[0]}` (line {hit[1]}): {hit[0]}=0 is treated as 'not given'",
                          where=f"{f.module.relpath}:{hit[1]}", operand=hit[0]))
        else:
            r.ok(f.qualname, sample={"function": f.qualname, "optional numeric parameters": sorted(nonep)}, nontrivial=False)
    r.floor(n, 4, "linalg functions with optional numeric selection parameters")
    r.need_controls(1)
    return r


def rule_return_arity(ctx):
    r = RuleResult(
        "return-arity",
        "solvers with a `compute_uv` / `return_vecs` switch return either the values alone or the full tuple: a return written "
        "`return U, s, VH if flag else s` parses as the 3-tuple (U, s, (VH if flag else s)) — detected structurally as a tuple "
        "whose last element is a conditional expression that falls back to a name already present in the tuple",
    )
    n = 0
    for modname in LINALG_MODULES:
        mod = ctx.prog.modules.get(modname)
        if mod is None:
            continue
        for f in mod.all_functions:
            if f.is_alias or isinstance(f.node, ast.Lambda):
                continue
            if not ({"compute_uv", "return_vecs"} & set(f.params)):
                continue
            n += 1
            bad = None
            for rt in _own_walk(f.node):
                if isinstance(rt, ast.Return) and isinstance(rt.value, ast.Tuple) and rt.value.elts and isinstance(rt.value.elts[-1], ast.IfExp):
                    last = rt.value.elts[-1]
                    others = {e.id for e in rt.value.elts[:-1] if isinstance(e, ast.Name)}
                    if isinstance(last.orelse, ast.Name) and last.orelse.id in others:
                        bad = rt
            if bad is not None:
                r.bad(Finding("return-arity", f.qualname, f"`{src_of(bad)}` returns a {len(bad.value.elts)}-tuple in both cases (the conditional binds only to the last element): "
                              "with the switch off the caller receives a tuple instead of the values", where=f"{f.module.relpath}:{bad.lineno}", operand="tuple-conditional"))
            else:
                r.ok(f.qualname, nontrivial=False)
    r.floor(n, 8, "solvers with a values-only switch")
    return r


def rule_adjoint_distinct(ctx):
    r = RuleResult(
        "adjoint-distinct",
        "a scipy LinearOperator subclass that implements `_rmatvec` (the action of the adjoint) with a body identical to `_matvec` "
        "claims A^H = A; for an operator whose stored state can be complex (a scalar factor, tensor data) that only holds if the "
        "state is conjugated: `_rmatvec` must differ from `_matvec` by a conjugation / transposition of what the operator stores",
    )
    n = 0
    for m in ctx.prog.modules.values():
        if not m.name.startswith("quimb."):
            continue
        for c in m.classes.values():
            if not any("LinearOperator" in (src_of(b) or "") for b in c.node.bases):
                continue
            mv, rmv = c.methods.get("_matvec"), c.methods.get("_rmatvec")
            if mv is None or rmv is None or mv.cls is not c or rmv.cls is not c:
                continue
            n += 1
            same = [ast.dump(x) for x in mv.node.body] == [ast.dump(x) for x in rmv.node.body]
            conj = any(isinstance(x, ast.Call) and (dotted(x.func) or "").split(".")[-1] in ("conj", "conjugate", "dag") for x in ast.walk(rmv.node)) \
                or any(isinstance(x, ast.Attribute) and x.attr in ("H", "conj") for x in ast.walk(rmv.node))
            q = f"{c.name}._rmatvec"
            if same and not conj:
                r.bad(Finding("adjoint-distinct", q, "`_rmatvec` is identical to `_matvec`: the adjoint of an operator with a complex state (e.g. a complex scalar factor) is "
                                                     "returned without conjugation", where=f"{m.relpath}:{rmv.lineno}", operand="identical"))
            else:
                r.ok(q, sample={"class": c.name, "adjoint": "conjugates" if conj else "differs from _matvec"})
    r.floor(n, 1, "LinearOperator subclasses implementing both _matvec and _rmatvec")
    return r


def rule_arm_option_agreement(ctx):
    r = RuleResult(
        "arm-option-agreement",
        "a solver front end that computes the same result in two arms of one if/else (dense vs iterative route) honours its selection "
        "options in both: a selection parameter (k, which, sigma ...) that one arm reads — directly or in the statements that follow on "
        "that arm only — is read on the other arm too; otherwise the two routes return different parts of the spectrum for the same call",
    )
    n = 0
    for f in ctx.prog.all_functions(nested=False):
        if f.is_alias or isinstance(f.node, ast.Lambda) or f.module.name not in LINALG_MODULES:
            continue
        sel = [p_ for p_ in f.params if p_ in ("k", "which", "sigma")]
        if not sel:
            continue
        for st in f.node.body:
            if not (isinstance(st, ast.If) and st.orelse and not (len(st.orelse) == 1 and isinstance(st.orelse[0], ast.If))):
                continue

            def assigned(stmts):
                return {y.id for s_ in stmts for a in ast.walk(s_) if isinstance(a, ast.Assign) for t in a.targets for y in ast.walk(t) if isinstance(y, ast.Name)}

            common = assigned(st.body) & assigned(st.orelse)
            if not common:
                continue
            # both arms must end normally (no return / raise) for the comparison to be about one result
            if any(isinstance(x, (ast.Return, ast.Raise)) for s_ in st.body + st.orelse for x in ast.walk(s_)):
                continue
            n += 1
            for p_ in sel:
                ua = any(isinstance(y, ast.Name) and y.id == p_ for s_ in st.body for y in ast.walk(s_))
                ub = any(isinstance(y, ast.Name) and y.id == p_ for s_ in st.orelse for y in ast.walk(s_))
                q = f"{f.qualname}[{p_}]"
                if ua != ub:
                    arm = "else" if ua else "if"
                    r.bad(Finding("arm-option-agreement", f.qualname,
                                  f"`{p_}` is honoured in one arm of `if {src_of(st.test)[:50]}` only (the {arm}-arm never reads it) although both arms compute {sorted(common)[:3]}: "
                                  "the two routes select different eigenpairs for the same call", where=f"{f.module.relpath}:{st.lineno}", operand=p_))
                else:
                    r.ok(q, sample={"function": f.qualname, "option": p_, "arms": "both" if ua else "neither (applied outside the branch)"}, nontrivial=ua)
    r.floor(n, 1, "two-armed result computations in the solver front ends")
    return r
