"""C02: the lookup structures of a TensorNetwork and the ownership registry
of a Tensor are written only by their maintaining methods, which pair their
updates; copies duplicate the maps; renames go through the notifying path."""

import ast

from ..framework import RuleResult, Finding
from ..model import dotted, src_of, const_value
from .. import AnalysisError

TN_MAPS = {"tensor_map", "ind_map", "tag_map", "_inner_inds", "_outer_inds", "_tid_counter"}
T_STATE = {"_owners", "_inds", "_tags", "_data", "_left_inds"}
MUTATORS = {
    "pop", "add", "discard", "clear", "update", "remove", "setdefault", "popitem", "append",
    "extend", "insert", "difference_update", "intersection_update", "move_to_end", "popleft",
    "popright", "sort", "reverse", "__setitem__", "__delitem__",
}

# The maintaining methods, inferred from today's tree (every function that
# contains a write) and confirmed by reading; frozen here.
TN_OWNERS = {
    "TensorNetwork.__init__", "TensorNetwork._link_tags", "TensorNetwork._unlink_tags",
    "TensorNetwork._link_inds", "TensorNetwork._unlink_inds", "TensorNetwork._reset_inner_outer",
    "TensorNetwork._next_tid", "TensorNetwork.add_tensor", "TensorNetwork.pop_tensor",
    "TensorNetwork.remove_all_tensors", "TensorNetwork.make_tids_consecutive",
    "TensorNetwork.__setstate__", "TensorNetwork.__getstate__",
}
T_OWNERS = {
    "Tensor.__init__", "Tensor._set_data", "Tensor._set_inds", "Tensor._set_tags",
    "Tensor._set_left_inds", "Tensor.modify", "Tensor.add_owner", "Tensor.remove_owner",
    "Tensor.check_owners", "Tensor.__setstate__", "Tensor.__getstate__", "Tensor._apply_function",
    "Tensor.left_inds.setter", "Tensor.data.setter",
    "PTensor.__setstate__", "PTensor._set_data", "PTensor.__init__", "PTensor.from_parray",
    "PTensor._apply_function", "PTensor.unparametrize",
    "IsoTensor.__init__", "IsoTensor.modify",
}


def _live_kind(node, aliases, scan=None):
    """If ``node`` denotes a live lookup structure return (kind, text):
    'map'  <e>.tensor_map / ind_map / tag_map / _inner_inds / _outer_inds
    'entry' <e>.ind_map[k] / <e>.tag_map[k] / .get(k) / .tags / ._tags / ._owners
    """
    if isinstance(node, ast.Name) and node.id in aliases:
        return aliases[node.id]
    if isinstance(node, ast.Attribute):
        if node.attr in TN_MAPS:
            return ("map", node.attr)
        if node.attr in ("tags", "_tags", "_owners", "_inds"):
            k = receiver_kind(node.value, scan) if scan is not None else None
            if k == "tensor":
                return ("tstate", node.attr)
            if k is None and scan is not None:
                scan.unresolved += 1
            return None
    if isinstance(node, ast.Subscript):
        k = _live_kind(node.value, aliases, scan)
        if k and k[0] == "map" and k[1] in ("ind_map", "tag_map"):
            return ("entry", k[1])
    if isinstance(node, ast.Call) and isinstance(node.func, ast.Attribute) and node.func.attr in ("get", "setdefault"):
        k = _live_kind(node.func.value, aliases, scan)
        if k and k[0] == "map" and k[1] in ("ind_map", "tag_map"):
            # .get(k, oset()) may return the live entry
            return ("entry", k[1])
    return None


TENSOR_NAMES = {"t", "T", "tensor", "ta", "tb", "t1", "t2", "tl", "tr", "ti", "tj", "tk", "T1", "T2", "Tl", "Tr", "TG"}
TENSOR_YIELDING = {"tensors", "select_tensors", "_inds_get", "_tags_get", "_tids_get", "values"}


def receiver_kind(node, scan):
    """'tensor' / 'tn' / None for the object whose ``.tags`` / ``._tags`` /
    ``._inds`` / ``._owners`` is being touched."""
    if isinstance(node, ast.Name):
        if node.id == "self":
            return scan.self_kind
        if node.id in scan.tensor_locals:
            return "tensor"
        if node.id in scan.tn_locals:
            return "tn"
        if node.id in TENSOR_NAMES:
            return "tensor"
        return None
    if isinstance(node, ast.Subscript):
        # X.tensor_map[tid] is a tensor; tn[...] of a known network too
        if isinstance(node.value, ast.Attribute) and node.value.attr == "tensor_map":
            return "tensor"
        if receiver_kind(node.value, scan) == "tn":
            return "tensor"
        return None
    if isinstance(node, ast.Call) and isinstance(node.func, ast.Attribute):
        if node.func.attr.startswith("select") and node.func.attr != "select_tensors" or node.func.attr in ("copy", "_select_tids", "_select_without_tids"):
            return receiver_kind(node.func.value, scan) if node.func.attr == "copy" else "tn"
    return None


class _WriteScan(ast.NodeVisitor):
    """Collect write sites to live lookup structures in one function."""

    def __init__(self, fnode, self_kind=None):
        self.fnode = fnode
        self.aliases = {}
        self.writes = []  # (kind, attr, line, text)
        self.self_kind = self_kind
        self.tensor_locals = set()
        self.tn_locals = set()
        self.unresolved = 0

    def infer_locals(self):
        for n in ast.walk(self.fnode):
            tgt = it = None
            if isinstance(n, (ast.For, ast.comprehension)):
                tgt, it = n.target, n.iter
                names = [tgt] if isinstance(tgt, ast.Name) else ([e for e in tgt.elts if isinstance(e, ast.Name)][-1:] if isinstance(tgt, ast.Tuple) else [])
                yielding = False
                if isinstance(it, ast.Attribute) and it.attr in TENSOR_YIELDING:
                    yielding = True
                if isinstance(it, ast.Call) and isinstance(it.func, ast.Attribute) and it.func.attr in TENSOR_YIELDING | {"items"}:
                    base = it.func.value
                    if it.func.attr in ("values", "items"):
                        yielding = isinstance(base, ast.Attribute) and base.attr == "tensor_map"
                    else:
                        yielding = True
                if isinstance(it, ast.Name) and (it.id in self.tn_locals or (it.id == "self" and self.self_kind == "tn")):
                    yielding = True
                if yielding:
                    for nm in names:
                        self.tensor_locals.add(nm.id)
            if isinstance(n, ast.Assign) and len(n.targets) == 1 and isinstance(n.targets[0], ast.Name):
                k = receiver_kind(n.value, self)
                if k == "tensor":
                    self.tensor_locals.add(n.targets[0].id)
                elif k == "tn":
                    self.tn_locals.add(n.targets[0].id)

    def run(self):
        # first pass: aliases (flow-insensitive: any binding of a local to a
        # live structure makes the local a may-alias; rebinding to a copy is
        # handled by checking all bindings)
        binds = {}
        self.infer_locals()
        self.infer_locals()
        for n in ast.walk(self.fnode):
            if isinstance(n, ast.Assign) and len(n.targets) == 1 and isinstance(n.targets[0], ast.Name):
                binds.setdefault(n.targets[0].id, []).append(n.value)
            elif isinstance(n, ast.NamedExpr):
                binds.setdefault(n.target.id, []).append(n.value)
        for _ in range(2):
            for name, vals in binds.items():
                for v in vals:
                    k = _live_kind(v, self.aliases, self)
                    if k:
                        self.aliases[name] = k
        # position-sensitive refinement: a use of an alias name counts only if the nearest preceding binding
        # of that name (by line) binds it to a live structure — `tids = []` ... `tids.append(x)` is not a write
        # even if the same name is later rebound to `tn.ind_map[ind]`
        self.bind_lines = {}
        for name, vals in binds.items():
            self.bind_lines[name] = sorted((v.lineno, _live_kind(v, self.aliases, self)) for v in vals)
        all_aliases = dict(self.aliases)
        for n in ast.walk(self.fnode):
            line = getattr(n, "lineno", None)
            if line is not None:
                cur = {}
                for name, k in all_aliases.items():
                    bl = self.bind_lines.get(name)
                    if not bl:
                        cur[name] = k
                        continue
                    prev = [kk for ln, kk in bl if ln <= line]
                    kk = prev[-1] if prev else bl[0][1]
                    if kk:
                        cur[name] = kk
                self.aliases = cur
            self.visit_one(n)
        self.aliases = all_aliases
        return self.writes

    def add(self, k, node, what):
        self.writes.append((k[0], k[1], node.lineno, what))

    def visit_one(self, n):
        if isinstance(n, (ast.Assign, ast.AugAssign, ast.AnnAssign)):
            targets = n.targets if isinstance(n, ast.Assign) else [n.target]
            for t in targets:
                for tt in (t.elts if isinstance(t, (ast.Tuple, ast.List)) else [t]):
                    self.store(tt, n)
        elif isinstance(n, ast.Delete):
            for t in n.targets:
                self.store(t, n)
        elif isinstance(n, ast.Call) and isinstance(n.func, ast.Attribute) and n.func.attr in MUTATORS:
            k = _live_kind(n.func.value, self.aliases, self)
            if k:
                self.add(k, n, f"{src_of(n.func)}(...)")
        elif isinstance(n, ast.AugAssign):
            pass

    def store(self, t, n):
        if isinstance(t, ast.Attribute) and t.attr in TN_MAPS:
            self.add(("map", t.attr), n, f"{src_of(t)} = ...")
        elif isinstance(t, ast.Attribute) and t.attr in ("_owners", "_tags", "_inds"):
            k = receiver_kind(t.value, self)
            if k == "tensor":
                self.add(("tstate", t.attr), n, f"{src_of(t)} = ...")
            elif k is None:
                self.unresolved += 1
        elif isinstance(t, ast.Subscript):
            k = _live_kind(t.value, self.aliases, self)
            if k:
                self.add(k, n, f"{src_of(t)} (store/del)")
        elif isinstance(t, ast.Name) and isinstance(n, ast.AugAssign):
            k = self.aliases.get(t.id)
            if k and k[0] in ("map", "entry", "tstate") and isinstance(n.op, (ast.BitOr, ast.BitAnd, ast.Sub, ast.BitXor)):
                self.add(k, n, f"{t.id} {type(n.op).__name__}= ... (in-place set operator on live structure)")


def rule_map_owner(ctx):
    r = RuleResult(
        "map-owner",
        "who-may-write: every rebinding / item store / del / mutator call whose target is (or is a local "
        "alias of) tensor_map, ind_map, tag_map, _inner_inds, _outer_inds, _tid_counter, an ind_map/tag_map "
        "entry, or Tensor._owners/_tags/_inds lies inside the frozen set of maintaining methods",
    )
    r.need_controls(2)
    nsites = 0
    owners_seen = set()
    for f in ctx.prog.all_functions(nested=True):
        if f.is_alias:
            continue
        q = f.qualname.split(".<locals>.")[0]
        node = f.node
        if isinstance(node, ast.Lambda):
            continue
        if f.parent is not None:
            continue  # nested functions are scanned as part of their parent
        sk = None
        if f.cls is not None and not f.is_static:
            if ctx.eff.tn_root and f.cls.isa(ctx.eff.tn_root):
                sk = "tn"
            elif ctx.eff.tensor_root and f.cls.isa(ctx.eff.tensor_root):
                sk = "tensor"
            else:
                sk = "other"
        scan = _WriteScan(node, sk)
        writes = scan.run()
        r.unresolved += scan.unresolved
        for kind, attr, line, what in writes:
            nsites += 1
            is_tn_attr = attr in TN_MAPS
            owner = (q in TN_OWNERS) if is_tn_attr else (q in T_OWNERS or q in TN_OWNERS and False)
            if owner:
                owners_seen.add(q)
                r.ok(f"{q}:{what}", sample={"owner": q, "write": what})
            else:
                r.bad(Finding(
                    "map-owner", q, f"non-owner write to live lookup structure `{attr}`: {what} (line {line})",
                    where=f"{f.module.relpath}:{f.lineno}", operand=f"{attr}:{_norm(what)}",
                ))
    real_sites = nsites
    r.floor(real_sites, 40, "write sites to lookup structures")
    r.floor(len(owners_seen), 12, "owner methods containing writes")
    return r


def _self_only(what):
    return what.startswith("self.")


def _norm(what):
    return what.split("(")[0].strip()


# ---------------------------------------------------------------- tags-view
def rule_rename_notifies(ctx):
    r = RuleResult(
        "rename-notifies",
        "the non-notifying setters Tensor._set_inds/_set_tags are called only from the owner methods; in "
        "Tensor.modify the owners' _modify_tensor_inds/_modify_tensor_tags are called before _inds/_tags are "
        "rebound on the branch that changes them",
    )
    r.need_controls(1)
    n = 0
    for f in ctx.prog.all_functions(nested=True):
        if f.is_alias or isinstance(f.node, ast.Lambda):
            continue
        q = f.qualname.split(".<locals>.")[0]
        for node in ast.walk(f.node):
            if isinstance(node, ast.Call) and isinstance(node.func, ast.Attribute) and node.func.attr in ("_set_inds", "_set_tags"):
                n += 1
                if q in T_OWNERS:
                    r.ok(f"{q}:{node.func.attr}", sample={"caller": q, "call": src_of(node.func)})
                else:
                    r.bad(Finding(
                        "rename-notifies", q,
                        f"{src_of(node.func)}(...) bypasses owner notification (only Tensor.__init__/modify may call it)",
                        where=f"{f.module.relpath}:{node.lineno}", operand=node.func.attr,
                    ))
    r.floor(n, 3, "calls of the non-notifying setters")
    # ordering inside Tensor.modify
    mod = ctx.prog.func("quimb.tensor.tensor_core", "Tensor.modify")
    for key, notifier, setter in (("inds", "_modify_tensor_inds", "_set_inds"), ("tags", "_modify_tensor_tags", "_set_tags")):
        ok = _notify_before_set(mod.node, key, notifier, setter)
        construct = f"Tensor.modify[{key}]"
        if ok is True:
            r.ok(construct, sample={"branch": key, "order": f"{notifier} for every owner, then {setter}"})
        else:
            r.bad(Finding("rename-notifies", "Tensor.modify", ok, where=f"{mod.module.relpath}:{mod.lineno}", operand=key))
    # the owner loop must iterate check_owners() (live, pruned owner list)
    return r


def _notify_before_set(fnode, key, notifier, setter):
    """In the `if "<key>" in kwargs:` branch of modify: a loop over
    self.check_owners() calling tn.<notifier>(tid, old, new) must precede the
    call self.<setter>(new)."""
    for node in ast.walk(fnode):
        if isinstance(node, ast.If) and isinstance(node.test, ast.Compare) and isinstance(node.test.left, ast.Constant) and node.test.left.value == key:
            notify_line = None
            set_line = None
            loops_over_owners = False
            for sub in ast.walk(node):
                if isinstance(sub, ast.Call) and isinstance(sub.func, ast.Attribute):
                    if sub.func.attr == notifier and notify_line is None:
                        notify_line = sub.lineno
                    if sub.func.attr == setter and set_line is None:
                        set_line = sub.lineno
                if isinstance(sub, ast.Assign) and any(src_of(t) == "self." + setter[4:] for t in sub.targets) and set_line is None:
                    # direct rebinding  self._inds = ... / self._tags = ...
                    set_line = sub.lineno
                if isinstance(sub, ast.For) and ("check_owners" in src_of(sub.iter) or "_owners" in src_of(sub.iter)):
                    if any(isinstance(x, ast.Call) and isinstance(x.func, ast.Attribute) and x.func.attr == notifier for x in ast.walk(sub)):
                        loops_over_owners = True
            if notify_line is None:
                return f"branch `{key}` of Tensor.modify never calls {notifier}"
            if set_line is None:
                return f"branch `{key}` of Tensor.modify never calls {setter}"
            if not loops_over_owners:
                return f"{notifier} is not called in a loop over the owners"
            if "check_owners" not in src_of(node):
                return f"owners are not pruned with check_owners() before {notifier}"
            if notify_line > set_line:
                return f"{setter} (line {set_line}) runs before owners are notified via {notifier} (line {notify_line})"
            return True
    raise AnalysisError(f"Tensor.modify has no `if \"{key}\" in kwargs` branch any more")


# ------------------------------------------------------------------ pairing
def _calls_in(node, names):
    out = {}
    for sub in ast.walk(node):
        if isinstance(sub, ast.Call) and isinstance(sub.func, ast.Attribute) and sub.func.attr in names:
            out.setdefault(sub.func.attr, []).append(sub)
    return out


def rule_pairing(ctx):
    r = RuleResult(
        "pairing",
        "owner methods pair their updates: add_tensor stores, registers the owner and links tags and inds of "
        "the same tensor/tid; pop_tensor undoes all four; remove_all_tensors clears every map; "
        "_link_inds/_unlink_inds move an index between inner and outer exactly at the 1<->2 boundary",
    )
    tc = "quimb.tensor.tensor_core"
    # add_tensor
    f = ctx.prog.func(tc, "TensorNetwork.add_tensor")
    stored = None
    for n in ast.walk(f.node):
        if isinstance(n, ast.Assign) and isinstance(n.targets[0], ast.Subscript) and src_of(n.targets[0].value) == "self.tensor_map":
            stored = (src_of(n.targets[0].slice), src_of(n.value))
    if stored is None:
        raise AnalysisError("add_tensor no longer stores into self.tensor_map")
    tidv, tv = stored
    calls = _calls_in(f.node, {"add_owner", "_link_tags", "_link_inds"})
    want = {
        "add_owner": lambda c: src_of(c.func.value) == tv and [src_of(a) for a in c.args] == ["self", tidv],
        "_link_tags": lambda c: [src_of(a) for a in c.args] == [f"{tv}.tags", tidv],
        "_link_inds": lambda c: [src_of(a) for a in c.args] == [f"{tv}.inds", tidv],
    }
    for name, pred in want.items():
        cs = calls.get(name, [])
        if len(cs) == 1 and pred(cs[0]) and _unconditional(f.node, cs[0]):
            r.ok(f"TensorNetwork.add_tensor:{name}", sample={"stored": f"self.tensor_map[{tidv}] = {tv}", "paired": src_of(cs[0])})
        else:
            r.bad(Finding("pairing", "TensorNetwork.add_tensor",
                          f"store into tensor_map is not paired with an unconditional {name}(...) for the same tensor `{tv}` and tid `{tidv}`",
                          where=f"{f.module.relpath}:{f.lineno}", operand=name))
    # pop_tensor
    f = ctx.prog.func(tc, "TensorNetwork.pop_tensor")
    popped = None
    for n in ast.walk(f.node):
        if isinstance(n, ast.Assign) and isinstance(n.value, ast.Call) and src_of(n.value.func) == "self.tensor_map.pop" and isinstance(n.targets[0], ast.Name):
            popped = (n.targets[0].id, src_of(n.value.args[0]))
    if popped is None:
        raise AnalysisError("pop_tensor no longer pops from self.tensor_map")
    tv, tidv = popped
    calls = _calls_in(f.node, {"remove_owner", "_unlink_tags", "_unlink_inds"})
    want = {
        "remove_owner": lambda c: src_of(c.func.value) == tv and [src_of(a) for a in c.args] == ["self"],
        "_unlink_tags": lambda c: [src_of(a) for a in c.args] == [f"{tv}.tags", tidv],
        "_unlink_inds": lambda c: [src_of(a) for a in c.args] == [f"{tv}.inds", tidv],
    }
    for name, pred in want.items():
        cs = calls.get(name, [])
        if len(cs) == 1 and pred(cs[0]) and _unconditional(f.node, cs[0]):
            r.ok(f"TensorNetwork.pop_tensor:{name}", sample={"popped": f"{tv} = self.tensor_map.pop({tidv})", "paired": src_of(cs[0])})
        else:
            r.bad(Finding("pairing", "TensorNetwork.pop_tensor",
                          f"tensor_map.pop is not paired with an unconditional {name}(...) for the popped tensor",
                          where=f"{f.module.relpath}:{f.lineno}", operand=name))
    # remove_all_tensors
    f = ctx.prog.func(tc, "TensorNetwork.remove_all_tensors")
    cleared = set()
    disown = False
    for n in ast.walk(f.node):
        if isinstance(n, ast.Call) and isinstance(n.func, ast.Attribute) and n.func.attr == "clear":
            cleared.add(src_of(n.func.value))
        if isinstance(n, ast.Call) and isinstance(n.func, ast.Attribute) and n.func.attr == "remove_owner":
            disown = True
    for m in ("self.tensor_map", "self.tag_map", "self.ind_map", "self._inner_inds", "self._outer_inds"):
        if m in cleared:
            r.ok(f"TensorNetwork.remove_all_tensors:{m}")
        else:
            r.bad(Finding("pairing", "TensorNetwork.remove_all_tensors", f"{m} is not cleared",
                          where=f"{f.module.relpath}:{f.lineno}", operand=m))
    if disown:
        r.ok("TensorNetwork.remove_all_tensors:remove_owner")
    else:
        r.bad(Finding("pairing", "TensorNetwork.remove_all_tensors", "tensors are not disowned",
                      where=f"{f.module.relpath}:{f.lineno}", operand="remove_owner"))
    # _link_inds / _unlink_inds / _reset_inner_outer: inner/outer transitions
    _check_link_inds(ctx, r)
    _check_modify_hooks(ctx, r)
    return r


def _unconditional(fnode, call):
    """The call is a top-level statement of the function (not under if/for/
    try), or inside a with/plain block only."""
    for st in fnode.body:
        if isinstance(st, ast.Expr) and st.value is call:
            return True
        if isinstance(st, ast.Assign) and st.value is call:
            return True
    return False


def _effects_on(node, var):
    """Set of (set_name, op) performed in ``node`` on self._inner_inds /
    self._outer_inds with argument ``var``."""
    out = set()
    for n in ast.walk(node):
        if isinstance(n, ast.Call) and isinstance(n.func, ast.Attribute) and n.func.attr in ("add", "discard", "remove"):
            tgt = src_of(n.func.value)
            if tgt in ("self._inner_inds", "self._outer_inds") and n.args and src_of(n.args[0]) == var:
                out.add((tgt.split(".")[1], "add" if n.func.attr == "add" else "discard"))
    return out


def _stmts_effects(stmts, var):
    out = set()
    for s in stmts:
        out |= _effects_on(s, var)
    return out


def _check_link_inds(ctx, r):
    tc = "quimb.tensor.tensor_core"
    # _link_inds: for ind in inds: if ind in self.ind_map: [existing] else: [new]
    f = ctx.prog.func(tc, "TensorNetwork._link_inds")
    loop = next((n for n in f.node.body if isinstance(n, ast.For)), None)
    if loop is None or not isinstance(loop.target, ast.Name):
        raise AnalysisError("_link_inds lost its per-index loop")
    var = loop.target.id
    iff = next((n for n in loop.body if isinstance(n, ast.If)), None)
    if iff is None or src_of(iff.test) != f"{var} in self.ind_map":
        raise AnalysisError("_link_inds lost its `ind in self.ind_map` test")
    existing = _stmts_effects(iff.body, var)
    new = _stmts_effects(iff.orelse, var)
    exp_existing = {("_outer_inds", "discard"), ("_inner_inds", "add")}
    exp_new = {("_outer_inds", "add")}
    for name, got, exp in (("existing", existing, exp_existing), ("new", new, exp_new)):
        if got == exp:
            r.ok(f"TensorNetwork._link_inds[{name}]", sample={"branch": name, "effects": sorted(got)})
        else:
            r.bad(Finding("pairing", "TensorNetwork._link_inds",
                          f"branch `{name} index`: inner/outer updates are {sorted(got)}, expected {sorted(exp)}",
                          where=f"{f.module.relpath}:{f.lineno}", operand=name))
    # the entry itself
    src = src_of(f.node)
    if f"self.ind_map[{var}].add(tid)" in src and f"self.ind_map[{var}] = oset((tid,))" in src:
        r.ok("TensorNetwork._link_inds[entry]")
    else:
        r.bad(Finding("pairing", "TensorNetwork._link_inds", "ind_map entry is not created/extended with the tid",
                      where=f"{f.module.relpath}:{f.lineno}", operand="entry"))
    # _unlink_inds: abstract interpretation over the number of holders that remain after the tid is discarded
    # (0, 1, >= 2): which statements run for each, and what they do to the entry and the inner / outer sets
    f = ctx.prog.func(tc, "TensorNetwork._unlink_inds")
    var = None
    loop = None
    for n in ast.walk(f.node):
        if isinstance(n, ast.For) and isinstance(n.target, ast.Name):
            var, loop = n.target.id, n
    if loop is None:
        raise AnalysisError("_unlink_inds lost its per-index loop")
    # names standing for the remaining holders: the entry set and its length
    set_names, len_names = set(), set()
    for n in ast.walk(loop):
        if isinstance(n, ast.Assign) and isinstance(n.targets[0], ast.Name):
            v = n.value
            if isinstance(v, ast.Subscript) and src_of(v.value) == "self.ind_map":
                set_names.add(n.targets[0].id)
            if isinstance(v, ast.Call) and isinstance(v.func, ast.Name) and v.func.id == "len" and v.args and (
                    (isinstance(v.args[0], ast.Name) and v.args[0].id in set_names) or src_of(v.args[0]).startswith("self.ind_map[")):
                len_names.add(n.targets[0].id)

    def count_of(e):
        """is e an expression for the remaining count?"""
        if isinstance(e, ast.Name) and e.id in len_names:
            return True
        return isinstance(e, ast.Call) and isinstance(e.func, ast.Name) and e.func.id == "len" and e.args and (
            (isinstance(e.args[0], ast.Name) and e.args[0].id in set_names) or src_of(e.args[0]).startswith("self.ind_map["))

    def truth(test, c):
        """value of a test when c holders remain; None if not a test on the count."""
        if isinstance(test, ast.UnaryOp) and isinstance(test.op, ast.Not):
            v = truth(test.operand, c)
            return None if v is None else not v
        if isinstance(test, ast.Name) and test.id in set_names:
            return c > 0
        if isinstance(test, ast.Name) and test.id in len_names:
            return c > 0
        if isinstance(test, ast.Compare) and len(test.ops) == 1:
            l, rr = test.left, test.comparators[0]
            k = None
            if count_of(l) and isinstance(const_value(rr, None), int):
                a, b = c, const_value(rr, None)
            elif count_of(rr) and isinstance(const_value(l, None), int):
                a, b = const_value(l, None), c
            else:
                return None
            return {ast.Eq: a == b, ast.NotEq: a != b, ast.Lt: a < b, ast.LtE: a <= b, ast.Gt: a > b, ast.GtE: a >= b}.get(type(test.ops[0]))
        if isinstance(test, ast.BoolOp):
            vs = [truth(v, c) for v in test.values]
            if None in vs:
                return None
            return all(vs) if isinstance(test.op, ast.And) else any(vs)
        return None

    def executed(stmts, c):
        out = []
        for st in stmts:
            if isinstance(st, ast.If):
                tv = truth(st.test, c)
                if tv is None:
                    out += executed(st.body, c) + executed(st.orelse, c)
                else:
                    out += executed(st.body if tv else st.orelse, c)
            elif isinstance(st, ast.Try):
                out += executed(st.body, c)
            else:
                out.append(st)
        return out

    if not (set_names or len_names):
        raise AnalysisError("_unlink_inds: the remaining-holder count is not visible")
    expected = {
        0: ({("_outer_inds", "discard")}, True, "entry deleted, outer discarded"),
        1: ({("_inner_inds", "discard"), ("_outer_inds", "add")}, False, "inner discarded, outer added (the bond became dangling)"),
        2: (set(), False, "nothing: a label that two or more tensors still hold stays inner"),
        3: (set(), False, "nothing: a label that two or more tensors still hold stays inner"),
    }
    for c, (exp, exp_del, text) in expected.items():
        stmts = executed(loop.body, c)
        eff = _stmts_effects(stmts, var)
        dele = any(isinstance(s_, ast.Delete) and src_of(s_.targets[0]) == f"self.ind_map[{var}]" for s_ in stmts)
        label = {0: "0", 1: "1", 2: ">=2", 3: ">=2"}[c]
        good = (eff == exp or (c == 0 and ("_outer_inds", "discard") in eff and not any(op == "add" for _, op in eff))) and dele == exp_del
        if good:
            r.ok(f"TensorNetwork._unlink_inds[{label}]", sample={"remaining holders": label, "effects": sorted(eff) + (["del ind_map entry"] if dele else [])}, nontrivial=(c != 3))
        else:
            r.bad(Finding("pairing", "TensorNetwork._unlink_inds",
                          f"when {label} holder(s) remain the code performs {sorted(eff)}{' and deletes the entry' if dele else ''}; expected {text}",
                          where=f"{f.module.relpath}:{f.lineno}", operand=label))
    # discard of the tid from the entry precedes the count
    # structural: a `.discard(<tid parameter>)` on the ind_map entry (directly, or through a local bound to it)
    tidp = [p_ for p_ in f.posparams if p_ != "self"][-1] if len(f.posparams) > 1 else "tid"
    entry_locals = {a.targets[0].id for a in ast.walk(f.node) if isinstance(a, ast.Assign) and len(a.targets) == 1 and isinstance(a.targets[0], ast.Name)
                    and any(isinstance(y, ast.Attribute) and y.attr == "ind_map" for y in ast.walk(a.value))}
    discards = [c for c in ast.walk(f.node) if isinstance(c, ast.Call) and isinstance(c.func, ast.Attribute) and c.func.attr == "discard"
                and c.args and isinstance(c.args[0], ast.Name) and c.args[0].id == tidp
                and ((isinstance(c.func.value, ast.Name) and c.func.value.id in entry_locals)
                     or any(isinstance(y, ast.Attribute) and y.attr == "ind_map" for y in ast.walk(c.func.value)))]
    if discards:
        r.ok("TensorNetwork._unlink_inds[entry]")
    else:
        r.bad(Finding("pairing", "TensorNetwork._unlink_inds", "tid is not discarded from the ind_map entry",
                      where=f"{f.module.relpath}:{f.lineno}", operand="entry"))
    # _unlink_tags: discard + delete empty entry
    f = ctx.prog.func(tc, "TensorNetwork._unlink_tags")
    srct = src_of(f.node)
    if "discard(tid)" in srct and "del self.tag_map[" in srct:
        r.ok("TensorNetwork._unlink_tags")
    else:
        r.bad(Finding("pairing", "TensorNetwork._unlink_tags", "tid not discarded or empty tag entry not deleted",
                      where=f"{f.module.relpath}:{f.lineno}", operand="entry"))
    # _reset_inner_outer: occurrences == 1 -> outer, else inner
    f = ctx.prog.func(tc, "TensorNetwork._reset_inner_outer")
    var = next((n.target.id for n in ast.walk(f.node) if isinstance(n, ast.For) and isinstance(n.target, ast.Name)), None)
    iff = next((n for n in ast.walk(f.node) if isinstance(n, ast.If) and isinstance(n.test, ast.Compare) and const_value(n.test.comparators[0], None) == 1), None)
    if var is None or iff is None:
        raise AnalysisError("_reset_inner_outer lost its occurrence test")
    one = _stmts_effects(iff.body, var)
    many = _stmts_effects(iff.orelse, var)
    if one == {("_inner_inds", "discard"), ("_outer_inds", "add")} and many == {("_inner_inds", "add"), ("_outer_inds", "discard")}:
        r.ok("TensorNetwork._reset_inner_outer", sample={"occurrences==1": sorted(one), "else": sorted(many)})
    else:
        r.bad(Finding("pairing", "TensorNetwork._reset_inner_outer", f"occurrences==1 -> {sorted(one)}, else -> {sorted(many)}; expected outer / inner classification in both sets",
                      where=f"{f.module.relpath}:{f.lineno}", operand="reset"))
    f = ctx.prog.func(tc, "TensorNetwork._link_tags")
    srct = src_of(f.node)
    if ".add(tid)" in srct and "= oset((tid,))" in srct:
        r.ok("TensorNetwork._link_tags")
    else:
        r.bad(Finding("pairing", "TensorNetwork._link_tags", "tag entry is not created/extended with the tid",
                      where=f"{f.module.relpath}:{f.lineno}", operand="entry"))


def _check_modify_hooks(ctx, r):
    """_modify_tensor_inds / _modify_tensor_tags unlink exactly old-new and
    link exactly new-old for the same tid."""
    tc = "quimb.tensor.tensor_core"
    for kind, unlink, link in (("inds", "_unlink_inds", "_link_inds"), ("tags", "_unlink_tags", "_link_tags")):
        f = ctx.prog.func(tc, f"TensorNetwork._modify_tensor_{kind}")
        params = f.posparams  # self, old, new, tid
        if len(params) < 4:
            raise AnalysisError(f"_modify_tensor_{kind} signature changed")
        old, new, tid = params[1], params[2], params[3]
        calls = _calls_in(f.node, {unlink, link})
        okk = True
        why = ""
        u = calls.get(unlink, [])
        l_ = calls.get(link, [])
        if len(u) != 1 or len(l_) != 1:
            okk, why = False, f"expected exactly one {unlink} and one {link} call"
        else:
            ua = [src_of(a) for a in u[0].args]
            la = [src_of(a) for a in l_[0].args]
            env = _simple_defs(f.node)
            ua0 = env.get(ua[0], ua[0])
            la0 = env.get(la[0], la[0])
            if ua[1] != tid or la[1] != tid:
                okk, why = False, "tid not forwarded"
            elif ua0.replace(" ", "") not in (f"oset({old})-oset({new})", f"oset_difference({old},{new})", f"{old}-{new}"):
                okk, why = False, f"{unlink} receives `{ua0}`, expected old - new"
            elif la0.replace(" ", "") not in (f"oset({new})-oset({old})", f"oset_difference({new},{old})", f"{new}-{old}"):
                okk, why = False, f"{link} receives `{la0}`, expected new - old"
        if okk:
            r.ok(f"TensorNetwork._modify_tensor_{kind}", sample={"hook": f"_modify_tensor_{kind}", "unlink": "old - new", "link": "new - old"})
        else:
            r.bad(Finding("pairing", f"TensorNetwork._modify_tensor_{kind}", why,
                          where=f"{f.module.relpath}:{f.lineno}", operand=kind))


def _simple_defs(fnode):
    env = {}
    for n in ast.walk(fnode):
        if isinstance(n, ast.Assign) and len(n.targets) == 1:
            t = n.targets[0]
            if isinstance(t, ast.Name):
                env[t.id] = src_of(n.value)
            elif isinstance(t, ast.Tuple) and isinstance(n.value, ast.Tuple) and len(t.elts) == len(n.value.elts):
                for a, b in zip(t.elts, n.value.elts):
                    if isinstance(a, ast.Name):
                        env[a.id] = src_of(b)
    return env


# ------------------------------------------------------------ copy-complete
COPYING_CALLS = ("copy", "valmap", "oset", "dict", "list", "tuple")


def _is_copying(expr):
    """The expression builds a new container rather than aliasing one."""
    if isinstance(expr, (ast.Dict, ast.List, ast.Set, ast.Tuple, ast.DictComp, ast.ListComp, ast.SetComp)):
        return True
    if isinstance(expr, ast.Call):
        fn = expr.func
        name = fn.attr if isinstance(fn, ast.Attribute) else (fn.id if isinstance(fn, ast.Name) else None)
        return name in COPYING_CALLS
    return False


def rule_copy_complete(ctx):
    r = RuleResult(
        "copy-complete",
        "both branches of TensorNetwork.__init__ assign the same attribute set; in the copy branch every "
        "container attribute is built by a copying expression (never a bare alias of the source's map) and "
        "each stored tensor registers the new network as owner; __setstate__ re-owns every tensor",
    )
    f = ctx.prog.func("quimb.tensor.tensor_core", "TensorNetwork.__init__")
    src_param = f.posparams[1]
    copy_branch = None
    for st in f.node.body:
        if isinstance(st, ast.If) and "isinstance" in src_of(st.test) and src_param in src_of(st.test):
            copy_branch = st
            break
    if copy_branch is None:
        raise AnalysisError("TensorNetwork.__init__ lost its copy short-circuit")
    rest = f.node.body[f.node.body.index(copy_branch) + 1:]

    def attrs_assigned(stmts):
        out = {}
        for s in stmts:
            for n in ast.walk(s):
                if isinstance(n, ast.Assign):
                    for t in n.targets:
                        if isinstance(t, ast.Attribute) and isinstance(t.value, ast.Name) and t.value.id == "self":
                            out[t.attr] = n.value
        return out

    a_copy = attrs_assigned(copy_branch.body)
    a_fresh = attrs_assigned(rest)
    if set(a_copy) == set(a_fresh) and len(a_copy) >= 7:
        r.ok("TensorNetwork.__init__[attribute sets]", sample={"copy branch": sorted(a_copy), "fresh branch": sorted(a_fresh)})
    else:
        r.bad(Finding("copy-complete", "TensorNetwork.__init__",
                      f"copy branch assigns {sorted(a_copy)}, fresh branch assigns {sorted(a_fresh)}",
                      where=f"{f.module.relpath}:{f.lineno}", operand="attribute-sets"))
    for attr, val in sorted(a_copy.items()):
        if attr in ("_tid_counter", "exponent"):
            # scalars: must be read from the source
            if src_of(val) == f"{src_param}.{attr}":
                r.ok(f"TensorNetwork.__init__[{attr}]")
            else:
                r.bad(Finding("copy-complete", "TensorNetwork.__init__",
                              f"copy branch sets {attr} = {src_of(val)}, expected {src_param}.{attr}",
                              where=f"{f.module.relpath}:{f.lineno}", operand=attr))
            continue
        if _is_copying(val):
            r.ok(f"TensorNetwork.__init__[{attr}]", sample={"attribute": attr, "built by": src_of(val)[:60]})
        else:
            r.bad(Finding("copy-complete", "TensorNetwork.__init__",
                          f"copy branch aliases the source's `{attr}`: {src_of(val)}",
                          where=f"{f.module.relpath}:{f.lineno}", operand=attr))
    # tag_map / ind_map values must be copied per entry (oset per key)
    for attr in ("tag_map", "ind_map"):
        v = a_copy.get(attr)
        s = src_of(v) if v is not None else ""
        if ".copy()" in s and f"{src_param}.{attr}" in s and (s.startswith("valmap(") or isinstance(v, ast.DictComp)):
            r.ok(f"TensorNetwork.__init__[{attr} entries]")
        else:
            r.bad(Finding("copy-complete", "TensorNetwork.__init__",
                          f"entries of `{attr}` are not copied one by one: {s}",
                          where=f"{f.module.relpath}:{f.lineno}", operand=attr + "-entries"))
    # add_owner in the copy loop
    srcb = "\n".join(src_of(s) for s in copy_branch.body)
    if any(isinstance(c, ast.Call) and isinstance(c.func, ast.Attribute) and c.func.attr == "add_owner" and len(c.args) == 2
           and isinstance(c.args[0], ast.Name) and c.args[0].id == "self" for st_ in copy_branch.body for c in ast.walk(st_)):
        r.ok("TensorNetwork.__init__[add_owner]")
    else:
        r.bad(Finding("copy-complete", "TensorNetwork.__init__", "copied tensors do not register the new network as owner",
                      where=f"{f.module.relpath}:{f.lineno}", operand="add_owner"))
    if "virtual" in srcb and ".copy()" in srcb:
        r.ok("TensorNetwork.__init__[tensor copy unless virtual]")
    else:
        r.bad(Finding("copy-complete", "TensorNetwork.__init__", "tensors are not copied when virtual is false",
                      where=f"{f.module.relpath}:{f.lineno}", operand="tensor-copy"))
    if "_EXTRA_PROPS" in srcb and "setattr" in srcb:
        r.ok("TensorNetwork.__init__[extra props]")
    else:
        r.bad(Finding("copy-complete", "TensorNetwork.__init__", "extra properties are not carried over by the copy branch",
                      where=f"{f.module.relpath}:{f.lineno}", operand="extra-props"))
    # pickling: __setstate__ re-owns
    g = ctx.prog.func("quimb.tensor.tensor_core", "TensorNetwork.__setstate__")
    if any(
        isinstance(n, ast.Call) and isinstance(n.func, ast.Attribute) and n.func.attr == "add_owner"
        and n.args and src_of(n.args[0]) == "self" and isinstance(p_, ast.For)
        for p_ in ast.walk(g.node) if isinstance(p_, ast.For) for n in ast.walk(p_)
    ):
        r.ok("TensorNetwork.__setstate__[add_owner]")
    else:
        r.bad(Finding("copy-complete", "TensorNetwork.__setstate__", "unpickled tensors are not re-owned",
                      where=f"{g.module.relpath}:{g.lineno}", operand="add_owner"))
    gs = ctx.prog.func("quimb.tensor.tensor_core", "TensorNetwork.__getstate__")
    if "_owners" in src_of(gs.node) or "remove_owner" in src_of(gs.node) or "copy" in src_of(gs.node):
        r.ok("TensorNetwork.__getstate__")
    else:
        r.skip("TensorNetwork.__getstate__", "shape not recognised")
    return r


# -------------------------------------------------------------- extra-props
def rule_extra_props(ctx, floor=8):
    r = RuleResult(
        "extra-props",
        "for every class in the TensorNetwork hierarchy that defines __init__, the private attributes it "
        "assigns on self (beyond what TensorNetwork.__init__ owns) are exactly its _EXTRA_PROPS — otherwise "
        "copies, views and selections lose or fabricate state",
    )
    r.need_controls(1)
    root = ctx.eff.tn_root
    base_attrs = TN_MAPS | {"exponent"}
    n = 0
    for c in ctx.prog.all_classes():
        if not c.isa(root) or c is root:
            continue
        init = c.methods.get("__init__")
        ep = c.attrs.get("_EXTRA_PROPS")
        if init is None or init.is_alias:
            continue
        props = const_value(ep, None) if ep is not None else None
        if props is None:
            eff_props = c.find_attr("_EXTRA_PROPS")
            props = const_value(eff_props, None) if eff_props is not None else None
            if props is None:
                r.skip(c.name, "_EXTRA_PROPS not a literal")
                continue
        n += 1
        assigned = set()
        for node in ast.walk(init.node):
            if isinstance(node, (ast.Assign, ast.AnnAssign)):
                targets = node.targets if isinstance(node, ast.Assign) else [node.target]
                for t in targets:
                    if isinstance(t, ast.Attribute) and isinstance(t.value, ast.Name) and t.value.id == init.posparams[0]:
                        assigned.add(t.attr)
        assigned -= base_attrs
        props = set(props)
        # inherited extra props are assigned by super().__init__ or here
        missing = {a for a in assigned if a not in props}
        where = f"{c.module.relpath}:{c.node.lineno}"
        own = set(const_value(ep, ()) or ()) if ep is not None else set()
        inherited = set()
        for b in c.mro[1:]:
            bp = b.attrs.get("_EXTRA_PROPS")
            if bp is not None:
                inherited |= set(const_value(bp, ()) or ())
        never = {p for p in own if p not in assigned and p not in inherited}
        if missing:
            r.bad(Finding("extra-props", c.name,
                          f"__init__ assigns {sorted(missing)} which are not in _EXTRA_PROPS {sorted(props)}: "
                          f"copies/views will silently drop them", where=where, operand=",".join(sorted(missing))))
        elif never and not _assigned_via_super(init, never):
            r.bad(Finding("extra-props", c.name,
                          f"_EXTRA_PROPS lists {sorted(never)} which __init__ never assigns", where=where,
                          operand=",".join(sorted(never))))
        else:
            r.ok(c.name, sample={"class": c.name, "_EXTRA_PROPS": sorted(props), "assigned": sorted(assigned)})
    r.floor(n - r.controls_flagged, floor, "TensorNetwork subclasses with __init__ and _EXTRA_PROPS")
    return r


def _assigned_via_super(init, names):
    s = src_of(init.node)
    return "super().__init__" in s or "setattr" in s


# ----------------------------------------------------- collision-provenance
def _inner_attr(node):
    """'self' / '<name>' if node is `<x>._inner_inds`."""
    if isinstance(node, ast.Attribute) and node.attr == "_inner_inds" and isinstance(node.value, ast.Name):
        return node.value.id
    return None


def _is_inner_intersection(expr, a, b):
    """Is ``expr`` provably a subset of  a._inner_inds ∩ b._inner_inds ?"""
    want = {a, b}
    if isinstance(expr, ast.BinOp) and isinstance(expr.op, ast.BitAnd):
        return {_inner_attr(expr.left), _inner_attr(expr.right)} == want
    if isinstance(expr, ast.Call) and isinstance(expr.func, ast.Attribute) and expr.func.attr == "intersection" and len(expr.args) == 1:
        return {_inner_attr(expr.func.value), _inner_attr(expr.args[0])} == want
    if isinstance(expr, ast.Call) and dotted(expr.func) == "oset_intersection" and expr.args:
        arg = expr.args[0]
        if isinstance(arg, (ast.Tuple, ast.List)) and len(arg.elts) == 2:
            return {_inner_attr(arg.elts[0]), _inner_attr(arg.elts[1])} == want
    # oset(ix for ix in X._inner_inds if ix in Y._inner_inds)
    comp = None
    if isinstance(expr, ast.Call) and expr.args and isinstance(expr.args[0], (ast.GeneratorExp, ast.ListComp, ast.SetComp)):
        comp = expr.args[0]
    elif isinstance(expr, (ast.SetComp, ast.ListComp)):
        comp = expr
    if comp is not None and len(comp.generators) == 1:
        g = comp.generators[0]
        src = _inner_attr(g.iter)
        filt = None
        for c in g.ifs:
            if isinstance(c, ast.Compare) and len(c.ops) == 1 and isinstance(c.ops[0], ast.In) and src_of(c.left) == src_of(g.target) == src_of(comp.elt):
                filt = _inner_attr(c.comparators[0])
        return src is not None and filt is not None and {src, filt} == want
    return False


def rule_collision_provenance(ctx):
    r = RuleResult(
        "collision-provenance",
        "when networks are combined the only renaming applied to incoming tensors goes through a map whose keys "
        "are provably a subset of (receiver inner labels) ∩ (incoming inner labels) and whose values are fresh "
        "(rand_uuid()): outer labels are never renamed and distinct bonds never merged by the combining code",
    )
    f = ctx.prog.func("quimb.tensor.tensor_core", "TensorNetwork.add_tensor_network")
    where = f"{f.module.relpath}:{f.lineno}"
    me, other = f.posparams[0], f.posparams[1]
    defs = {}
    for n in ast.walk(f.node):
        if isinstance(n, ast.Assign) and len(n.targets) == 1 and isinstance(n.targets[0], ast.Name):
            defs.setdefault(n.targets[0].id, []).append(n.value)
    renames = [c for c in ast.walk(f.node) if isinstance(c, ast.Call) and isinstance(c.func, ast.Attribute) and c.func.attr in ("reindex", "reindex_")]
    renames += [c for c in ast.walk(f.node) if isinstance(c, ast.Call) and isinstance(c.func, ast.Attribute) and c.func.attr == "modify" and any(k.arg == "inds" for k in c.keywords)]
    if not renames:
        raise AnalysisError("add_tensor_network no longer renames clashing labels")
    for c in renames:
        m = c.args[0] if c.args else None
        if not isinstance(m, ast.Name) or m.id not in defs:
            r.bad(Finding("collision-provenance", "TensorNetwork.add_tensor_network", f"rename {src_of(c)[:50]} does not use a locally built map", where=where, operand="map"))
            continue
        ok_map = False
        for d in defs[m.id]:
            if const_value(d, 0) is None:
                continue
            if isinstance(d, ast.DictComp) and len(d.generators) == 1 and src_of(d.key) == src_of(d.generators[0].target) and src_of(d.value).replace(" ", "") == "rand_uuid()":
                keys = d.generators[0].iter
                cands = [keys] + (defs.get(keys.id, []) if isinstance(keys, ast.Name) else [])
                cands = [x for x in cands if not (isinstance(x, ast.Constant))]
                good = [x for x in cands if not isinstance(x, ast.Name)]
                if good and all(_is_inner_intersection(x, me, other) for x in good):
                    ok_map = True
                    r.ok("TensorNetwork.add_tensor_network[rename map]", sample={"keys": src_of(good[0]), "values": "rand_uuid()"})
                else:
                    r.bad(Finding(
                        "collision-provenance", "TensorNetwork.add_tensor_network",
                        f"keys of the rename map come from `{src_of(good[0]) if good else src_of(keys)}`, which is not provably a subset of "
                        f"{me}._inner_inds ∩ {other}._inner_inds: an outer label of either network could be renamed",
                        where=where, operand="keys"))
                    ok_map = True
            else:
                r.bad(Finding("collision-provenance", "TensorNetwork.add_tensor_network", f"rename map `{src_of(d)[:60]}` is not {{ix: rand_uuid() for ix in <clash>}}", where=where, operand="map-shape"))
                ok_map = True
        if not ok_map:
            r.bad(Finding("collision-provenance", "TensorNetwork.add_tensor_network", "rename map has no recognisable definition", where=where, operand="map"))
    # no other renaming reachable from the combining entry points
    for name in ("add", "add_tensor", "combine", "__and__", "__or__", "__iand__", "__ior__"):
        g = ctx.prog.cls("quimb.tensor.tensor_core", "TensorNetwork").methods.get(name)
        if g is None or g.is_alias:
            continue
        bad = [c for c in ast.walk(g.node) if isinstance(c, ast.Call) and isinstance(c.func, ast.Attribute) and c.func.attr in ("reindex", "reindex_", "retag", "retag_", "mangle_inner_")]
        if bad:
            r.bad(Finding("collision-provenance", f"TensorNetwork.{name}", f"renames labels/tags while combining: {src_of(bad[0])[:50]}", where=f"{g.module.relpath}:{g.lineno}", operand=name))
        else:
            r.ok(f"TensorNetwork.{name}[no rename]")
    return r


def rule_tid_rebind(ctx):
    r = RuleResult(
        "tid-rebind",
        "each Tensor records, per owning network, the tid under which that network holds it (add_owner / remove_owner); the "
        "network is notified of later renames under that tid. A method that re-keys `tensor_map` — rebinding the attribute to a newly "
        "built mapping, or moving an entry to another key — therefore has to re-register the owners (add_owner / remove_owner, or "
        "by going through pop_tensor / add_tensor); only the constructor, which registers every tensor it adds, may start from an empty map",
    )
    CORE = "quimb.tensor.tensor_core"
    cls = ctx.prog.cls(CORE, "TensorNetwork")
    n = 0
    for name, f in sorted(cls.methods.items()):
        if f.is_alias or isinstance(f.node, ast.Lambda) or f.cls is not cls:
            continue
        walk = [x for x in ast.walk(f.node)]
        rekeys = []
        for a in walk:
            if isinstance(a, ast.Assign):
                for t in a.targets:
                    if isinstance(t, ast.Attribute) and t.attr == "tensor_map" and isinstance(t.value, ast.Name):
                        v = a.value
                        # a plain copy of the same mapping keeps the keys
                        plain = (isinstance(v, ast.Call) and isinstance(v.func, ast.Attribute) and v.func.attr == "copy" and isinstance(v.func.value, ast.Attribute) and v.func.value.attr == "tensor_map") \
                            or (isinstance(v, ast.Call) and dotted(v.func) == "dict" and len(v.args) == 1 and isinstance(v.args[0], ast.Attribute) and v.args[0].attr == "tensor_map")
                        if not plain:
                            rekeys.append((a, f"rebinds {src_of(t)} to `{src_of(v)[:50]}`"))
                    # tensor_map[new] = tensor_map.pop(old)
                    if isinstance(t, ast.Subscript) and isinstance(t.value, ast.Attribute) and t.value.attr == "tensor_map" \
                            and isinstance(a.value, ast.Call) and isinstance(a.value.func, ast.Attribute) and a.value.func.attr == "pop" \
                            and isinstance(a.value.func.value, ast.Attribute) and a.value.func.value.attr == "tensor_map":
                        rekeys.append((a, f"moves an entry: `{src_of(a)[:60]}`"))
        if not rekeys:
            continue
        n += 1
        registers = any(isinstance(c, ast.Call) and isinstance(c.func, ast.Attribute) and c.func.attr in ("add_owner", "remove_owner", "add_tensor", "pop_tensor", "_add_tensor", "add") for c in walk)
        construct = f"TensorNetwork.{name}"
        if registers:
            r.ok(construct, sample={"method": name, "re-keys": rekeys[0][1], "owners": "re-registered in the same method"})
        else:
            a, what = rekeys[0]
            r.bad(Finding("tid-rebind", construct,
                          f"{what} without re-registering the tensors' owners: every tensor keeps notifying the network under its old tid, so the next "
                          "rename (reindex / retag / modify) unlinks and links the wrong entries of ind_map / tag_map",
                          where=f"{f.module.relpath}:{a.lineno}", operand="tensor_map"))
    r.floor(n, 1, "methods of TensorNetwork that re-key tensor_map (the constructor)")
    return r
