"""C13: caches kept in a caller-supplied ``info`` dict must be keyed on everything the cached value depends on."""

import ast

from ..framework import RuleResult, Finding
from ..model import src_of
from .. import AnalysisError

MODULES = ("quimb.tensor.tnag.core",)
# parameters that cannot change the *value* of the result
NON_SEMANTIC = {
    "optimize": "contraction path only",
    "contract_opts": "contraction options only",
    "progbar": "display only",
    "tn_cache_maxsize": "cache size only",
    "info": "the cache itself",
}
# parameters the documented contract of `info` fixes ("only be reused when both the tensor network and gauges remain the same")
FIXED_BY_CONTRACT = {"self": "info is documented as valid for one tensor network", "gauges": "info is documented as valid for one set of gauges"}


def _own_walk(node):
    todo = [node]
    while todo:
        n = todo.pop()
        yield n
        for c in ast.iter_child_nodes(n):
            if not isinstance(c, (ast.FunctionDef, ast.AsyncFunctionDef, ast.Lambda)):
                todo.append(c)


def _info_store(t):
    """info["name"][K] target -> (name, K) else None."""
    if isinstance(t, ast.Subscript) and isinstance(t.value, ast.Subscript) and isinstance(t.value.value, ast.Name) and t.value.value.id == "info" \
            and isinstance(t.value.slice, ast.Constant) and isinstance(t.value.slice.value, str):
        return t.value.slice.value, t.slice
    return None


def rule_info_memo_key(ctx):
    r = RuleResult(
        "memo-key-complete[info]",
        "every value stored as info[<cache>][key] in the cluster / loop-expansion routines depends (through locals and call "
        "arguments) only on parameters that appear in the key, that cannot change the value (optimize, contract_opts ...), "
        "or that the documented contract of `info` fixes (the network, the gauges): otherwise a second call that reuses "
        "`info` with a different argument is served the first call's value",
    )
    n = 0
    for modname in MODULES:
        mod = ctx.prog.modules.get(modname)
        if mod is None:
            raise AnalysisError(f"module {modname} not found")
        for f in mod.all_functions:
            if f.is_alias or isinstance(f.node, ast.Lambda) or "info" not in f.params:
                continue
            defs = {}
            for x in _own_walk(f.node):
                if isinstance(x, ast.Assign):
                    for t in x.targets:
                        for nm in ([t] if isinstance(t, ast.Name) else [e for e in ast.walk(t) if isinstance(e, ast.Name)] if isinstance(t, (ast.Tuple, ast.List)) else []):
                            defs.setdefault(nm.id, []).append(x.value)
                elif isinstance(x, (ast.For, ast.comprehension)):
                    for nm in ast.walk(x.target):
                        if isinstance(nm, ast.Name):
                            defs.setdefault(nm.id, []).append(x.iter)
            params = set(f.params)
            kwarg = f.node.args.kwarg.arg if f.node.args.kwarg else None

            def closure(e, stop=()):
                seen, out, todo = set(), set(), [e]
                while todo:
                    cur = todo.pop()
                    for y in ast.walk(cur):
                        if isinstance(y, ast.Name) and y.id not in seen and y.id not in stop:
                            seen.add(y.id)
                            if y.id in params:
                                out.add(y.id)
                            for d in defs.get(y.id, []):
                                todo.append(d)
                return out, seen

            for x in _own_walk(f.node):
                if not isinstance(x, ast.Assign):
                    continue
                for t in x.targets:
                    st = _info_store(t)
                    if st is None:
                        continue
                    cache, key = st
                    n += 1
                    knames = {y.id for y in ast.walk(key) if isinstance(y, ast.Name)}
                    deps, _ = closure(x.value, stop=knames)
                    missing = sorted(
                        d for d in deps
                        if d not in knames and d not in NON_SEMANTIC and d not in FIXED_BY_CONTRACT and d != kwarg
                    )
                    construct = f.qualname
                    if missing:
                        r.bad(Finding(
                            "memo-key-complete[info]", construct,
                            f"info[{cache!r}][{src_of(key)}] caches a value computed from parameter(s) {missing} that the key does not record: "
                            f"reusing `info` in a second call with a different {missing[0]} returns the first call's value",
                            where=f"{f.module.relpath}:{x.lineno}", operand=f"{cache}:{','.join(missing)}"))
                    else:
                        r.ok(f"{construct}[{cache}]", sample={"function": f.qualname, "cache": cache, "key": src_of(key), "value depends on": sorted(deps | (knames & params))})
    r.floor(n, 4, "info[<cache>][key] stores")
    return r


def rule_sibling_guard_agreement(ctx):
    r = RuleResult(
        "sibling-guard-agreement",
        "where a route dispatches on the requested output form (`get == 'matrix' / 'array' / 'tensor'`) and each arm applies the "
        "same correction (dividing / multiplying by the norm factor), every arm guards that correction with the same test on "
        "the multi-valued option `normalized` (True / False / 'return' ...): an arm that tests mere truthiness divides also when "
        "the caller asked for the factor to be returned separately, and the factor is then applied twice",
    )
    n = 0
    for modname in MODULES:
        mod = ctx.prog.modules.get(modname)
        for f in mod.all_functions:
            if f.is_alias or isinstance(f.node, ast.Lambda) or "get" not in f.params or "normalized" not in f.params:
                continue
            for st in _own_walk(f.node):
                if not (isinstance(st, ast.If) and isinstance(st.test, ast.Compare) and isinstance(st.test.left, ast.Name) and st.test.left.id == "get"):
                    continue
                # walk the elif chain once, from its head
                arms = []
                cur = st
                while isinstance(cur, ast.If) and isinstance(cur.test, ast.Compare) and isinstance(cur.test.left, ast.Name) and cur.test.left.id == "get":
                    arms.append((src_of(cur.test.comparators[0]), cur.body))
                    cur = cur.orelse[0] if len(cur.orelse) == 1 and isinstance(cur.orelse[0], ast.If) else None
                if len(arms) < 2:
                    continue
                # is st the head (not itself an elif of an earlier If)?
                guards = {}
                for label, body in arms:
                    gs = []
                    for x in body:
                        for y in ast.walk(x):
                            if isinstance(y, ast.If) and any(isinstance(z, ast.Name) and z.id == "normalized" for z in ast.walk(y.test)) \
                                    and any(isinstance(z, ast.BinOp) and isinstance(z.op, (ast.Div, ast.Mult)) or (isinstance(z, ast.Call) and "multiply" in src_of(z.func)) for b in y.body for z in ast.walk(b)):
                                gs.append(src_of(y.test))
                    if gs:
                        guards[label] = sorted(set(gs))
                if len(guards) < 2:
                    continue
                n += 1
                distinct = {tuple(v) for v in guards.values()}
                construct = f.qualname
                if len(distinct) == 1:
                    r.ok(construct, sample={"function": f.qualname, "arms": sorted(guards), "common guard": list(distinct)[0]})
                else:
                    r.bad(Finding("sibling-guard-agreement", construct,
                                  f"the arms of the dispatch on `get` guard the norm correction differently: {guards} — under a string value of `normalized` "
                                  "some arms apply the correction and others do not", where=f"{f.module.relpath}:{st.lineno}", operand="get-arms"))
                break
    r.floor(n, 1, "output-form dispatches with a per-arm norm correction")
    return r


def rule_operator_orientation(ctx):
    r = RuleResult(
        "operator-orientation",
        "where an expectation is contracted by hand — a ket tensor, its conjugate reindexed on the physical index "
        "(`Tb = Tk.H.reindex({ket_ix: bra_ix})`) and the operator wrapped as Tensor(O, inds=(p, q)) — the operator's row index "
        "must be the bra index and its column index the ket index (<psi|O|psi> = sum conj(psi_b) O[b, k] psi_k): with "
        "(p, q) = (ket, bra) the contraction evaluates O transposed, which flips the sign of antisymmetric operators (S^y)",
    )
    n = 0
    for modname in ("quimb.tensor.tn1d.core", "quimb.tensor.tnag.core", "quimb.tensor.tn2d.core", "quimb.tensor.tn3d.core"):
        mod = ctx.prog.modules.get(modname)
        for f in mod.all_functions:
            if f.is_alias or isinstance(f.node, ast.Lambda):
                continue
            pair = None
            for a in _own_walk(f.node):
                if isinstance(a, ast.Call) and isinstance(a.func, ast.Attribute) and a.func.attr in ("reindex", "reindex_") and a.args and isinstance(a.args[0], ast.Dict) \
                        and len(a.args[0].keys) == 1 and (".H" in src_of(a.func.value) or "conj()" in src_of(a.func.value)):
                    pair = (src_of(a.args[0].keys[0]), src_of(a.args[0].values[0]))
            if pair is None:
                continue
            ket, bra = pair
            # resolve simple tuple-assigned names:  ind1, ind2 = self.site_ind(i), "__tmp__"
            for c in _own_walk(f.node):
                if isinstance(c, ast.Call) and getattr(c.func, "id", None) == "Tensor":
                    inds = next((k.value for k in c.keywords if k.arg == "inds"), c.args[1] if len(c.args) > 1 else None)
                    if isinstance(inds, (ast.Tuple, ast.List)) and len(inds.elts) == 2 and {src_of(e) for e in inds.elts} == {ket, bra}:
                        n += 1
                        got = (src_of(inds.elts[0]), src_of(inds.elts[1]))
                        if got == (bra, ket):
                            r.ok(f.qualname, sample={"function": f.qualname, "operator inds": got, "bra index": bra, "ket index": ket})
                        else:
                            r.bad(Finding("operator-orientation", f.qualname,
                                          f"`{src_of(c)[:50]}`: the operator's row index is the ket index `{ket}` and its column index the bra index `{bra}`: the contraction "
                                          "evaluates <psi|O^T|psi>", where=f"{f.module.relpath}:{c.lineno}", operand="transposed"))
    r.floor(n, 1, "hand-contracted expectation values with an explicit operator tensor")
    return r


def rule_density_orientation(ctx):
    r = RuleResult(
        "density-orientation",
        "MatrixProductState.partial_trace_to_mpo builds rho = |psi><psi| from the state and a second copy whose kept physical "
        "indices are renamed; the copy that carries the indices finally declared *lower* (column) must be the conjugated one "
        "and the one carrying the *upper* (row) indices the plain state — otherwise the MPO is rho transposed (= conj(rho)), "
        "invisible for real states",
    )
    f = ctx.prog.func("quimb.tensor.tn1d.core", "MatrixProductState.partial_trace_to_mpo")
    if f is None:
        raise AnalysisError("partial_trace_to_mpo not found")
    where = f"{f.module.relpath}:{f.lineno}"
    view = [c for c in ast.walk(f.node) if isinstance(c, ast.Call) and isinstance(c.func, ast.Attribute) and c.func.attr in ("view_as_", "view_as")]
    if not view:
        raise AnalysisError("partial_trace_to_mpo: final view_as_ not found")
    kws = {k.arg: src_of(k.value) for k in view[-1].keywords if k.arg}
    lower_id = kws.get("lower_ind_id")
    # the copy that is reindexed with that id
    renamed = None
    for c in ast.walk(f.node):
        if isinstance(c, ast.Call) and isinstance(c.func, ast.Attribute) and c.func.attr in ("reindex_sites_", "reindex_sites") and c.args and src_of(c.args[0]) == lower_id and isinstance(c.func.value, ast.Name):
            renamed = c.func.value.id
    if renamed is None or lower_id is None:
        raise AnalysisError("partial_trace_to_mpo: the copy carrying the lower indices was not identified")
    defs = [a.value for a in ast.walk(f.node) if isinstance(a, ast.Assign) and any(isinstance(t, ast.Name) and t.id == renamed for t in a.targets)]
    conj_renamed = any(isinstance(x, ast.Attribute) and x.attr == "H" or (isinstance(x, ast.Call) and getattr(x.func, "attr", None) in ("conj", "conj_")) for d in defs for x in ast.walk(d))
    # the other operand of the combination
    comb = None
    for a in ast.walk(f.node):
        if isinstance(a, ast.BinOp) and isinstance(a.op, (ast.BitAnd, ast.BitOr)) and any(isinstance(x, ast.Name) and x.id == renamed for x in (a.left, a.right)):
            comb = a.right if isinstance(a.left, ast.Name) and a.left.id == renamed else a.left
    conj_other = comb is not None and any(isinstance(x, ast.Attribute) and x.attr == "H" or (isinstance(x, ast.Call) and getattr(x.func, "attr", None) == "conj") for x in ast.walk(comb))
    if conj_renamed and not conj_other:
        r.ok("MatrixProductState.partial_trace_to_mpo", sample={"lower (column) indices on": f"{renamed} (conjugated)", "upper (row) indices on": src_of(comb) if comb is not None else "?"})
    else:
        r.bad(Finding("density-orientation", "MatrixProductState.partial_trace_to_mpo",
                      f"the copy `{renamed}` that carries the indices declared lower ({lower_id}) is {'conjugated' if conj_renamed else 'NOT conjugated'} and the other operand "
                      f"`{src_of(comb) if comb is not None else '?'}` is {'conjugated' if conj_other else 'not conjugated'}: the MPO is the transpose of the reduced density matrix",
                      where=where, operand="transposed"))
    return r


def rule_unnormalised_exponent(ctx):
    r = RuleResult(
        "unnormalised-exponent",
        "a route of a state class that computes a local expectation / reduced density matrix from a *piece* of the state "
        "(self[i], self[i:j], select*(), a local cluster, boundary / plaquette / cell environments) loses the state's stored "
        "exponent, which a piece does not carry; when the unnormalised value can be returned (`normalized` parameter, or no "
        "normalisation at all) the route must read self.exponent into a value (scaling by 10**(2*exponent)) — and the cluster "
        "constructor must hand the exponent to the cluster it returns",
    )
    SELECT = {"select", "select_any", "select_all", "_select_local_tids", "select_local"}
    ENVS = {"_maybe_compute_cell_env", "compute_plaquette_environments", "compute_environments", "compute_left_environments", "compute_right_environments"}
    EVAL = {"contract", "to_dense", "singular_values"}

    # state classes, and the flat / structured bases they inherit their routes from
    state_bases = set()
    for modname in ("quimb.tensor.tn1d.core", "quimb.tensor.tnag.core", "quimb.tensor.tn2d.core", "quimb.tensor.tn3d.core"):
        for c in ctx.prog.modules[modname].classes.values():
            if any(k.name.endswith("Vector") for k in c.mro):
                state_bases.update(k.name for k in c.mro)

    def is_state_class(c):
        return c.name in state_bases

    n = 0
    for modname in ("quimb.tensor.tn1d.core", "quimb.tensor.tnag.core", "quimb.tensor.tn2d.core", "quimb.tensor.tn3d.core"):
        mod = ctx.prog.modules.get(modname)
        for f in mod.all_functions:
            if f.is_alias or isinstance(f.node, ast.Lambda) or f.cls is None or f.parent is not None:
                continue
            if not is_state_class(f.cls):
                continue
            is_cluster_ctor = f.name == "get_cluster"
            has_norm = "normalized" in f.params
            walk = list(_own_walk(f.node))
            pieces = [x for x in walk if isinstance(x, ast.Subscript) and isinstance(x.value, ast.Name) and x.value.id == "self" and isinstance(x.ctx, ast.Load)]
            pieces += [x for x in walk if isinstance(x, ast.Call) and isinstance(x.func, ast.Attribute) and x.func.attr in SELECT
                       and not any(k.arg == "with_exponent" and isinstance(k.value, ast.Constant) and k.value.value is True for k in x.keywords)]
            pieces += [x for x in walk if isinstance(x, ast.Call) and isinstance(x.func, ast.Attribute) and x.func.attr in ENVS]
            if not pieces:
                continue
            evals = [x for x in walk if isinstance(x, ast.Call) and isinstance(x.func, ast.Attribute) and x.func.attr in EVAL]
            if has_norm or is_cluster_ctor:
                relevant = bool(evals) or is_cluster_ctor
            else:
                # no normalisation at all: the route is relevant when what it returns is computed by evaluating a piece
                # (def-use: locals bound to a piece, or derived from such a local, used as receiver / argument of the evaluation)
                derived = set()
                piece_ids = {id(p) for p in pieces}
                changed = True
                while changed:
                    changed = False
                    for a in walk:
                        if isinstance(a, ast.Assign) and len(a.targets) == 1 and isinstance(a.targets[0], ast.Name) and a.targets[0].id not in derived:
                            if any(id(y) in piece_ids or (isinstance(y, ast.Name) and y.id in derived) for y in ast.walk(a.value)):
                                derived.add(a.targets[0].id)
                                changed = True
                ev_piece = [e for e in evals if (isinstance(e.func.value, ast.Name) and e.func.value.id in derived)
                            or any(isinstance(y, ast.Name) and y.id in derived for a_ in e.args for y in ast.walk(a_))]
                rets = [x.value for x in walk if isinstance(x, ast.Return) and x.value is not None]
                ret_names = {y.id for v in rets for y in ast.walk(v) if isinstance(y, ast.Name)}
                ev_ids = {id(e) for e in ev_piece}
                val_names = {a.targets[0].id for a in walk if isinstance(a, ast.Assign) and len(a.targets) == 1 and isinstance(a.targets[0], ast.Name)
                             and any(id(y) in ev_ids for y in ast.walk(a.value))}
                returns_eval = any(id(y) in ev_ids for v in rets for y in ast.walk(v)) or bool(val_names & ret_names)
                # a scalar / array result only: routes handing back tensors or networks keep their own exponent bookkeeping
                relevant = bool(ev_piece) and returns_eval and not f.name.startswith("_") and _returns_plain_value(f, ev_ids, val_names)
            if not relevant:
                continue
            n += 1
            # the read has to reach a value (an assignment / argument), a read inside a branch test alone scales nothing
            in_tests = {id(y) for x in walk if isinstance(x, (ast.If, ast.IfExp, ast.While)) for y in ast.walk(x.test)}
            reads = any(isinstance(x, ast.Attribute) and x.attr == "exponent" and isinstance(x.value, ast.Name) and x.value.id == "self" and id(x) not in in_tests for x in walk)
            construct = f.qualname
            first = pieces[0]
            what = "a slice / site tensor of the state" if isinstance(first, ast.Subscript) else f"`{src_of(first)[:40]}`"
            # every return that hands back something computed from the evaluation comes after a rescale (a return of the
            # normalised value -- under a test on `normalized` alone -- needs none)
            early = None
            if reads and evals and not is_cluster_ctor:
                read_lines = [x.lineno for x in walk if isinstance(x, ast.Attribute) and x.attr == "exponent" and isinstance(x.value, ast.Name) and x.value.id == "self" and id(x) not in in_tests]
                ev_ids_all = {id(e) for e in evals}
                dv = set()
                changed = True
                while changed:
                    changed = False
                    for a in walk:
                        if isinstance(a, ast.Assign):
                            if any(id(y) in ev_ids_all or (isinstance(y, ast.Name) and y.id in dv) for y in ast.walk(a.value)):
                                for t in a.targets:
                                    base = t
                                    while isinstance(base, (ast.Subscript, ast.Attribute)):
                                        base = base.value
                                    names = [base] if isinstance(base, ast.Name) else [e for e in ast.walk(t) if isinstance(e, ast.Name) and isinstance(e.ctx, ast.Store)]
                                    for nm in names:
                                        if nm.id not in dv and nm.id != "self":
                                            dv.add(nm.id)
                                            changed = True
                norm_only = set()
                for st in walk:
                    if isinstance(st, ast.If) and any(isinstance(y, ast.Name) and y.id == "normalized" for y in ast.walk(st.test)) \
                            and not any(isinstance(y, ast.UnaryOp) and isinstance(y.op, ast.Not) for y in ast.walk(st.test)) \
                            and not any(isinstance(y, ast.Constant) and y.value in (False, None) for y in ast.walk(st.test)):
                        for x in st.body:
                            for y in ast.walk(x):
                                if isinstance(y, ast.Return):
                                    norm_only.add(id(y))
                for ret in walk:
                    if isinstance(ret, ast.Return) and ret.value is not None and id(ret) not in norm_only \
                            and any((isinstance(y, ast.Name) and y.id in dv) or id(y) in ev_ids_all for y in ast.walk(ret.value)) \
                            and not any(ln <= ret.lineno for ln in read_lines):
                        early = ret
                        break
            if early is not None:
                r.bad(Finding("unnormalised-exponent", construct,
                              f"`{src_of(early)[:50]}` (line {early.lineno}) hands back values computed from {what} before self.exponent is applied (the rescale only "
                              "happens further down): the unnormalised values returned on this exit are off by 10**(2*exponent)",
                              where=f"{f.module.relpath}:{early.lineno}", operand="exponent:early-return"))
            elif reads:
                r.ok(construct, sample={"route": f.qualname, "built from": what, "exponent": "read"})
            else:
                r.bad(Finding("unnormalised-exponent", construct,
                              f"computes its value from {what}, which does not carry self.exponent, and never reads self.exponent into a value: the unnormalised "
                              "result is off by 10**(2*exponent) for any state with a stored exponent (e.g. after equalize_norms_(1.0))",
                              where=f"{f.module.relpath}:{f.lineno}", operand="exponent"))
    r.floor(n, 6, "expectation routes built from a piece of the state")
    return r


def _returns_plain_value(f, ev_ids, val_names):
    """True when every return of f hands back the evaluated value itself (possibly rescaled), not a container / network."""
    rets = [x.value for x in _own_walk(f.node) if isinstance(x, ast.Return) and x.value is not None]
    if not rets:
        return False
    for v in rets:
        if id(v) in ev_ids or (isinstance(v, ast.Name) and v.id in val_names):
            continue
        return False
    return True
