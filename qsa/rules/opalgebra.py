"""C19: structural rules on the operator-term rewrites (simplify / Jordan-Wigner / sector parsing)."""

import ast

from ..framework import RuleResult, Finding
from ..model import src_of, dotted
from .. import AnalysisError

BUILDER = "quimb.operator.builder"
HS = "quimb.operator.hilbertspace"


def _own_walk(node):
    todo = [node]
    while todo:
        n = todo.pop()
        yield n
        for c in ast.iter_child_nodes(n):
            if not isinstance(c, (ast.FunctionDef, ast.AsyncFunctionDef, ast.Lambda)):
                todo.append(c)


def _strip(e):
    """drop .round(..) / .all() / abs-free wrappers: method calls that keep proportionality."""
    while True:
        if isinstance(e, ast.Call) and isinstance(e.func, ast.Attribute) and e.func.attr in ("round", "all", "any", "conj", "copy"):
            e = e.func.value
        else:
            return e


def _monomial(e):
    """expression -> {name: exponent} for products / quotients of names; None if outside that fragment."""
    if isinstance(e, ast.Name):
        return {e.id: 1}
    if isinstance(e, ast.Constant) and e.value in (1, 1.0):
        return {}
    if isinstance(e, ast.BinOp) and isinstance(e.op, (ast.Mult, ast.Div)):
        l, r = _monomial(e.left), _monomial(e.right)
        if l is None or r is None:
            return None
        out = dict(l)
        sgn = 1 if isinstance(e.op, ast.Mult) else -1
        for k, v in r.items():
            out[k] = out.get(k, 0) + sgn * v
        return {k: v for k, v in out.items() if v}
    return None


def rule_scale_substitution(ctx):
    r = RuleResult(
        "scale-substitution",
        "simplify_single_site_ops replaces a product matrix A by a named operator B after matching them up to scale "
        "(A/a == B/b): since A = (a/b)·B, the coefficient must be multiplied by exactly a/b (dimensional analysis of the "
        "update expression as a monomial in the two scales)",
    )
    f = ctx.prog.func(BUILDER, "simplify_single_site_ops")
    if f is None:
        raise AnalysisError("simplify_single_site_ops not found")
    where = f"{f.module.relpath}:{f.lineno}"
    match = None
    for c in _own_walk(f.node):
        if isinstance(c, ast.Compare) and len(c.ops) == 1 and isinstance(c.ops[0], ast.Eq):
            l, rr = _strip(c.left), _strip(c.comparators[0])
            if all(isinstance(x, ast.BinOp) and isinstance(x.op, ast.Div) and isinstance(x.left, ast.Name) and isinstance(x.right, ast.Name) for x in (l, rr)):
                match = ((l.left.id, l.right.id), (rr.left.id, rr.right.id), c)
    if match is None:
        raise AnalysisError("simplify_single_site_ops: the up-to-scale comparison (A / a == B / b) was not found")
    (A, a), (B, b), cmp_node = match
    # which of A / B is the operator named by the returned label?
    rets = [n for n in _own_walk(f.node) if isinstance(n, ast.Return) and isinstance(n.value, ast.Tuple) and len(n.value.elts) == 2 and isinstance(n.value.elts[1], ast.Name)]
    if not rets:
        raise AnalysisError("simplify_single_site_ops: return (coeff, op) not found")
    label = rets[-1].value.elts[1].id
    coeffname = rets[-1].value.elts[0].id if isinstance(rets[-1].value.elts[0], ast.Name) else None
    defs = {}
    for n in _own_walk(f.node):
        if isinstance(n, ast.Assign) and len(n.targets) == 1 and isinstance(n.targets[0], ast.Name):
            defs.setdefault(n.targets[0].id, []).append(n.value)
    def mentions(name, what):
        return any(isinstance(x, ast.Name) and x.id == what for v in defs.get(name, []) for x in ast.walk(v))
    if mentions(B, label) and not mentions(A, label):
        new, new_s, old, old_s = B, b, A, a
    elif mentions(A, label) and not mentions(B, label):
        new, new_s, old, old_s = A, a, B, b
    else:
        raise AnalysisError(f"simplify_single_site_ops: cannot tell which of {A}/{B} the returned label `{label}` names")
    upd = None
    for n in _own_walk(f.node):
        if isinstance(n, ast.AugAssign) and isinstance(n.target, ast.Name) and n.target.id == coeffname and isinstance(n.op, ast.Mult) and n.lineno > cmp_node.lineno:
            upd = (n, _monomial(n.value))
        elif isinstance(n, ast.AugAssign) and isinstance(n.target, ast.Name) and n.target.id == coeffname and isinstance(n.op, ast.Div) and n.lineno > cmp_node.lineno:
            m = _monomial(n.value)
            upd = (n, None if m is None else {k: -v for k, v in m.items()})
        elif isinstance(n, ast.Assign) and len(n.targets) == 1 and isinstance(n.targets[0], ast.Name) and n.targets[0].id == coeffname and n.lineno > cmp_node.lineno:
            m = _monomial(n.value)
            if m is not None and m.get(coeffname) == 1:
                m = {k: v for k, v in m.items() if k != coeffname}
                upd = (n, m)
    if upd is None:
        r.bad(Finding("scale-substitution", "simplify_single_site_ops", f"`{old}` is replaced by the operator named `{label}` but the coefficient is never rescaled", where=where, operand="no-update"))
        return r
    node, mono = upd
    where = f"{f.module.relpath}:{node.lineno}"
    if mono is None:
        raise AnalysisError(f"simplify_single_site_ops: coefficient update `{src_of(node)}` is not a monomial in the scales")
    expected = {old_s: 1, new_s: -1}
    if mono == expected:
        r.ok("simplify_single_site_ops", sample={"match": src_of(cmp_node)[:90], "replaced": old, "by": f"{new} (label {label})", "update": src_of(node), "expected factor": f"{old_s} / {new_s}"})
    else:
        r.bad(Finding(
            "scale-substitution", "simplify_single_site_ops",
            f"the product `{old}` = ({old_s}/{new_s})·`{new}` is replaced by the label of `{new}`, so the coefficient must be multiplied by "
            f"{old_s} / {new_s}; the code does `{src_of(node)}` — scalar factors other than ±1 come out inverted (sx·sx -> 4·I, x·y -> -i·z)",
            where=where, operand="factor"))
    return r


def rule_jw_string_span(ctx):
    r = RuleResult(
        "jw-string-span",
        "jordan_wigner_transform: the Z string emitted for a creation/annihilation operator at register `reg` covers every "
        "register below it — range(reg) starting at 0 — with the string site obtained from the loop register, and is emitted "
        "only for '+'/'-' operators (c_j = Z_0 ... Z_{j-1} sigma_j)",
    )
    f = ctx.prog.func(BUILDER, "jordan_wigner_transform")
    if f is None:
        raise AnalysisError("jordan_wigner_transform not found")
    loops = []
    for n in _own_walk(f.node):
        if isinstance(n, ast.For) and any(
            isinstance(x, ast.Call) and isinstance(x.func, ast.Attribute) and x.func.attr == "append"
            and x.args and isinstance(x.args[0], ast.Tuple) and x.args[0].elts and isinstance(x.args[0].elts[0], ast.Constant) and x.args[0].elts[0].value == "z"
            for s in n.body for x in _own_walk(s)
        ) and isinstance(n.iter, ast.Call) and getattr(n.iter.func, "id", None) == "range":
            loops.append(n)
    if not loops:
        raise AnalysisError("jordan_wigner_transform: the loop emitting ('z', site) operators was not found")
    for lp in loops:
        where = f"{f.module.relpath}:{lp.lineno}"
        args = lp.iter.args
        lo = None if len(args) == 1 else args[0]
        hi = args[0] if len(args) == 1 else args[1]
        ok = True
        if lo is not None and not (isinstance(lo, ast.Constant) and lo.value == 0):
            r.bad(Finding("jw-string-span", "jordan_wigner_transform", f"Z string starts at `{src_of(lo)}` instead of register 0: an operator with no partner below that register loses part of its string", where=where, operand="start"))
            ok = False
        if len(args) > 2:
            r.bad(Finding("jw-string-span", "jordan_wigner_transform", f"Z string skips registers (step `{src_of(args[2])}`)", where=where, operand="step"))
            ok = False
        # upper bound is the register of the operator being dressed
        regdefs = [n for n in _own_walk(f.node) if isinstance(n, ast.Assign) and isinstance(n.targets[0], ast.Name) and isinstance(hi, ast.Name) and n.targets[0].id == hi.id]
        if not (isinstance(hi, ast.Name) and regdefs and all(isinstance(d.value, ast.Call) and src_of(d.value.func) == "site_to_reg" for d in regdefs)):
            r.bad(Finding("jw-string-span", "jordan_wigner_transform", f"Z string ends at `{src_of(hi)}`, which is not the register site_to_reg(site) of the dressed operator", where=where, operand="stop"))
            ok = False
        if ok:
            r.ok("jordan_wigner_transform[z-string]", sample={"loop": src_of(lp.iter), "covers": "[0, reg)"})
    return r


def rule_sector_canonical_order(ctx):
    r = RuleResult(
        "sector-canonical-order",
        "parse_u1u1_sector: when the sector is given as a {species: filling} dict the (size, filling) pairs are ordered by "
        "iterating the canonical species ordering and looking the dict up by label; the user's dict is never itself iterated "
        "to build the ordered tuple (its insertion order is arbitrary)",
    )
    f = ctx.prog.func(HS, "parse_u1u1_sector")
    if f is None:
        raise AnalysisError("parse_u1u1_sector not found")
    branch = None
    for n in _own_walk(f.node):
        if isinstance(n, ast.If) and "isinstance(sector, dict)" in src_of(n.test):
            branch = n
    if branch is None:
        raise AnalysisError("parse_u1u1_sector: dict branch not found")
    bad = []
    lookups = 0
    for s in branch.body:
        for x in _own_walk(s):
            it = None
            if isinstance(x, ast.comprehension):
                it = x.iter
            elif isinstance(x, ast.For):
                it = x.iter
            elif isinstance(x, ast.Call) and isinstance(x.func, ast.Name) and x.func.id in ("tuple", "list", "zip", "map", "enumerate"):
                for a in x.args:
                    if src_of(a).split(".")[0] == "sector" and src_of(a) in ("sector", "sector.items()", "sector.values()", "sector.keys()"):
                        bad.append((x.lineno, src_of(a)))
            if it is not None and src_of(it) in ("sector", "sector.items()", "sector.values()", "sector.keys()"):
                bad.append((getattr(it, "lineno", branch.lineno), src_of(it)))
            if isinstance(x, ast.Subscript) and isinstance(x.value, ast.Name) and x.value.id == "sector":
                lookups += 1
    if bad:
        line, what = bad[0]
        r.bad(Finding("sector-canonical-order", "parse_u1u1_sector", f"the ordered sector tuple is built by iterating the caller's dict (`{what}`): fillings are paired with species positions in dict insertion order, not the sorted label order the kernels use", where=f"{f.module.relpath}:{line}", operand="dict-iteration"))
    elif lookups:
        r.ok("parse_u1u1_sector[dict]", sample={"dict form": "looked up by label", "lookups": lookups})
    else:
        raise AnalysisError("parse_u1u1_sector: dict branch neither iterates nor looks up the sector")
    return r


# ---------------------------------------------------------------------------
# cached representations of the builder: every write is followed by a reset on every path
# ---------------------------------------------------------------------------

MUTATORS = {"pop", "popitem", "clear", "update", "setdefault", "__setitem__", "__delitem__"}


def _is_self_attr(n, names):
    return isinstance(n, ast.Attribute) and isinstance(n.value, ast.Name) and n.value.id == "self" and n.attr in names


def _stmt_events(st, state_attrs, reset_name):
    """ordered list of 'W' (write of tracked state) / 'R' (reset) events of one simple statement."""
    ev = []
    for x in _own_walk(st):
        if isinstance(x, ast.Call) and isinstance(x.func, ast.Attribute):
            if x.func.attr in MUTATORS and _is_self_attr(x.func.value, state_attrs):
                ev.append((x.lineno, x.col_offset, "W", src_of(x)[:50]))
            if x.func.attr == reset_name and isinstance(x.func.value, ast.Name) and x.func.value.id == "self":
                ev.append((x.lineno, x.col_offset, "R", ""))
    tgts = []
    if isinstance(st, ast.Assign):
        tgts = st.targets
    elif isinstance(st, (ast.AugAssign, ast.AnnAssign)):
        tgts = [st.target]
    elif isinstance(st, ast.Delete):
        tgts = st.targets
    for t in tgts:
        for y in ast.walk(t):
            if _is_self_attr(y, state_attrs) or (isinstance(y, ast.Subscript) and _is_self_attr(y.value, state_attrs)):
                ev.append((st.end_lineno, 10**6, "W", src_of(t)[:50]))
                break
    ev.sort()
    return [(k, w, ln) for ln, _, k, w in ev]


def dirty_exits(fnode, state_attrs, reset_name):
    """[(lineno, what-was-written)] exits of the function reachable with a write not followed by a reset."""
    out = []

    def run(stmts, dirty):
        # dirty: None (clean) or description of the pending write
        for st in stmts:
            if isinstance(st, (ast.FunctionDef, ast.AsyncFunctionDef, ast.ClassDef)):
                continue
            if isinstance(st, ast.If):
                for k, w, ln in _stmt_events(ast.Expr(st.test), state_attrs, reset_name):
                    dirty = (w, ln) if k == "W" else None
                d1 = run(st.body, dirty)
                d2 = run(st.orelse, dirty)
                dirty = d1 if d1 is not None and d1 != "EXIT" else d2 if d2 != "EXIT" else None
                if d1 == "EXIT" and d2 == "EXIT":
                    return "EXIT"
                if d1 == "EXIT":
                    dirty = d2
                elif d2 == "EXIT":
                    dirty = d1
                else:
                    dirty = d1 if d1 is not None else d2
                continue
            if isinstance(st, (ast.For, ast.While, ast.AsyncFor)):
                d1 = run(st.body, dirty)
                if d1 not in (None, "EXIT"):
                    dirty = d1
                d2 = run(st.orelse, dirty)
                if d2 not in (None, "EXIT"):
                    dirty = d2
                continue
            if isinstance(st, (ast.With, ast.AsyncWith)):
                d1 = run(st.body, dirty)
                if d1 == "EXIT":
                    return "EXIT"
                dirty = d1
                continue
            if isinstance(st, ast.Try):
                d1 = run(st.body, dirty)
                for h in st.handlers:
                    run(h.body, dirty)
                if d1 != "EXIT":
                    dirty = d1
                d3 = run(st.finalbody, dirty if dirty != "EXIT" else None)
                if d3 not in (None, "EXIT"):
                    dirty = d3
                elif st.finalbody and d3 is None:
                    dirty = None
                continue
            for k, w, ln in _stmt_events(st, state_attrs, reset_name):
                dirty = (w, ln) if k == "W" else None
            if isinstance(st, ast.Return):
                if dirty is not None:
                    out.append((st.lineno, dirty))
                return "EXIT"
            if isinstance(st, ast.Raise):
                return "EXIT"  # an exception is loud; not a silent stale cache
        return dirty

    d = run(fnode.body, None)
    if d not in (None, "EXIT"):
        out.append((fnode.end_lineno, d))
    return out


def rule_builder_invalidate(ctx):
    r = RuleResult(
        "writers-invalidate[builder]",
        "in SparseOperatorBuilder every write of the raw terms or of a transform flag (_terms_raw, _transform_jordan_wigner, "
        "_transform_pauli_decompose, _atol) is followed by self._reset_caches() on every path to a normal exit of the method "
        "(abstract interpretation of each method body over {clean, dirty}); otherwise cached final terms / coupling maps / "
        "built matrices describe an operator that no longer exists",
    )
    cls = ctx.prog.cls(BUILDER, "SparseOperatorBuilder")
    state = {"_terms_raw", "_transform_jordan_wigner", "_transform_pauli_decompose", "_atol"}
    n = 0
    for name, f in sorted(cls.methods.items()):
        if f.is_alias or name in ("__init__", "_reset_caches", "copy", "__copy__"):
            continue
        writes = [e for st in _own_walk(f.node) if isinstance(st, ast.stmt) and not isinstance(st, (ast.If, ast.For, ast.While, ast.With, ast.Try, ast.FunctionDef)) for e in _stmt_events(st, state, "_reset_caches") if e[0] == "W"]
        if not writes:
            continue
        n += 1
        exits = dirty_exits(f.node, state, "_reset_caches")
        construct = f"SparseOperatorBuilder.{name}"
        if exits:
            for line, (w, wl) in exits:
                r.bad(Finding(
                    "writers-invalidate[builder]", construct,
                    f"`{w}` (line {wl}) changes the operator, but the method can leave at line {line} without self._reset_caches(): "
                    "previously built terms / matrices stay cached and are returned for the changed operator",
                    where=f"{f.module.relpath}:{line}", operand=f"{w.split('(')[0]}"))
        else:
            r.ok(construct, sample={"method": name, "writes": sorted({w for _, w, _ in writes})[:3], "reset": "on every exit path"})
    r.floor(n, 3, "SparseOperatorBuilder methods that write terms or transform flags")
    return r


def rule_transform_pipeline(ctx):
    r = RuleResult(
        "transform-pipeline",
        "SparseOperatorBuilder._get_terms_final: pauli_decompose expands each operator of a term independently and then "
        "sorts the factors by (register, label) — sound only if no site carries more than one operator, i.e. only directly "
        "after `simplify`: on every path into the Pauli-decomposition step a simplify call has run unconditionally since the "
        "last step that can produce several operators on one site (the raw terms, the Jordan-Wigner strings)",
    )
    cls = ctx.prog.cls(BUILDER, "SparseOperatorBuilder")
    f = cls.methods.get("_get_terms_final")
    if f is None:
        raise AnalysisError("_get_terms_final not found")

    def calls(st, name):
        return any(isinstance(c, ast.Call) and (getattr(c.func, "id", None) or getattr(c.func, "attr", None)) == name for c in ast.walk(st))

    # the statement list that holds the pipeline
    pipeline = None
    for n in ast.walk(f.node):
        for fld in ("body", "orelse"):
            lst = getattr(n, fld, None)
            if isinstance(lst, list) and any(calls(st, "pauli_decompose") for st in lst) and any(calls(st, "simplify") or calls(st, "jordan_wigner_transform") for st in lst):
                pipeline = lst
    if pipeline is None:
        raise AnalysisError("_get_terms_final: transformation pipeline not found")
    # abstract state: 'multi' (a site may carry several operators) / 'single'
    state = "multi"  # raw user terms
    ok = True
    for st in pipeline:
        is_if = isinstance(st, ast.If)
        if calls(st, "pauli_decompose"):
            if state != "single":
                ok = False
                r.bad(Finding("transform-pipeline", "SparseOperatorBuilder._get_terms_final",
                              f"pauli_decompose (line {st.lineno}) can run on terms that were not simplified since they could last hold several operators on one site: "
                              "its (register, label) sort then reorders non-commuting same-site operators", where=f"{f.module.relpath}:{st.lineno}", operand="decompose-unsimplified"))
            state = "single" if not is_if else state  # decomposition yields one Pauli per site; conditional -> unchanged in the other arm
            continue
        if is_if:
            # conditional step: a simplify inside only helps on that arm; a JW inside makes the state 'multi' on that arm
            if calls(st, "jordan_wigner_transform") and not _ends_with_simplify(st.body, calls):
                state = "multi"
            elif calls(st, "simplify") and not calls(st, "jordan_wigner_transform"):
                pass  # conditional simplify does not establish 'single' on the other arm
            continue
        if calls(st, "simplify"):
            state = "single"
        elif calls(st, "jordan_wigner_transform"):
            state = "multi"
    if ok:
        r.ok("SparseOperatorBuilder._get_terms_final", sample={"pipeline": [("simplify" if calls(st, "simplify") else "jordan_wigner" if calls(st, "jordan_wigner_transform") else "pauli_decompose" if calls(st, "pauli_decompose") else "-") + ("?" if isinstance(st, ast.If) else "") for st in pipeline]})
    return r


def _ends_with_simplify(body, calls):
    return bool(body) and calls(body[-1], "simplify")


def rule_blocked_per_call(ctx):
    r = RuleResult(
        "blocked-per-call",
        "sibling agreement between the matrix route (build_coo_data) and the matrix-free route (matvec): the `blocked` flag of "
        "the coupling map is derived from the symmetry code resolved for *this call* (second result of get_sector_numba), in "
        "both — a route that consults the Hilbert space's default symmetry instead enumerates configurations in the other "
        "ordering whenever a sector is supplied per call",
    )
    cls = ctx.prog.cls(BUILDER, "SparseOperatorBuilder")
    n = 0
    for name, f in sorted(cls.methods.items()):
        if f.is_alias or isinstance(f.node, ast.Lambda):
            continue
        sect = None
        for a in ast.walk(f.node):
            if isinstance(a, ast.Assign) and isinstance(a.value, ast.Call) and getattr(a.value.func, "attr", None) == "get_sector_numba" and isinstance(a.targets[0], ast.Tuple) and len(a.targets[0].elts) == 2:
                sect = [e.id if isinstance(e, ast.Name) else None for e in a.targets[0].elts]
        for c in ast.walk(f.node):
            if isinstance(c, ast.Call) and getattr(c.func, "attr", None) == "get_coupling_map":
                bl = next((k.value for k in c.keywords if k.arg == "blocked"), None)
                if bl is None:
                    continue
                n += 1
                names = {x.id for x in ast.walk(bl) if isinstance(x, ast.Name)}
                construct = f"SparseOperatorBuilder.{name}"
                if sect and sect[1] in names:
                    r.ok(construct, sample={"route": name, "blocked": src_of(bl), "resolved symmetry": sect[1]})
                else:
                    r.bad(Finding("blocked-per-call", construct, f"`blocked={src_of(bl)}` does not depend on the symmetry resolved for this call ({sect[1] if sect else 'get_sector_numba result'})",
                                  where=f"{f.module.relpath}:{c.lineno}", operand="blocked"))
    r.floor(n, 2, "coupling-map requests with a blocked flag")
    return r


def rule_cyclic_site_wrap(ctx):
    r = RuleResult(
        "cyclic-site-wrap",
        "a builder that embeds two-site terms with ikron(ops, dims, [i, i + 1]) inside a loop over all L sites — the loop only stops before "
        "the last site for open boundaries (`if i + 1 == L and not cyclic: break`) — reaches i = L - 1 for a periodic system: the partner "
        "site has to be reduced modulo L there, `i + 1` itself is outside the chain and the second operator of the wrap-around bond is never placed",
    )
    n = 0
    for modname in ("quimb.tensor.tensor_builder", "quimb.gen.operators"):
        m = ctx.prog.modules.get(modname)
        if m is None:
            continue
        for f in m.all_functions:
            if f.is_alias or isinstance(f.node, ast.Lambda):
                continue
            for lp in ast.walk(f.node):
                if not (isinstance(lp, ast.For) and isinstance(lp.target, ast.Name) and isinstance(lp.iter, ast.Call) and dotted(lp.iter.func) == "range" and len(lp.iter.args) == 1):
                    continue
                ivar = lp.target.id
                # the loop covers the last site for periodic systems: it breaks / skips only under `not ... cyclic`
                mentions_cyclic = any((isinstance(y, ast.Name) and y.id == "cyclic") or (isinstance(y, ast.Attribute) and y.attr == "cyclic") for st in lp.body if isinstance(st, ast.If) for y in ast.walk(st.test))
                if not mentions_cyclic:
                    continue
                for c in ast.walk(lp):
                    if not (isinstance(c, ast.Call) and (dotted(c.func) or "").split(".")[-1] == "ikron" and len(c.args) >= 3 and isinstance(c.args[2], (ast.List, ast.Tuple))):
                        continue
                    n += 1
                    unwrapped = []
                    for e in c.args[2].elts:
                        for b in ast.walk(e):
                            if isinstance(b, ast.BinOp) and isinstance(b.op, ast.Add) and any(isinstance(y, ast.Name) and y.id == ivar for y in ast.walk(b)):
                                under_mod = any(isinstance(mm, ast.BinOp) and isinstance(mm.op, ast.Mod) and any(z is b for z in ast.walk(mm.left)) for mm in ast.walk(e))
                                if not under_mod:
                                    unwrapped.append(b)
                    q = f.qualname
                    if unwrapped:
                        r.bad(Finding("cyclic-site-wrap", q, f"`{src_of(c.args[2])}` embeds the partner at `{src_of(unwrapped[0])}` inside a loop that reaches the last site of a periodic chain: "
                                                             "the wrap-around bond lands outside the system", where=f"{m.relpath}:{c.lineno}", operand="partner"))
                    else:
                        r.ok(q, sample={"builder": q, "sites": src_of(c.args[2])})
    r.floor(n, 1, "two-site embeddings inside loops that cover the last site of a periodic chain")
    return r


def rule_product_order(ctx):
    r = RuleResult(
        "product-order",
        "simplify_single_site_ops multiplies the matrices of several operators acting on one site in the order they are listed "
        "(ops[0] @ ops[1] @ ...): a fold with matmul over the operators as given, or a loop whose accumulator is the *left* operand of every "
        "`@`. An accumulator on the right (new factor @ accumulator), or a reversed traversal, builds the reversed product — wrong for any "
        "non-commuting factors (x·z ↦ z·x; every Jordan–Wigner hop changes sign)",
    )
    f = ctx.prog.func("quimb.operator.builder", "simplify_single_site_ops")
    if f is None:
        raise AnalysisError("product-order: builder.simplify_single_site_ops not found")
    where = f"{f.module.relpath}:{f.lineno}"
    n = 0
    # fold form
    for c in ast.walk(f.node):
        if isinstance(c, ast.Call) and (dotted(c.func) or "").split(".")[-1] == "reduce" and c.args and (dotted(c.args[0]) or "").endswith("matmul"):
            n += 1
            seq = c.args[1] if len(c.args) > 1 else None
            rev = seq is not None and any((isinstance(x, ast.Call) and dotted(x.func) == "reversed") or
                                          (isinstance(x, ast.Subscript) and isinstance(x.slice, ast.Slice) and x.slice.step is not None and const_value(x.slice.step, None) == -1)
                                          for x in ast.walk(seq))
            if rev:
                r.bad(Finding("product-order", "simplify_single_site_ops", f"`{src_of(c)[:60]}` folds the operators in reversed order", where=f"{f.module.relpath}:{c.lineno}", operand="reversed-fold"))
            else:
                r.ok("simplify_single_site_ops[fold]", sample={"product": src_of(c)[:60]})
    # loop form: acc = <a> @ <b> with acc on one side
    for a in ast.walk(f.node):
        if isinstance(a, ast.Assign) and len(a.targets) == 1 and isinstance(a.targets[0], ast.Name) and isinstance(a.value, ast.BinOp) and isinstance(a.value.op, ast.MatMult):
            acc = a.targets[0].id
            left_is_acc = isinstance(a.value.left, ast.Name) and a.value.left.id == acc
            right_is_acc = isinstance(a.value.right, ast.Name) and a.value.right.id == acc
            if not (left_is_acc or right_is_acc):
                continue
            n += 1
            if right_is_acc and not left_is_acc:
                r.bad(Finding("product-order", "simplify_single_site_ops", f"`{src_of(a)}` puts each new factor to the *left* of the accumulated product: the operators are multiplied in reverse",
                              where=f"{f.module.relpath}:{a.lineno}", operand="accumulator-right"))
            else:
                r.ok("simplify_single_site_ops[loop]", sample={"product": src_of(a)})
        if isinstance(a, ast.AugAssign) and isinstance(a.op, ast.MatMult):
            n += 1
            r.ok("simplify_single_site_ops[loop]", sample={"product": src_of(a)})
    r.floor(n, 1, "matrix products of same-site operators in simplify_single_site_ops")
    return r
