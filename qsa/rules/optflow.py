"""OPTFLOW: option delivery (bond cap / cutoff / normalized ...).

For a function that accepts a named option, every call whose resolved callee
(all candidates) accepts the same option must *deliver* a value derived from
the caller's option — by keyword, by positional slot, through ``**d`` or
``some_opts=d`` where ``d`` is a local dict known to carry the key — or pass
an explicit literal (a deliberate choice, counted but never reported).  A
call that simply omits the option silently falls back to the callee's
default (usually: no truncation)."""

import ast

from ..framework import RuleResult, Finding
from ..model import dotted, src_of, const_value, FuncInfo

# (caller qualname or '*', callee name) -> reason.  Deliberate omissions
# confirmed by reading.
EXEMPT_CALLS = {
    ("*", "contract_"): "exact local contraction of already-compressed site groups (contract's max_bond means *compressed* contraction)",
    ("*", "contract"): "exact local contraction (contract's max_bond selects compressed contraction, not wanted here)",
    ("svd_rand_truncated", "array_split"): "orthogonalisation stage of the randomized SVD is an exact QR-like split",
    ("*", "contract_tags_"): "exact contraction of tagged groups",
    ("*", "contract_tags"): "exact contraction of tagged groups",
    ("tensor_network_ag_gate_simple_long_range", "split"): "factorises the two-site *gate operator* into an MPO-like string (its own stage: the state's bond cap / cutoff apply to the compressions along the path, which receive them)",
    ("compute_oblique_projectors", "safe_inverse"): "safe_inverse's `cutoff` regularises an inverse; it is not the truncation cutoff (name clash)",
}


def _derived_names(f, opt):
    """Locals whose value is computed from the option (transitively)."""
    derived = {opt}
    changed = True
    while changed:
        changed = False
        for n in ast.walk(f.node):
            if isinstance(n, ast.Assign):
                used = {x.id for x in ast.walk(n.value) if isinstance(x, ast.Name)}
                if used & derived:
                    for t in n.targets:
                        for nm in ([t] if isinstance(t, ast.Name) else [e for e in ast.walk(t) if isinstance(e, ast.Name)] if isinstance(t, (ast.Tuple, ast.List)) else []):
                            if nm.id not in derived:
                                derived.add(nm.id)
                                changed = True
            elif isinstance(n, ast.AugAssign) and isinstance(n.target, ast.Name):
                used = {x.id for x in ast.walk(n.value) if isinstance(x, ast.Name)}
                if used & derived and n.target.id not in derived:
                    derived.add(n.target.id)
                    changed = True
            elif isinstance(n, (ast.For, ast.comprehension)):
                used = {x.id for x in ast.walk(n.iter) if isinstance(x, ast.Name)}
                if used & derived:
                    for nm in [e for e in ast.walk(n.target) if isinstance(e, ast.Name)]:
                        if nm.id not in derived:
                            derived.add(nm.id)
                            changed = True
    return derived


def _dict_carriers(f, opt, derived):
    """Local dict names (or attribute paths) that carry key ``opt`` with a
    derived value -> True ; with a non-derived value -> False."""
    out = {}

    def note(name, val):
        names = {x.id for x in ast.walk(val)} if False else {x.id for x in ast.walk(val) if isinstance(x, ast.Name)}
        good = bool(names & derived)
        out[name] = out.get(name, False) or good

    for n in ast.walk(f.node):
        if isinstance(n, ast.Assign):
            t = n.targets[0]
            if isinstance(t, ast.Subscript) and const_value(t.slice, None) == opt:
                note(src_of(t.value), n.value)
            if isinstance(t, ast.Name):
                v = n.value
                # dict(...) / {...} / a | {...} / {**a, ...}
                for d in ast.walk(v):
                    if isinstance(d, ast.Dict):
                        for k, vv in zip(d.keys, d.values):
                            if k is not None and const_value(k, None) == opt:
                                note(t.id, vv)
                            if k is None and src_of(vv) in out:
                                out[t.id] = out.get(t.id, False) or out[src_of(vv)]
                    if isinstance(d, ast.Call) and dotted(d.func) == "dict":
                        for kw in d.keywords:
                            if kw.arg == opt:
                                note(t.id, kw.value)
                            if kw.arg is None and src_of(kw.value) in out:
                                out[t.id] = out.get(t.id, False) or out[src_of(kw.value)]
                    if isinstance(d, ast.BinOp) and isinstance(d.op, ast.BitOr):
                        for side in (d.left, d.right):
                            if src_of(side) in out:
                                out[t.id] = out.get(t.id, False) or out[src_of(side)]
                if isinstance(v, ast.Name) and v.id in out:
                    out[t.id] = out[v.id]
                if isinstance(v, ast.Call) and dotted(v.func) in ("ensure_dict", "dict") and v.args and src_of(v.args[0]) in out:
                    out[t.id] = out[src_of(v.args[0])]
        if isinstance(n, ast.Call) and isinstance(n.func, ast.Attribute) and n.func.attr in ("setdefault", "update", "__setitem__"):
            if n.func.attr == "setdefault" and len(n.args) == 2 and const_value(n.args[0], None) == opt:
                note(src_of(n.func.value), n.args[1])
            if n.func.attr == "update":
                for kw in n.keywords:
                    if kw.arg == opt:
                        note(src_of(n.func.value), kw.value)
    return out


_PRIMARY = set()  # ids of methods resolved through the caller's own class (an override with a narrower signature is a loud TypeError)


def _trampoline_target(ctx, g):
    """def g(tn: Cls, *args, **kwargs): return tn.<method>(*args, **kwargs)  ->  the method (pickleable trampolines)."""
    body = [st for st in g.node.body if not (isinstance(st, ast.Expr) and isinstance(st.value, ast.Constant))]
    if len(body) != 1 or not isinstance(body[0], ast.Return) or not isinstance(body[0].value, ast.Call):
        return None
    call = body[0].value
    if not (isinstance(call.func, ast.Attribute) and isinstance(call.func.value, ast.Name) and g.node.args.args and call.func.value.id == g.node.args.args[0].arg):
        return None
    if not (any(isinstance(a, ast.Starred) for a in call.args) and any(k.arg is None for k in call.keywords)):
        return None
    ann = g.node.args.args[0].annotation
    cls = ctx.prog.resolve_expr(g.module, ann) if ann is not None else None
    if cls is None or not hasattr(cls, "find"):
        return None
    return cls.find(call.func.attr)


def _candidates(ctx, f, c):
    p = ctx.prog
    # higher-order helper: helper(fn=<trampoline>, ..., **options) calls fn(tn, G, where, **options)
    fnkw = next((k.value for k in c.keywords if k.arg == "fn"), None)
    if isinstance(fnkw, ast.Name):
        g = p.lookup(f.module, fnkw.id)
        helper = p.lookup(f.module, c.func.id) if isinstance(c.func, ast.Name) else None
        if isinstance(g, FuncInfo) and isinstance(helper, FuncInfo) and helper.node.args.kwarg is not None and "fn" in helper.params:
            t = _trampoline_target(ctx, g)
            if t is not None:
                return [t]
    if isinstance(c.func, ast.Subscript) and isinstance(c.func.value, ast.Name):
        # registry dispatch  _METHODS[method](...) : every registered function is a candidate
        node = f.module.assigns.get(c.func.value.id) if hasattr(f.module, "assigns") else None
        if isinstance(node, ast.Dict):
            from .registries import resolve_function_value
            cands = []
            for v in node.values:
                g, kw = resolve_function_value(ctx, f.module, v)
                if not isinstance(g, FuncInfo):
                    return []
                # an option the registration binds itself is not expected from the dispatcher
                cands.append(g)
            return cands
        return []
    if isinstance(c.func, ast.Name):
        # a local bound to one of several functions: g = {1: f1, 2: f2}[k] / g = f1 if c else f2 / g = f1
        local = []
        for a in ast.walk(f.node):
            if isinstance(a, ast.Assign) and len(a.targets) == 1 and isinstance(a.targets[0], ast.Name) and a.targets[0].id == c.func.id:
                v = a.value
                if isinstance(v, ast.Subscript) and isinstance(v.value, ast.Dict):
                    elts = list(v.value.values)
                elif isinstance(v, ast.IfExp):
                    elts = [v.body, v.orelse]
                elif isinstance(v, ast.Name):
                    elts = [v]
                else:
                    return []  # rebound to something opaque
                for e in elts:
                    t = p.lookup(f.module, e.id) if isinstance(e, ast.Name) else None
                    if t is None and isinstance(e, ast.Attribute) and isinstance(e.value, ast.Name) and e.value.id == "self" and f.cls is not None:
                        t = f.cls.find(e.attr)      # a bound method of the same object
                    if not isinstance(t, FuncInfo):
                        return []
                    local.append(t)
        if local:
            return local
        if c.func.id in f.params:
            return []
        r = p.lookup(f.module, c.func.id)
        if not isinstance(r, FuncInfo):
            # a function-local import:  from quimb.tensor.tn1d.compress import tensor_network_1d_compress
            for imp in ast.walk(f.node):
                if isinstance(imp, ast.ImportFrom) and imp.module and any((a.asname or a.name) == c.func.id for a in imp.names):
                    real = next(a.name for a in imp.names if (a.asname or a.name) == c.func.id)
                    modname = imp.module
                    if imp.level:
                        base = f.module.name.split(".")
                        base = base[: len(base) - imp.level + (1 if f.module.relpath.endswith("__init__.py") else 0)]
                        modname = ".".join(base + [imp.module])
                    mod = p.modules.get(modname)
                    if mod is not None:
                        r = p.lookup(mod, real)
        return [r] if isinstance(r, FuncInfo) else []
    if isinstance(c.func, ast.Attribute):
        r = p.resolve_expr(f.module, c.func) if dotted(c.func) else None
        if isinstance(r, FuncInfo):
            return [r]
        if isinstance(c.func.value, ast.Name):
            # a module imported inside the function:  from quimb.tensor.belief_propagation import l2bp ; l2bp.compress_l2bp(...)
            for imp in ast.walk(f.node):
                if isinstance(imp, ast.ImportFrom) and imp.module and not imp.level:
                    for a in imp.names:
                        if (a.asname or a.name) == c.func.value.id:
                            mod = p.modules.get(imp.module + "." + a.name)
                            if mod is not None:
                                g = p.lookup(mod, c.func.attr)
                                if isinstance(g, FuncInfo):
                                    return [g]
        if isinstance(c.func.value, ast.Call) and isinstance(c.func.value.func, ast.Name) and c.func.value.func.id == "super" and f.cls is not None:
            t = f.cls.find_after(f.cls, c.func.attr)
            return [t] if t is not None else []
        idx = ctx.eff.name_index()
        cands = [m for m in idx.get(c.func.attr, []) if ctx.eff.in_tensor_world(m.cls)]
        if isinstance(c.func.value, ast.Name) and c.func.value.id == "self" and f.cls is not None:
            m = f.cls.find(c.func.attr)
            if m is not None:
                subs = [sc.methods[c.func.attr] for sc in f.cls.all_subclasses() if c.func.attr in sc.methods]
                _PRIMARY.add(id(m))
                return [m] + subs
        return cands
    return []


def _accepts(ctx, rm, opt, depth=0):
    """True when `rm` accepts the option by name, or is a wrapper that hands its catch-all keywords, untouched, to exactly one
    callee that accepts it (Tensor.split -> tensor_split; TensorNetwork.split -> <linear operator>.split -> tensor_split)."""
    if opt in rm.params:
        return True
    node = rm.node
    kw = getattr(getattr(node, "args", None), "kwarg", None)
    if kw is None or depth > 2 or isinstance(node, ast.Lambda):
        return False
    K = kw.arg
    uses = [x for x in ast.walk(node) if isinstance(x, ast.Name) and x.id == K]
    fwd = [c for c in ast.walk(node) if isinstance(c, ast.Call) and any(k.arg is None and isinstance(k.value, ast.Name) and k.value.id == K for k in c.keywords)]
    if len(fwd) != 1 or len(uses) != 1:
        return False  # read, popped or completed on the way: not a plain trampoline
    c = fwd[0]
    if isinstance(c.func, ast.Name):
        g = ctx.prog.lookup(rm.module, c.func.id)
        return isinstance(g, FuncInfo) and _accepts(ctx, g, opt, depth + 1)
    if isinstance(c.func, ast.Attribute) and c.func.attr == rm.name:
        # the same-named method of another object of the family
        cands = [m for m in ctx.eff.name_index().get(rm.name, []) if m is not rm and ctx.eff.in_tensor_world(m.cls)]
        return bool(cands) and all(_accepts(ctx, m, opt, depth + 1) for m in cands)
    return False


def rule_option_delivery(ctx, opts=("max_bond", "cutoff"), modules=None, rule="cap-delivery", floor=20, description=None, exempt_extra=None, want_names=None):
    r = RuleResult(
        rule,
        description or (
            "from every function that accepts a truncation option (max_bond, cutoff), each call whose resolved callee "
            "(all candidates) accepts that option receives a value derived from the caller's option — keyword, "
            "positional slot, **opts or <x>_opts=d with the key set — or an explicit literal; an omitted option "
            "silently reverts to the callee's default (no truncation)"),
    )
    exempt = dict(EXEMPT_CALLS)
    exempt.update(exempt_extra or {})
    p = ctx.prog
    total = 0
    for f in p.all_functions(nested=False):
        if f.is_alias or isinstance(f.node, ast.Lambda):
            continue
        if modules is not None and not any(f.module.name.startswith(m) for m in modules):
            continue
        if want_names is not None and not want_names(f):
            continue
        for opt in opts:
            if opt not in f.params:
                continue
            derived = _derived_names(f, opt)
            carriers = _dict_carriers(f, opt, derived)
            staged = []
            before_ok = r.discharged
            for c in ast.walk(f.node):
                if not isinstance(c, ast.Call):
                    continue
                cands = _candidates(ctx, f, c)
                real = []
                for m in cands:
                    rm = p.deref_alias(m)[0] if m.is_alias else m
                    if rm is not None:
                        real.append((m, rm))
                if real and id(real[0][0]) in _PRIMARY and opt in real[0][1].params:
                    # self.<method>: the method of the caller's own class accepts the option; overrides that do not are
                    # incompatible with this call anyway and cannot silently drop it
                    real = [x for x in real if opt in x[1].params]
                if not real or not all(_accepts(ctx, rm, opt) for _, rm in real):
                    continue
                total += 1
                callee = src_of(c.func)
                cname = callee.split(".")[-1]
                construct = f"{f.qualname}->{cname}[{opt}]"
                where = f"{f.module.relpath}:{c.lineno}"
                kws = {k.arg: k.value for k in c.keywords if k.arg}
                stars = [src_of(k.value) for k in c.keywords if k.arg is None]
                val = kws.get(opt)
                if val is None:
                    m0, rm0 = real[0]
                    pos = list(rm0.posparams)
                    if rm0.cls is not None and isinstance(c.func, ast.Attribute) and not rm0.is_static and not (dotted(c.func) and isinstance(p.resolve_expr(f.module, c.func), FuncInfo) and not isinstance(c.func.value, ast.Name)):
                        pos = pos[1:]
                    if isinstance(c.func, ast.Name) or (dotted(c.func) and isinstance(p.resolve_expr(f.module, c.func), FuncInfo) and rm0.cls is None):
                        pos = list(rm0.posparams)
                    if opt in pos and pos.index(opt) < len(c.args) and not any(isinstance(a, ast.Starred) for a in c.args[: pos.index(opt) + 1]):
                        val = c.args[pos.index(opt)]
                if val is not None:
                    names = {x.id for x in ast.walk(val) if isinstance(x, ast.Name)}
                    if names & derived:
                        r.ok(construct, sample={"caller": f.qualname, "callee": callee, "option": opt, "delivered": src_of(val)[:40]})
                    elif isinstance(val, ast.Constant) or (isinstance(val, ast.UnaryOp) and isinstance(val.operand, ast.Constant)):
                        r.ok(construct, sample={"caller": f.qualname, "callee": callee, "option": opt, "explicit literal": src_of(val)}, nontrivial=False)
                    elif any(src_of(x) in carriers for x in ast.walk(val)):
                        r.ok(construct, nontrivial=False)
                    elif names and all(nm in f.params and nm.startswith(opt + "_") for nm in names):
                        # stage-specific sibling option (cutoff_oversample, cutoff_fit ...):
                        # allowed when another call of this function delivers the plain option
                        staged.append((construct, c, val, where, cname))
                    elif exempt.get((f.qualname, cname)) or exempt.get((f.name, cname)):
                        r.exempt(construct, exempt.get((f.qualname, cname)) or exempt.get((f.name, cname)))
                    else:
                        r.bad(Finding(rule, f.qualname,
                                      f"call {callee}(...) (line {c.lineno}) receives {opt}={src_of(val)[:40]}, which is not derived from the caller's own `{opt}`",
                                      where=where, operand=f"{cname}:{opt}:replaced"))
                    continue
                # via dicts
                via = [s for s in stars if carriers.get(s)]
                via += [k for k, v in kws.items() if isinstance(v, (ast.Name, ast.Attribute)) and carriers.get(src_of(v))]
                if via:
                    r.ok(construct, sample={"caller": f.qualname, "callee": callee, "option": opt, "delivered via": via[0]})
                    continue
                ex = exempt.get((f.qualname, cname)) or exempt.get((f.name, cname)) or exempt.get(("*", cname))
                if ex:
                    r.exempt(construct, ex)
                    continue
                if opt not in ("max_bond", "cutoff"):
                    # a mode flag may be *absorbed*: the caller transforms its arguments according to the flag
                    # (G -> conj(G), transpose = dagger or transpose) and hands the transformed values on
                    transformed = [a for a in list(c.args) + [k.value for k in c.keywords] if {x.id for x in ast.walk(a) if isinstance(x, ast.Name)} & (derived - {opt})]
                    if transformed:
                        r.ok(construct, sample={"caller": f.qualname, "callee": callee, "option": opt, "absorbed into": src_of(transformed[0])[:30]})
                        continue
                # an opaque **kwargs of the caller may carry it: only when the caller itself does not consume the option
                r.bad(Finding(
                    rule, f.qualname,
                    f"call {callee}(...) (line {c.lineno}) accepts `{opt}` but is not given it: the caller's {opt} is silently "
                    f"replaced by the callee's default", where=where, operand=f"{cname}:{opt}"))
            delivered_elsewhere = any(
                isinstance(s_, dict) and s_.get("option") == opt and s_.get("caller") == f.qualname and ("delivered" in s_ or "delivered via" in s_)
                for s_ in r.samples
            ) or _has_derived_delivery(f, opt, derived, carriers)
            for construct, c, val, where, cname in staged:
                if delivered_elsewhere:
                    r.ok(construct, sample={"caller": f.qualname, "stage option": src_of(val), "final stage": f"receives {opt}"})
                else:
                    r.bad(Finding(rule, f.qualname,
                                  f"intermediate stage {cname}(...) receives {opt}={src_of(val)} but no call of the function delivers the caller's own `{opt}` to a final stage",
                                  where=where, operand=f"{cname}:{opt}:staged"))
    r.floor(total, floor, f"call edges whose callee accepts {'/'.join(opts)}")
    return r


def _has_derived_delivery(f, opt, derived, carriers):
    for c in ast.walk(f.node):
        if isinstance(c, ast.Call):
            for k in c.keywords:
                if k.arg == opt and {x.id for x in ast.walk(k.value) if isinstance(x, ast.Name)} & derived:
                    return True
                if k.arg is None and carriers.get(src_of(k.value)):
                    return True
                if k.arg is not None and isinstance(k.value, (ast.Name, ast.Attribute)) and carriers.get(src_of(k.value)):
                    return True
            for a in c.args:
                if isinstance(a, ast.Name) and a.id in derived and a.id == opt:
                    return True
    return False
