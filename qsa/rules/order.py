"""C13: the requested site order reaches the result.

A reduced density matrix / operator attachment follows "the order given"
only if every index list built from the site-sequence parameter is built by
order-preserving operations.  The rule tracks, per function, locals bound to
an *unordered* collection (set / frozenset / set comprehension) of values
derived from the site parameter, and reports any order-carrying consumption
of such a local: tuple(), list(), map(), zip(), enumerate(), a list /
generator comprehension, or a for loop that appends / yields.  Membership
tests, len(), set algebra, sorted() and order-insensitive reductions are fine.
"""

import ast

from ..framework import RuleResult, Finding
from ..model import src_of
from .. import AnalysisError

MODULES = ("quimb.tensor.tnag.core", "quimb.tensor.tn1d.core", "quimb.tensor.tn2d.core", "quimb.tensor.tn3d.core")
SITE_PARAMS = {"keep", "where", "sites", "sysa", "sysb", "coos"}
ORDER_CALLS = {"tuple", "list", "map", "zip", "enumerate", "oset", "concat", "reversed"}
INSENSITIVE = {"set", "frozenset", "sorted", "sum", "all", "any", "max", "min", "len", "dict", "Counter"}


def _own_walk(node):
    todo = [node]
    while todo:
        n = todo.pop()
        yield n
        for c in ast.iter_child_nodes(n):
            if not isinstance(c, (ast.FunctionDef, ast.AsyncFunctionDef, ast.Lambda)):
                todo.append(c)


def _setlike(v):
    if isinstance(v, (ast.Set, ast.SetComp)):
        return True
    if isinstance(v, ast.Call) and isinstance(v.func, ast.Name) and v.func.id in ("set", "frozenset"):
        return True
    if isinstance(v, ast.BinOp) and isinstance(v.op, (ast.BitOr, ast.BitAnd, ast.Sub, ast.BitXor)):
        return _setlike(v.left) or _setlike(v.right)
    return False


def _names(e):
    return {n.id for n in ast.walk(e) if isinstance(n, ast.Name)}


def analyse_function(f):
    """-> (n_site_params, [(lineno, name, how, text)]) order-carrying uses of unordered site collections."""
    params = [p for p in f.params if p in SITE_PARAMS]
    if not params:
        return 0, []
    # derived-from-site names (flow-insensitive closure is enough for taint)
    derived = set(params)
    changed = True
    assigns = [n for n in _own_walk(f.node) if isinstance(n, ast.Assign)]
    while changed:
        changed = False
        for a in assigns:
            if _names(a.value) & derived:
                for t in a.targets:
                    for nm in ast.walk(t):
                        if isinstance(nm, ast.Name) and nm.id not in derived:
                            derived.add(nm.id)
                            changed = True
    # intervals on which a name is bound to an unordered collection of site-derived values
    spans = {}
    by_name = {}
    for a in assigns:
        for t in a.targets:
            if isinstance(t, ast.Name):
                by_name.setdefault(t.id, []).append(a)
    end = f.node.end_lineno + 1
    for name, alist in by_name.items():
        alist.sort(key=lambda a: a.lineno)
        for i, a in enumerate(alist):
            if _setlike(a.value) and (_names(a.value) & derived):
                stop = alist[i + 1].lineno if i + 1 < len(alist) else end
                spans.setdefault(name, []).append((a.end_lineno, stop, a))
    # a *sorted copy* of the requested sites (fine for slicing / canonicalizing) that orders the axes of a dense result:
    # S = sorted(where); L = [ix(i) for i in S]; X.to_dense(L, ...)
    sorted_hits = []
    sorted_names = {}
    for a in assigns:
        if len(a.targets) == 1 and isinstance(a.targets[0], ast.Name) and a.targets[0].id not in f.params \
                and isinstance(a.value, ast.Call) and isinstance(a.value.func, ast.Name) and a.value.func.id == "sorted" \
                and a.value.args and (_names(a.value.args[0]) & derived) and not a.value.keywords:
            sorted_names[a.targets[0].id] = a
    if sorted_names:
        lists = {}
        for a in assigns:
            if len(a.targets) == 1 and isinstance(a.targets[0], ast.Name):
                v = a.value
                if isinstance(v, ast.Call) and isinstance(v.func, ast.Name) and v.func.id in ("tuple", "list") and v.args:
                    v = v.args[0]
                if isinstance(v, (ast.ListComp, ast.GeneratorExp)) and any(isinstance(g.iter, ast.Name) and g.iter.id in sorted_names for g in v.generators):
                    lists[a.targets[0].id] = (a, next(g.iter.id for g in v.generators if isinstance(g.iter, ast.Name) and g.iter.id in sorted_names))
        for c in _own_walk(f.node):
            if isinstance(c, ast.Call) and isinstance(c.func, ast.Attribute) and c.func.attr in ("to_dense", "to_qarray"):
                for a_ in c.args:
                    for y in ast.walk(a_):
                        if isinstance(y, ast.Name) and y.id in lists:
                            la, sname = lists[y.id]
                            sorted_hits.append((c.lineno, sname, f"the axis list `{y.id}` of to_dense()", src_of(c)[:70]))
    if not spans:
        return len(params), sorted_hits

    def unordered(node):
        if isinstance(node, ast.Name) and node.id in spans:
            return any(lo < node.lineno <= hi or (lo == node.lineno and False) for lo, hi, _ in spans[node.id])
        return False

    parents = {}
    for n in _own_walk(f.node):
        for c in ast.iter_child_nodes(n):
            parents[c] = n
    hits = []
    for n in _own_walk(f.node):
        if isinstance(n, ast.Call) and isinstance(n.func, ast.Name) and n.func.id in ORDER_CALLS:
            for a in n.args:
                if unordered(a):
                    par = parents.get(n)
                    if isinstance(par, ast.Call) and isinstance(par.func, ast.Name) and par.func.id in INSENSITIVE:
                        continue
                    hits.append((n.lineno, a.id, n.func.id + "()", src_of(n)[:70]))
        elif isinstance(n, (ast.ListComp, ast.GeneratorExp)):
            for g in n.generators:
                if unordered(g.iter):
                    par = parents.get(n)
                    if isinstance(par, ast.Call) and isinstance(par.func, ast.Name) and par.func.id in INSENSITIVE:
                        continue
                    hits.append((n.lineno, g.iter.id, "comprehension", src_of(n)[:70]))
        elif isinstance(n, ast.For) and unordered(n.iter):
            carries = any(
                isinstance(x, (ast.Yield, ast.YieldFrom))
                or (isinstance(x, ast.Call) and isinstance(x.func, ast.Attribute) and x.func.attr in ("append", "extend", "insert"))
                for s in n.body for x in _own_walk(s)
            )
            if carries:
                hits.append((n.lineno, n.iter.id, "for-append", src_of(n.iter)))
    return len(params), hits + sorted_hits


def rule_requested_order(ctx):
    r = RuleResult(
        "requested-order",
        "in the reduced-density-matrix / local-expectation code, a local bound to a set/frozenset of values derived from "
        "the site-sequence parameter (keep / where / sites ...) is never consumed by an order-carrying operation "
        "(tuple, list, map, zip, enumerate, list/generator comprehension, appending loop): index lists that fix the "
        "axis order of the result are built from the sequence as given",
    )
    n = 0
    for f in ctx.prog.all_functions(nested=False):
        if f.is_alias or isinstance(f.node, ast.Lambda):
            continue
        if not (f.module.name in MODULES or ctx.is_control(f)):
            continue
        np_, hits = analyse_function(f)
        if not np_:
            continue
        if not ctx.is_control(f):
            n += 1
        if hits:
            for line, name, how, text in hits:
                r.bad(Finding(
                    "requested-order", f.qualname,
                    f"`{name}` is an unordered set (or a sorted copy) of the requested sites but is consumed by {how} (`{text}`): the order of the "
                    "result's axes follows set iteration / sorted order, not the order the caller gave",
                    where=f"{f.module.relpath}:{line}", operand=f"{name}:{how}"))
        else:
            r.ok(f.qualname, sample={"function": f.qualname, "site params": [p for p in f.params if p in SITE_PARAMS]}, nontrivial=False)
    r.floor(n, 40, "functions with a site-sequence parameter")
    r.need_controls(1)
    return r


def rule_gauge_order_binding(ctx):
    r = RuleResult(
        "gauge-order-binding",
        "a routine that combines per-index bond gauges in the order of a sequence parameter (a comprehension over the parameter "
        "that reads `gauges`) and afterwards uses the same parameter to order a structural operation on the tensors (fuse, "
        "transpose ...) must use one binding for both: rebinding the parameter in between makes the combined gauge and the "
        "fused bond enumerate the indices in different orders",
    )
    n = 0
    for f in ctx.prog.all_functions(nested=False):
        if f.is_alias or isinstance(f.node, ast.Lambda) or not f.module.name.startswith("quimb.tensor") or "gauges" not in f.params:
            continue
        for p in f.params:
            if p in ("gauges", "self"):
                continue
            gauge_iters = []
            for x in _own_walk(f.node):
                if isinstance(x, (ast.ListComp, ast.GeneratorExp, ast.DictComp)):
                    if any(isinstance(g.iter, ast.Name) and g.iter.id == p for g in x.generators) and any(isinstance(y, ast.Name) and y.id == "gauges" for y in ast.walk(x)):
                        gauge_iters.append(x)
            if not gauge_iters:
                continue
            first = min(x.lineno for x in gauge_iters)
            later_uses = [x for x in _own_walk(f.node) if isinstance(x, ast.Name) and x.id == p and isinstance(x.ctx, ast.Load) and x.lineno > max(getattr(g, "end_lineno", g.lineno) for g in gauge_iters)]
            if not later_uses:
                continue
            n += 1
            rebinds = [a for a in _own_walk(f.node) if isinstance(a, ast.Assign) and any(isinstance(t, ast.Name) and t.id == p for t0 in a.targets for t in ast.walk(t0)) and a.lineno > first]
            construct = f"{f.qualname}[{p}]"
            if rebinds:
                r.bad(Finding("gauge-order-binding", f.qualname,
                              f"`{p}` orders the combination of the gauges (line {first}) and is rebound at line {rebinds[0].lineno} (`{src_of(rebinds[0])[:60]}`) before it orders "
                              "the operation on the tensors: the fused gauge no longer matches the fused bond", where=f"{f.module.relpath}:{rebinds[0].lineno}", operand=p))
            else:
                r.ok(construct, sample={"function": f.qualname, "ordering parameter": p, "gauge combination": f"line {first}", "later structural uses": len(later_uses)})
    r.floor(n, 1, "gauge combinations ordered by a sequence parameter")
    return r


def rule_where_sorted_with_operator(ctx, modules=None, rule="where-sorted-with-operator", floor=5):
    r = RuleResult(
        "where-sorted-with-operator",
        "in the local-expectation code the sites of a term and its operator travel together: the k-th factor of G acts on the k-th site of "
        "`where`. A site tuple that is re-bound to its sorted self (`where = tuple(sorted(where))`) and then handed on together with the "
        "unpermuted operator — passed to a gate / expectation call, or stored next to G — silently exchanges the factors for every term given "
        "in descending order",
    )
    n = 0
    r.rule = rule
    for f in ctx.prog.all_functions(nested=False):
        if f.is_alias or isinstance(f.node, ast.Lambda) or not (f.module.name in MODULES if modules is None else f.module.name.startswith(tuple(modules))):
            continue
        # (b) a site *parameter* re-bound to a sorted version of itself and then passed on, positionally, next to another parameter
        #     (the operator):  where = tuple(sorted(...where...)); return X.local_expectation(G, where, ...)
        sps = [p_ for p_ in f.params if p_ in SITE_PARAMS]
        for wname in sps:
            rebinds = [a for a in _own_walk(f.node) if isinstance(a, ast.Assign) and any(isinstance(t, ast.Name) and t.id == wname for t in a.targets)
                       and any(isinstance(c, ast.Call) and isinstance(c.func, ast.Name) and c.func.id == "sorted" and any(isinstance(y, ast.Name) and y.id == wname for y in ast.walk(c))
                               for c in ast.walk(a.value))]
            if not rebinds:
                if any(isinstance(c, ast.Call) and any(isinstance(a_, ast.Name) and a_.id == wname for a_ in c.args) for c in _own_walk(f.node)):
                    n += 1
                continue
            n += 1
            a = rebinds[0]
            others = [q_ for q_ in f.params if q_ not in ("self", "cls", wname)]
            hit = None
            for x in _own_walk(f.node):
                if isinstance(x, ast.Call) and getattr(x, "lineno", 0) > a.lineno:
                    pos = [y.id for y in x.args if isinstance(y, ast.Name)]
                    if wname in pos and any(q_ in pos for q_ in others):
                        hit = (x, next(q_ for q_ in others if q_ in pos))
                        break
            if hit is not None:
                r.bad(Finding(rule, f.qualname,
                              f"`{src_of(a)[:60]}` (line {a.lineno}) re-binds the requested sites to a sorted version and `{src_of(hit[0])[:50]}` (line {hit[0].lineno}) hands them on next to the "
                              f"unpermuted `{hit[1]}`: for sites that come out in descending order the operator's factors land on exchanged sites",
                              where=f"{f.module.relpath}:{a.lineno}", operand=f"{wname}:{hit[1]}"))
        # site tuples: loop targets over <terms>.items()  (for where, G in terms.items())  and site parameters
        pairs = []
        for lp in _own_walk(f.node):
            if isinstance(lp, ast.For) and isinstance(lp.target, ast.Tuple) and len(lp.target.elts) == 2 and all(isinstance(e, ast.Name) for e in lp.target.elts) \
                    and isinstance(lp.iter, ast.Call) and isinstance(lp.iter.func, ast.Attribute) and lp.iter.func.attr == "items":
                pairs.append((lp.target.elts[0].id, lp.target.elts[1].id, lp))
        if not pairs:
            continue
        n += 1
        for wname, gname, lp in pairs:
            for a in ast.walk(lp):
                if not (isinstance(a, ast.Assign) and any(isinstance(t, ast.Name) and t.id == wname for t in a.targets)):
                    continue
                srt = [c for c in ast.walk(a.value) if isinstance(c, ast.Call) and isinstance(c.func, ast.Name) and c.func.id == "sorted"
                       and any(isinstance(y, ast.Name) and y.id == wname for y in ast.walk(c))]
                if not srt:
                    continue
                # later uses together with the operator
                together = None
                for x in ast.walk(lp):
                    if getattr(x, "lineno", 0) <= a.lineno:
                        continue
                    if isinstance(x, ast.Call):
                        argn = {y.id for arg in list(x.args) + [k.value for k in x.keywords] for y in ast.walk(arg) if isinstance(y, ast.Name)}
                        if {wname, gname} <= argn:
                            together = x
                            break
                    if isinstance(x, ast.Tuple) and {wname, gname} <= {y.id for y in ast.walk(x) if isinstance(y, ast.Name)}:
                        together = x
                        break
                if together is not None:
                    r.bad(Finding(rule, f.qualname,
                                  f"`{src_of(a)[:50]}` (line {a.lineno}) sorts the sites of a term and `{src_of(together)[:40]}` (line {together.lineno}) hands them on with the unpermuted operator `{gname}`: "
                                  "for a pair given in descending order the operator's factors land on exchanged sites", where=f"{f.module.relpath}:{a.lineno}", operand=f"{wname}:{gname}"))
        if not any(fd.construct == f.qualname for fd in r.findings):
            r.ok(f.qualname, sample={"function": f.qualname, "term loops": [f"{w}, {g}" for w, g, _ in pairs]}, nontrivial=False)
    r.floor(n, floor, "loops over (sites, operator) terms / site parameters handed on in the local-expectation modules")
    return r


def rule_gauge_fuse_total(ctx):
    r = RuleResult(
        "gauge-fuse-total",
        "a routine that replaces the per-index gauges of a group of indices by one combined gauge (it pops them from `gauges` while "
        "iterating over the group) takes exactly one factor per index: an index without an entry contributes the identity gauge of its "
        "size — dropping it (`pop(ix, None)` guarded by `is not None` without a contributing else arm, or a filter in the comprehension) "
        "leaves a combined gauge smaller than the fused bond",
    )
    n = 0
    for f in ctx.prog.all_functions(nested=False):
        if f.is_alias or isinstance(f.node, ast.Lambda) or not f.module.name.startswith("quimb.tensor") or "gauges" not in f.params:
            continue
        pops = [c for c in _own_walk(f.node) if isinstance(c, ast.Call) and isinstance(c.func, ast.Attribute) and c.func.attr == "pop"
                and isinstance(c.func.value, ast.Name) and c.func.value.id == "gauges" and c.args and isinstance(c.args[0], ast.Name)]
        if not pops:
            continue
        parents = {}
        for x in _own_walk(f.node):
            for ch in ast.iter_child_nodes(x):
                parents[ch] = x
        for c in pops:
            key = c.args[0].id
            # the iteration that binds the key
            node, it = c, None
            while node in parents:
                node = parents[node]
                if isinstance(node, (ast.ListComp, ast.GeneratorExp)):
                    g = next((g for g in node.generators if isinstance(g.target, ast.Name) and g.target.id == key), None)
                    if g is not None:
                        it = (node, g)
                        break
                if isinstance(node, ast.For) and isinstance(node.target, ast.Name) and node.target.id == key:
                    it = (node, None)
                    break
            if it is None:
                continue
            loop, gen = it
            # only groups that are *combined* into one stored gauge
            stores = [a for a in _own_walk(f.node) if isinstance(a, ast.Assign) and any(isinstance(t, ast.Subscript) and isinstance(t.value, ast.Name) and t.value.id == "gauges" for t in a.targets)]
            if not stores:
                continue
            n += 1
            q = f"{f.qualname}:pop({key})"
            dropped = None
            if gen is not None:
                if gen.ifs:
                    dropped = f"the comprehension filters the group (`if {src_of(gen.ifs[0])[:30]}`)"
                else:
                    elt = loop.elt
                    if isinstance(elt, ast.IfExp) and (isinstance(elt.orelse, ast.Constant) and elt.orelse.value is None):
                        dropped = "the else arm of the element is None"
                    if len(c.args) > 1 and isinstance(c.args[1], ast.Constant) and c.args[1].value is None:
                        dropped = "missing entries become None"
            else:
                has_default_none = len(c.args) > 1 and isinstance(c.args[1], ast.Constant) and c.args[1].value is None
                if has_default_none:
                    # the popped value: tested against None with no contributing else arm?
                    tgt = parents.get(c)
                    pname = tgt.targets[0].id if isinstance(tgt, ast.Assign) and isinstance(tgt.targets[0], ast.Name) else None
                    for st in ast.walk(loop):
                        if isinstance(st, ast.If) and pname and any(isinstance(y, ast.Name) and y.id == pname for y in ast.walk(st.test)) \
                                and any(isinstance(y, ast.Constant) and y.value is None for y in ast.walk(st.test)):
                            if not st.orelse:
                                dropped = f"`if {src_of(st.test)[:30]}` has no else arm: an index without a gauge contributes nothing"
                # a membership guard without else
                for st in ast.walk(loop):
                    if isinstance(st, ast.If) and not st.orelse and any(y is c for y in ast.walk(st)) and isinstance(st.test, ast.Compare) \
                            and isinstance(st.test.ops[0], ast.In) and isinstance(st.test.left, ast.Name) and st.test.left.id == key:
                        dropped = f"`if {src_of(st.test)[:30]}` has no else arm: an index without a gauge contributes nothing"
            if dropped:
                r.bad(Finding("gauge-fuse-total", f.qualname,
                              f"the gauges of the group iterated by `{key}` are combined into one stored gauge, but {dropped}: the combined gauge is smaller than the fused bond "
                              "whenever one index of the group has no entry", where=f"{f.module.relpath}:{c.lineno}", operand=f"pop:{key}"))
            else:
                r.ok(q, sample={"function": f.qualname, "group key": key, "one factor per index": True})
    r.floor(n, 1, "gauge groups combined into one gauge")
    return r
