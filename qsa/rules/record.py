"""C08: the canonical-form record ``info["cur_orthog"]`` is a typestate owned
by one network object.

record-threaded         an RA (record-aware) function passes its record to every
                        RA callee it invokes on the tracked network
record-follows-object   the caller's record is handed only to calls on the
                        receiver itself or on a copy that is returned on every
                        later exit — else it must be forked first
record-after-structure  a structural change of the tracked network after the
                        last record update needs a new store before the object
                        and record are handed back
absorb-keyed            record stores keyed on `absorb` name the site that
                        received the singular values
"""

import ast
import re

from ..framework import RuleResult, Finding
from ..model import dotted, src_of, const_value
from .. import AnalysisError

MODS = ("quimb.tensor.tn1d.core",)
CLIENT_MODS = ("quimb.tensor.circuit.mps",)

# structural changes that can invalidate a record
STRUCT_METHODS = {
    "contract_tags_", "contract_", "contract_ind", "gate_", "gate_split_", "gate_inds_", "gate_with_op_lazy_",
    "gate_inds_with_tn_", "partition", "fuse_multibonds_", "compress", "compress_", "left_compress", "right_compress",
    "add_tensor", "pop_tensor",
}
# centre-moving routines that do not know about records
SWEEPERS = {
    "left_canonicalize_", "right_canonicalize_", "left_canonize", "right_canonize", "shift_orthogonality_center",
    "canonize_cyclic", "left_canonize_site", "right_canonize_site", "left_compress_site", "right_compress_site",
    "normalize_", "left_canonicalize", "right_canonicalize",
}


def _is_ra(f):
    if isinstance(f.node, ast.Lambda) or f.is_alias:
        return False
    if "convert_cur_orthog" in f.decorators:
        return True
    if "info" in f.params or "cur_orthog" in f.params:
        return any(isinstance(n, ast.Constant) and n.value == "cur_orthog" for n in ast.walk(f.node)) or any(
            isinstance(n, ast.keyword) and n.arg == "info" for n in ast.walk(f.node))
    return False


def ra_functions(ctx):
    out = []
    for mn in MODS:
        m = ctx.prog.module(mn)
        for f in m.all_functions:
            if f.parent is None and _is_ra(f):
                out.append(f)
    return out


def _ra_names(funcs):
    names = set()
    for f in funcs:
        names.add(f.name)
        names.add(f.name + "_")
    names.discard("parse_cur_orthog")
    names.discard("parse_cur_orthog_")
    # direct record consumers that exist only as aliases
    names |= {"canonize"}
    return names


class _FnView:
    """Statement-order view of one RA function."""

    def __init__(self, f):
        self.f = f
        self.node = f.node
        self.subject = "self" if f.cls is not None else (f.posparams[0] if f.posparams else None)
        # classify locals: alias (same object when inplace), copy
        self.alias = {self.subject: "self"} if self.subject else {}
        for n in ast.walk(self.node):
            if isinstance(n, ast.Assign) and len(n.targets) == 1 and isinstance(n.targets[0], ast.Name):
                t = n.targets[0].id
                v = n.value
                s = self.subject
                if isinstance(v, ast.IfExp) and src_of(v.test) == "inplace" and src_of(v.body) == s and src_of(v.orelse) == f"{s}.copy()":
                    self.alias[t] = "inplace-alias"
                elif src_of(v) == f"{s}.copy()":
                    self.alias[t] = "copy"
                elif src_of(v) == s:
                    self.alias[t] = "self"
        # statement form:  if inplace: x = self / else: x = self.copy()
        for n in ast.walk(self.node):
            if isinstance(n, ast.If) and src_of(n.test) == "inplace":
                a = [x for x in n.body if isinstance(x, ast.Assign) and isinstance(x.targets[0], ast.Name) and src_of(x.value) == self.subject]
                b = [x for x in n.orelse if isinstance(x, ast.Assign) and isinstance(x.targets[0], ast.Name) and src_of(x.value) == f"{self.subject}.copy()"]
                if a and b and a[0].targets[0].id == b[0].targets[0].id:
                    self.alias[a[0].targets[0].id] = "inplace-alias"

    def forks(self):
        """Line numbers where the record is forked:  info = info.copy() /
        dict(info) / {} ... (statement-form aware: only on the non-inplace
        branch is enough for the copy)."""
        out = []
        toplevel = set(id(x) for x in self.node.body)
        for n in ast.walk(self.node):
            if isinstance(n, ast.Assign) and any(isinstance(t, ast.Name) and t.id == "info" for t in n.targets):
                s = src_of(n.value).replace(" ", "")
                copies = s in ("info.copy()", "dict(info)", "{**info}") or s.startswith("info.copy()if") or s.startswith("dict(info)if") \
                    or s.endswith("elseinfo.copy()") or s.endswith("elsedict(info)")
                fresh = s in ("{}", "dict()") and id(n) in toplevel
                if copies or fresh:
                    out.append(n.lineno)
        return out

    def returns(self):
        out = []
        for n in _own(self.node):
            if isinstance(n, ast.Return):
                out.append(n)
            elif isinstance(n, ast.Expr) and isinstance(n.value, (ast.Yield, ast.YieldFrom)):
                out.append(n)
            elif isinstance(n, ast.Assign) and isinstance(n.value, (ast.Yield, ast.YieldFrom)):
                out.append(n)
        return sorted(out, key=lambda x: x.lineno)


def _own(fnode):
    stack = list(ast.iter_child_nodes(fnode))
    while stack:
        n = stack.pop()
        yield n
        if isinstance(n, (ast.FunctionDef, ast.AsyncFunctionDef, ast.Lambda, ast.ClassDef)):
            continue
        stack.extend(ast.iter_child_nodes(n))


def _names_in(node):
    """Names handed back *as objects* by an exit value: the value itself or
    an element of a returned tuple/list (not receivers of calls inside it)."""
    if node is None:
        return set()
    if isinstance(node, ast.Name):
        return {node.id}
    if isinstance(node, (ast.Tuple, ast.List)):
        out = set()
        for e in node.elts:
            out |= _names_in(e)
        return out
    if isinstance(node, ast.IfExp):
        return _names_in(node.body) & _names_in(node.orelse)
    return set()


def _ret_value(r):
    if isinstance(r, ast.Return):
        return r.value
    v = r.value
    return v.value if isinstance(v, (ast.Yield, ast.YieldFrom)) else None


def rule_record(ctx, only=None, min_handoffs=15):
    r_thread = RuleResult(
        "record-threaded",
        "inside every record-aware function (decorated with @convert_cur_orthog, or taking info/cur_orthog and "
        "touching the record) each call of a record-aware method on the receiver, an alias or a copy of it passes "
        "a record (info=...)",
    )
    r_follow = RuleResult(
        "record-follows-object",
        "the caller's record may be handed to a record-aware call on an object O only if O is the receiver (or an "
        "in-place alias) or a copy that every later normal exit returns; handing it to a copy that is dropped "
        "requires the record to have been forked first (info = info.copy())",
    )
    r_struct = RuleResult(
        "record-after-structure",
        "after the last record update on the way to an exit, a structural change of the tracked network "
        "(contraction ^= / contract_tags_, |= , change of _L, gate application that is not record-aware) requires "
        "a new store to info['cur_orthog'] before the network is handed back",
    )
    funcs = ra_functions(ctx)
    r_thread.floor(len(funcs), 20, "record-aware functions")
    names = _ra_names(funcs)
    # the decorator itself must hand the parsed record to the wrapped function
    deco = ctx.prog.func("quimb.tensor.tn1d.core", "convert_cur_orthog")
    calls = [c_ for c_ in ast.walk(deco.node) if isinstance(c_, ast.Call) and isinstance(c_.func, ast.Name) and c_.func.id == deco.posparams[0]]
    parsed = any(isinstance(a_, ast.Assign) and isinstance(a_.value, ast.Call) and dotted(a_.value.func) == "parse_cur_orthog" and src_of(a_.targets[0]) == "info" for a_ in ast.walk(deco.node))
    if calls and parsed and all(any(k.arg == "info" and src_of(k.value) == "info" for k in c_.keywords) for c_ in calls):
        r_thread.ok("convert_cur_orthog", sample={"decorator": "info = parse_cur_orthog(cur_orthog, info); fn(self, *args, info=info, **kwargs)"})
    else:
        r_thread.bad(Finding("record-threaded", "convert_cur_orthog", "the decorator does not pass the parsed record (info=info) to the wrapped method",
                             where=f"{deco.module.relpath}:{deco.lineno}", operand="decorator"))
    # RA methods that can return a copy (they have an `inplace` parameter);
    # all other RA methods are queries that re-gauge their receiver in place
    copying = {f.name for f in funcs if "inplace" in f.params}
    for f in funcs:
        if f.name == "parse_cur_orthog":
            continue
        if only is not None and not only(f):
            continue
        v = _FnView(f)
        where = f"{f.module.relpath}:{f.lineno}"
        q = f.qualname
        has_inplace = "inplace" in f.params
        forks = v.forks()
        rets = v.returns()
        tracked = dict(v.alias)
        # names bound from non-inplace RA calls on the subject are copies
        calls = []
        for n in _own(f.node):
            if isinstance(n, ast.Call) and isinstance(n.func, ast.Attribute) and n.func.attr in names:
                recv = n.func.value
                if isinstance(recv, ast.Name) and recv.id in tracked or isinstance(recv, ast.Call) and src_of(recv.func) == "super":
                    calls.append(n)
        calls.sort(key=lambda c: c.lineno)
        for n in _own(f.node):
            if isinstance(n, ast.Assign) and len(n.targets) == 1 and isinstance(n.targets[0], ast.Name) and n.value in calls:
                c = n.value
                kws = {k.arg: k.value for k in c.keywords if k.arg}
                inpl = c.func.attr.endswith("_") or (const_value(kws.get("inplace"), None) is True) or (
                    "inplace" in kws and src_of(kws["inplace"]) == "inplace") or c.func.attr not in copying
                if not inpl:
                    tracked[n.targets[0].id] = "copy"
        for c in calls:
            kws = {k.arg: k.value for k in c.keywords if k.arg}
            has_star = any(k.arg is None for k in c.keywords)
            recv = c.func.value.id if isinstance(c.func.value, ast.Name) else "self"
            callname = f"{src_of(c.func)}"
            # ---- threaded
            if "info" in kws or "cur_orthog" in kws:
                r_thread.ok(f"{q}:{callname}", sample={"function": q, "call": callname, "record": src_of(kws.get("info") or kws["cur_orthog"])})
            elif has_star and False:
                r_thread.skip(f"{q}:{callname}", "record may arrive through **kwargs")
            else:
                # a bare call that does not bind/return a result and moves the centre
                r_thread.bad(Finding("record-threaded", q,
                                     f"record-aware call {callname}(...) (line {c.lineno}) does not receive the caller's record",
                                     where=where, operand=callname))
                continue
            if "info" not in kws or src_of(kws["info"]) != "info":
                continue
            # ---- follows-object
            kind = tracked.get(recv, "self")
            inpl_call = c.func.attr.endswith("_") or (const_value(kws.get("inplace"), None) is True) or c.func.attr not in copying
            fwd_inplace = "inplace" in kws and src_of(kws["inplace"]) == "inplace"
            forked_before = any(ln < c.lineno for ln in forks)
            # which object does the record describe after the call?
            result_name = None
            for n in _own(f.node):
                if isinstance(n, ast.Assign) and n.value is c and isinstance(n.targets[0], ast.Name):
                    result_name = n.targets[0].id
            returned_directly = any(isinstance(rt, ast.Return) and rt.value is c for rt in rets)
            described = None  # name of the object the record describes, or "self"
            if inpl_call:
                described = recv
            elif fwd_inplace or returned_directly:
                # delegation with the caller's flag / direct return: callee's contract
                r_follow.ok(f"{q}:{callname}", sample={"function": q, "call": callname, "delegated": True}, nontrivial=False)
                continue
            else:
                described = result_name  # a fresh copy (None when dropped at once)
                if described is None:
                    # result not bound: if it is used inside a returned expression fine, else dropped
                    used_in_return = any(any(x is c for x in ast.walk(rt)) for rt in rets)
                    if used_in_return:
                        r_follow.ok(f"{q}:{callname}", nontrivial=False)
                        continue
            dkind = "copy" if (described is None or (described not in tracked) or tracked.get(described) == "copy") else tracked[described]
            if described is not None and described in tracked and tracked[described] in ("self",):
                r_follow.ok(f"{q}:{callname}", sample={"function": q, "call": callname, "object": "receiver itself"})
                continue
            if forked_before:
                r_follow.ok(f"{q}:{callname}", sample={"function": q, "call": callname, "record": "forked first"})
                continue
            # copy or inplace-alias: every later exit must return it
            later = [rt for rt in rets if rt.lineno > c.lineno]
            if not later and not rets:
                later = []
            missing = []
            for rt in later:
                val = _ret_value(rt)
                if described is None or described not in _names_in(val):
                    missing.append(rt)
            if dkind == "inplace-alias" and not has_inplace:
                missing = []
            if not later:
                # falls off the end returning None
                if dkind == "copy":
                    missing = [c]
            if missing:
                cond = " when inplace=False" if dkind == "inplace-alias" else ""
                rt = missing[0]
                r_follow.bad(Finding(
                    "record-follows-object", q,
                    f"the caller's record is handed to {callname}(...) (line {c.lineno}) on "
                    f"{'a copy' if dkind == 'copy' else 'the working copy'} `{described or '<dropped>'}`{cond}, but the exit at line "
                    f"{rt.lineno} does not return that object: the record then describes a discarded state",
                    where=where, operand=f"{callname}@{_exit_text(rt)}",
                ))
            else:
                r_follow.ok(f"{q}:{callname}", sample={"function": q, "call": callname, "object": described, "returned": "on every later exit"})
        # ---- record-after-structure
        updates = sorted(
            [c.lineno for c in calls if any(k.arg in ("info", "cur_orthog") for k in c.keywords)]
            + [n.lineno for n in _own(f.node) if isinstance(n, ast.Assign) and any(
                isinstance(t, ast.Subscript) and const_value(t.slice, None) == "cur_orthog" for t in n.targets)]
        )
        events = []
        own_parts = set()
        for n in _own(f.node):
            if isinstance(n, ast.Assign) and isinstance(n.value, ast.Call) and isinstance(n.value.func, ast.Attribute) and n.value.func.attr == "partition" \
                    and isinstance(n.value.func.value, ast.Name) and n.value.func.value.id in tracked:
                for t in n.targets:
                    own_parts |= {x.id for x in ast.walk(t) if isinstance(x, ast.Name)}
        for n in _own(f.node):
            if isinstance(n, ast.AugAssign) and isinstance(n.target, ast.Name) and n.target.id in tracked and isinstance(n.op, (ast.BitXor, ast.BitOr, ast.RShift, ast.BitAnd)):
                if isinstance(n.op, (ast.BitOr, ast.BitAnd)) and isinstance(n.value, ast.Name) and n.value.id in own_parts:
                    continue  # re-attaching a part split off from the same network
                events.append((n.lineno, f"{n.target.id} {_opname(n.op)}= ...", n.target.id))
            if isinstance(n, ast.Assign) and any(isinstance(t, ast.Attribute) and t.attr == "_L" and isinstance(t.value, ast.Name) and t.value.id in tracked for t in n.targets):
                events.append((n.lineno, src_of(n)[:40], n.targets[0].value.id))
            if isinstance(n, ast.Call) and isinstance(n.func, ast.Attribute) and isinstance(n.func.value, ast.Name) and n.func.value.id in tracked:
                if n.func.attr in STRUCT_METHODS and n.func.attr not in names:
                    events.append((n.lineno, f"{src_of(n.func)}(...)", n.func.value.id))
            if isinstance(n, ast.Call) and dotted(n.func) and dotted(n.func).endswith(".gate") and n.args and isinstance(n.args[0], ast.Name) and n.args[0].id in tracked and dotted(n.func).split(".")[0] not in tracked:
                # explicit-class generic gate:  TensorNetworkGenVector.gate(tn, ...)
                events.append((n.lineno, f"{dotted(n.func)}({n.args[0].id}, ...)", n.args[0].id))
        reported_exits = set()
        for line, text, obj in sorted(events):
            # next update after the event
            nxt = min([u for u in updates if u > line], default=None)
            # exits between the event and that update which hand the object back
            bad_exit = None
            for rt in rets:
                if rt.lineno >= line and (nxt is None or rt.lineno < nxt):
                    val = _ret_value(rt)
                    if obj in _names_in(val) or any(isinstance(x, ast.Call) and x.lineno == line for x in ast.walk(rt)):
                        if _same_path(f.node, line, rt.lineno):
                            bad_exit = rt
                            break
            if bad_exit is not None and bad_exit.lineno in reported_exits:
                continue
            if bad_exit is not None:
                reported_exits.add(bad_exit.lineno)
                r_struct.bad(Finding(
                    "record-after-structure", q,
                    f"structural change `{text}` (line {line}) is followed by the exit at line {bad_exit.lineno} that hands "
                    f"`{obj}` back without a new store to info['cur_orthog']",
                    where=where, operand=" ".join(re.sub(r"\b%s\b" % re.escape(obj), "<net>", text).split())[:50],
                ))
            else:
                r_struct.ok(f"{q}:{text}", sample={"function": q, "event": text, "followed by": "record store" if nxt else "no hand-back"})
    r_follow.floor(r_follow.obligations, min_handoffs, "record hand-offs")
    return [r_thread, r_follow, r_struct]


def _opname(op):
    return {ast.BitXor: "^", ast.BitOr: "|", ast.RShift: ">>", ast.BitAnd: "&"}[type(op)]


def _exit_text(rt):
    if isinstance(rt, ast.Return):
        return "return " + (src_of(rt.value)[:30] if rt.value is not None else "")
    if isinstance(rt, ast.Call):
        return "end"
    return "yield"


def _same_path(fnode, line_a, line_b):
    """False when the two lines sit in different arms of one if/else (so no
    path runs through both)."""
    for n in ast.walk(fnode):
        if isinstance(n, ast.If) and n.orelse:
            def span(stmts):
                return (stmts[0].lineno, max(getattr(s, "end_lineno", s.lineno) for s in stmts))
            b0, b1 = span(n.body)
            e0, e1 = span(n.orelse)
            in_body = lambda l: b0 <= l <= b1
            in_else = lambda l: e0 <= l <= e1
            if (in_body(line_a) and in_else(line_b)) or (in_else(line_a) and in_body(line_b)):
                return False
    return True


# ------------------------------------------------------------- absorb-keyed
def _record_stores(stmts):
    """[(Assign, value)] stores info["cur_orthog"] = value directly in the statement list."""
    out = []
    for st in stmts:
        if isinstance(st, ast.Assign) and isinstance(st.targets[0], ast.Subscript) and const_value(st.targets[0].slice, None) == "cur_orthog":
            out.append(st)
    return out


def _pair_of(value):
    if isinstance(value, ast.Tuple) and len(value.elts) == 2:
        return src_of(value.elts[0]), src_of(value.elts[1])
    return None


def rule_absorb_keyed(ctx):
    r = RuleResult(
        "absorb-keyed",
        "record stores that depend on where singular values were absorbed are keyed consistently (decided by def-use, not by "
        "text): in swap_sites_with_compress the option consulted is read from the same dict that is passed to the split, and "
        "under 'left' / 'right' the recorded centre is the site whose tensor receives the first / second split factor; in "
        "gate_with_auto_swap the site that absorbs the singular values (first or second site of the gate's `where` according "
        "to `absorb`) is the same in both orientations and is the recorded centre; in gate_with_submpo the store keyed on "
        "sweep_reverse reads the dict passed to the compressor and records the two different ends of the compressed range",
    )
    # ---- swap_sites_with_compress
    f = ctx.prog.func("quimb.tensor.tn1d.core", "TensorNetwork1DFlat.swap_sites_with_compress")
    if f is None:
        raise AnalysisError("swap_sites_with_compress not found")
    where = f"{f.module.relpath}:{f.lineno}"
    split = None
    for a in ast.walk(f.node):
        if isinstance(a, ast.Assign) and isinstance(a.value, ast.Call) and isinstance(a.value.func, ast.Attribute) and a.value.func.attr == "split" \
                and isinstance(a.targets[0], ast.Tuple) and len(a.targets[0].elts) == 2:
            stars = [src_of(k.value) for k in a.value.keywords if k.arg is None]
            split = ([e.id for e in a.targets[0].elts if isinstance(e, ast.Name)], stars)
    if split is None or len(split[0]) != 2:
        raise AnalysisError("swap_sites_with_compress: two-factor split not found")
    (r0, r1), stars = split
    # site whose tensor receives each factor:  T.modify(data=<factor>.data) ; Ti, Tj = tn[i], tn[j]
    def site_of(res):
        for c in ast.walk(f.node):
            if isinstance(c, ast.Call) and isinstance(c.func, ast.Attribute) and c.func.attr == "modify" and isinstance(c.func.value, ast.Name):
                for k in c.keywords:
                    if k.arg == "data" and any(isinstance(x, ast.Name) and x.id == res for x in ast.walk(k.value)):
                        tname = c.func.value.id
                        for a in ast.walk(f.node):
                            if isinstance(a, ast.Assign):
                                t, v = a.targets[0], a.value
                                if isinstance(t, ast.Tuple) and isinstance(v, ast.Tuple) and len(t.elts) == len(v.elts):
                                    for te, ve in zip(t.elts, v.elts):
                                        if isinstance(te, ast.Name) and te.id == tname and isinstance(ve, ast.Subscript):
                                            return src_of(ve.slice)
                                elif isinstance(t, ast.Name) and t.id == tname and isinstance(v, ast.Subscript):
                                    return src_of(v.slice)
        return None
    s0, s1 = site_of(r0), site_of(r1)
    if s0 is None or s1 is None:
        raise AnalysisError("swap_sites_with_compress: cannot relate the split factors to sites")
    # the consulted option
    opt = None
    for a in ast.walk(f.node):
        if isinstance(a, ast.Assign) and isinstance(a.targets[0], ast.Name) and isinstance(a.value, ast.Call) and isinstance(a.value.func, ast.Attribute) \
                and a.value.func.attr == "get" and a.value.args and const_value(a.value.args[0], None) == "absorb":
            opt = (a.targets[0].id, src_of(a.value.func.value))
    got = {}
    if opt is not None:
        for n in ast.walk(f.node):
            if isinstance(n, ast.If) and isinstance(n.test, ast.Compare) and isinstance(n.test.left, ast.Name) and n.test.left.id == opt[0]:
                lit = const_value(n.test.comparators[0], None)
                for st in _record_stores(n.body):
                    got[lit] = _pair_of(st.value)
    if opt is None:
        r.bad(Finding("absorb-keyed", f.qualname, "the record is not keyed on the `absorb` option of the split", where=where, operand="option"))
    elif opt[1] not in stars:
        r.bad(Finding("absorb-keyed", f.qualname, f"`absorb` is read from `{opt[1]}` but the split receives **{stars}: the record follows an option the split did not use", where=where, operand="option-source"))
    else:
        r.ok("swap_sites_with_compress[same options]", sample={"option read from": opt[1], "split receives": stars})
    if got.get("left") == (s0, s0) and got.get("right") == (s1, s1):
        r.ok("swap_sites_with_compress[absorb]", sample={"left": got.get("left"), "right": got.get("right"), "first factor ->": s0, "second factor ->": s1})
    else:
        r.bad(Finding("absorb-keyed", f.qualname,
                      f"record stores keyed on absorb are {got}; the first split factor is written to site `{s0}` and the second to `{s1}`, so "
                      f"'left' must record ({s0}, {s0}) and 'right' ({s1}, {s1})", where=where))
    # the chain on absorb is total: any other mode (weights shared between / kept apart from the two tensors) leaves neither site an
    # isometry, so the record has to be widened to both sites — an if/elif chain without a recording else keeps the single site that
    # was recorded before the split
    if opt is not None:
        chain_total = False
        for n in ast.walk(f.node):
            if isinstance(n, ast.If) and isinstance(n.test, ast.Compare) and isinstance(n.test.left, ast.Name) and n.test.left.id == opt[0] and _record_stores(n.body):
                cur = n
                while len(cur.orelse) == 1 and isinstance(cur.orelse[0], ast.If):
                    cur = cur.orelse[0]
                tail = _record_stores(cur.orelse) if cur.orelse else []
                if tail:
                    pair = _pair_of(tail[0].value)
                    if pair and set(pair) == {s0, s1}:
                        chain_total = True
                    elif pair:
                        r.bad(Finding("absorb-keyed", f.qualname, f"for the remaining absorb modes the record stores {pair}; both swapped sites ({s0}, {s1}) carry weights there",
                                      where=where, operand="else-range"))
                        chain_total = True
        if chain_total:
            r.ok("swap_sites_with_compress[other modes]", sample={"other absorb modes": f"record widened to ({s0}, {s1})"})
        else:
            r.bad(Finding("absorb-keyed", f.qualname,
                          "the record is only written for absorb == 'left' / 'right': with the default mode (weights on both tensors) it keeps the single site recorded "
                          f"before the split although neither `{s0}` nor `{s1}` is an isometry afterwards", where=where, operand="other-modes"))
    # ---- gate_with_submpo
    g = ctx.prog.func("quimb.tensor.tn1d.core", "MatrixProductState.gate_with_submpo")
    if g is None:
        raise AnalysisError("gate_with_submpo not found")
    where = f"{g.module.relpath}:{g.lineno}"
    comp = [c for c in ast.walk(g.node) if isinstance(c, ast.Call) and (dotted(c.func) or "").split(".")[-1] == "tensor_network_1d_compress"]
    comp_stars = {src_of(k.value) for c in comp for k in c.keywords if k.arg is None}
    keyed = None
    for n in ast.walk(g.node):
        if isinstance(n, ast.If):
            gets = [c for c in ast.walk(n.test) if isinstance(c, ast.Call) and isinstance(c.func, ast.Attribute) and c.func.attr == "get" and c.args and const_value(c.args[0], None) == "sweep_reverse"]
            if gets and _record_stores(n.body) and _record_stores(n.orelse):
                keyed = (src_of(gets[0].func.value), _pair_of(_record_stores(n.body)[0].value), _pair_of(_record_stores(n.orelse)[0].value))
    if keyed is None:
        raise AnalysisError("gate_with_submpo: record store keyed on sweep_reverse not found")
    src_dict, rev, fwd = keyed
    ends = None
    for a in ast.walk(g.node):
        if isinstance(a, ast.Assign) and isinstance(a.targets[0], ast.Tuple) and isinstance(a.value, ast.Tuple) and len(a.value.elts) == 2 \
                and all(isinstance(v, ast.Call) and getattr(v.func, "id", None) in ("min", "max") for v in a.value.elts):
            ends = {getattr(v.func, "id"): t.id for t, v in zip(a.targets[0].elts, a.value.elts) if isinstance(t, ast.Name)}
    problems = []
    if src_dict not in comp_stars:
        problems.append(f"sweep_reverse is read from `{src_dict}` but the compressor receives **{sorted(comp_stars)}")
    if not (rev and fwd and rev[0] == rev[1] and fwd[0] == fwd[1] and rev != fwd):
        problems.append(f"the two orientations record {rev} / {fwd}; expected the two different ends of the range, each as (x, x)")
    elif ends and not (fwd[0] == ends.get("min") and rev[0] == ends.get("max")):
        problems.append(f"default sweep must leave the centre at the first site `{ends.get('min')}` and the reversed one at the last `{ends.get('max')}`; stores are {fwd} / {rev}")
    if problems:
        for pr in problems:
            r.bad(Finding("absorb-keyed", g.qualname, pr, where=where, operand=pr[:30]))
    else:
        r.ok("gate_with_submpo[sweep_reverse]", sample={"sweep_reverse": rev, "default": fwd, "options": f"same {src_dict} passed to the compressor"})
    # ---- gate_with_auto_swap
    h = ctx.prog.func("quimb.tensor.tn1d.core", "MatrixProductState.gate_with_auto_swap")
    if h is None:
        raise AnalysisError("gate_with_auto_swap not found")
    where = f"{h.module.relpath}:{h.lineno}"
    gs = [c for c in ast.walk(h.node) if isinstance(c, ast.Call) and isinstance(c.func, ast.Attribute) and c.func.attr in ("gate_split_", "gate_split")]
    if not gs:
        raise AnalysisError("gate_with_auto_swap: no gate_split_ call found")
    parents = {}
    for p_ in ast.walk(h.node):
        for c_ in ast.iter_child_nodes(p_):
            parents[c_] = p_

    def block_of(node):
        q = node
        while q in parents:
            par = parents[q]
            for fld in ("body", "orelse", "finalbody"):
                lst = getattr(par, fld, None)
                if isinstance(lst, list) and q in lst:
                    return lst, lst.index(q)
            q = par
        return None, None

    def values_of(name_or_expr):
        """possible (where-pair | absorb-literal) values: a literal, or per-branch assignments of a local."""
        if not isinstance(name_or_expr, ast.Name):
            return [name_or_expr]
        out = []
        for n in ast.walk(h.node):
            if isinstance(n, ast.Assign) and isinstance(n.targets[0], ast.Name) and n.targets[0].id == name_or_expr.id:
                out.append(n.value)
        return out

    for call in gs:
        kws = {k.arg: k.value for k in call.keywords if k.arg}
        wv, av = kws.get("where", call.args[1] if len(call.args) > 1 else None), kws.get("absorb")
        construct = f"gate_with_auto_swap[gate_split_@{src_of(wv) if wv is not None else '?'}]"
        cwhere = f"{h.module.relpath}:{call.lineno}"
        # record stored after this call in the same block
        blk, pos = block_of(call)
        post = [st for st in (blk[pos + 1:] if blk else []) if isinstance(st, ast.Assign) and isinstance(st.targets[0], ast.Subscript) and const_value(st.targets[0].slice, None) == "cur_orthog"]
        rec = post[0].value if post else None
        if rec is not None and isinstance(rec, ast.Constant) and rec.value is None:
            r.ok(construct, sample={"gate_split_ on": src_of(wv), "record": "None (no claim)"}, nontrivial=False)
            continue
        recp = _pair_of(rec) if rec is not None else None
        # enumerate the orientations: where / absorb assigned together in the two arms of one `if`
        combos = []
        if isinstance(wv, ast.Name) or isinstance(av, ast.Name):
            for n in ast.walk(h.node):
                if isinstance(n, ast.If):
                    arms = []
                    for arm in (n.body, n.orelse):
                        wdef = [st.value for st in arm if isinstance(st, ast.Assign) and isinstance(st.targets[0], ast.Name) and isinstance(wv, ast.Name) and st.targets[0].id == wv.id]
                        adef = [st.value for st in arm if isinstance(st, ast.Assign) and isinstance(st.targets[0], ast.Name) and isinstance(av, ast.Name) and st.targets[0].id == av.id]
                        if wdef or adef:
                            arms.append((wdef[-1] if wdef else wv, adef[-1] if adef else av))
                    if len(arms) == 2:
                        combos = arms
        if not combos:
            combos = [(wv, av)]
        centres = []
        for wd, ad in combos:
            pair = _pair_of(wd) if wd is not None else None
            side = const_value(ad, None) if ad is not None else None
            if pair is None or side not in ("left", "right"):
                centres.append(None)
            else:
                centres.append(pair[0] if side == "left" else pair[1])
        if None in centres:
            r.skip(construct, f"where={src_of(wv) if wv is not None else None} / absorb={src_of(av) if av is not None else None} not resolved to (pair, side) in every orientation")
            continue
        if len(set(centres)) == 1 and recp == (centres[0], centres[0]):
            r.ok(construct, sample={"absorbing site (every orientation)": centres[0], "record": recp})
        else:
            r.bad(Finding("absorb-keyed", h.qualname,
                          f"the site that absorbs the singular values is {centres} in the possible orientations and the record stored after the split is {recp}: "
                          "they must all name the same site (otherwise a non-isometric tensor lies inside the recorded canonical range)", where=cwhere, operand="auto-swap"))
    return r


# ------------------------------------------------------------------ clients
def rule_clients(ctx):
    r = RuleResult(
        "record-clients",
        "the MPS circuit simulators thread one record: every record-aware MPS call made by CircuitMPS and "
        "subclasses receives self.gate_opts['info'] (directly or through **self.gate_opts), and direct stores to "
        "it come after the compression they describe; copies of a circuit fork the record",
    )
    m = ctx.prog.module("quimb.tensor.circuit.mps")
    funcs = ra_functions(ctx)
    names = _ra_names(funcs) - {"sample", "sample_", "sample_configuration", "measure", "measure_"}
    n = 0
    for f in m.all_functions:
        if f.parent is not None or isinstance(f.node, ast.Lambda) or f.cls is None:
            continue
        where = f"{m.relpath}:{f.lineno}"
        for c in ast.walk(f.node):
            if isinstance(c, ast.Call) and isinstance(c.func, ast.Attribute) and c.func.attr in names:
                kws = {k.arg: src_of(k.value) for k in c.keywords if k.arg}
                stars = [src_of(k.value) for k in c.keywords if k.arg is None]
                n += 1
                # a local that is bound, arm by arm, to the record (with self._psi) or to a fork of it (with a copy)
                iv = next((k.value for k in c.keywords if k.arg == "info"), None)
                if isinstance(iv, ast.Name) and isinstance(c.func.value, ast.Name):
                    rn, inn = c.func.value.id, iv.id
                    paired_ok, seen_arm = True, False
                    for iff in ast.walk(f.node):
                        if not isinstance(iff, ast.If):
                            continue
                        for arm in (iff.body, iff.orelse):
                            pb = [src_of(x.value) for s_ in arm for x in ast.walk(s_) if isinstance(x, ast.Assign) and any(isinstance(t, ast.Name) and t.id == rn for t in x.targets)]
                            ib = [src_of(x.value).replace('"', "'") for s_ in arm for x in ast.walk(s_) if isinstance(x, ast.Assign) and any(isinstance(t, ast.Name) and t.id == inn for t in x.targets)]
                            if not pb and not ib:
                                continue
                            seen_arm = True
                            own_psi = bool(pb) and all(b == "self._psi" for b in pb)
                            raw = bool(ib) and all(b == "self.gate_opts['info']" for b in ib)
                            fork = bool(ib) and all(b in ("self.gate_opts['info'].copy()", "dict(self.gate_opts['info'])") for b in ib)
                            if not ((own_psi and raw) or (pb and not own_psi and fork)):
                                paired_ok = False
                    if seen_arm:
                        if paired_ok:
                            r.ok(f"{f.qualname}:{src_of(c.func)}", sample={"client": f.qualname, "call": src_of(c.func), "record": "raw record with self._psi, forked record with the copy"})
                        else:
                            r.bad(Finding("record-clients", f.qualname,
                                          f"{src_of(c.func)}(...) (line {c.lineno}): the record passed (`{inn}`) is not paired with the object it describes "
                                          f"(raw record with self._psi, forked record with a copy)", where=where, operand=src_of(c.func) + ":pairing"))
                        continue
                if "gate_opts['info']" in kws.get("info", "").replace('"', "'") or any("gate_opts" in s for s in stars):
                    # the simulator's record describes self._psi: it may only be handed to calls on that object
                    recv = c.func.value
                    recv_src = src_of(recv)
                    binds = []
                    if isinstance(recv, ast.Name):
                        binds = [src_of(x.value) for x in ast.walk(f.node) if isinstance(x, ast.Assign) and any(isinstance(t, ast.Name) and t.id == recv.id for t in x.targets)]
                    own = recv_src == "self._psi" or (binds and all(b == "self._psi" for b in binds))
                    if not own:
                        r.bad(Finding("record-clients", f.qualname,
                                      f"hands the simulator's record self.gate_opts['info'] to {src_of(c.func)}(...) (line {c.lineno}) on `{recv_src}`, which can be "
                                      f"a copy of the state ({[b for b in binds if b != 'self._psi'][:2]}): the record then no longer describes self._psi",
                                      where=where, operand=src_of(c.func) + ":copy"))
                        continue
                    r.ok(f"{f.qualname}:{src_of(c.func)}", sample={"client": f.qualname, "call": src_of(c.func), "record": kws.get("info") or stars})
                else:
                    r.bad(Finding("record-clients", f.qualname,
                                  f"record-aware call {src_of(c.func)}(...) does not receive the simulator's record (info={kws.get('info')})",
                                  where=where, operand=src_of(c.func)))
        # stores after compression
        stores = [s for s in ast.walk(f.node) if isinstance(s, ast.Assign) and any(isinstance(t, ast.Subscript) and const_value(t.slice, None) == "cur_orthog" for t in s.targets)]
        if stores:
            comp = [c.lineno for c in ast.walk(f.node) if isinstance(c, ast.Call) and "compress" in (dotted(c.func) or src_of(c.func)).split(".")[-1]]
            if comp and min(s.lineno for s in stores) > max(comp):
                r.ok(f"{f.qualname}[store after compress]", sample={"client": f.qualname, "stores": [src_of(s)[:60] for s in stores]})
            else:
                r.bad(Finding("record-clients", f.qualname, "record is stored before / without the compression it describes", where=where, operand="store-order"))
    r.floor(n, 1, "record-aware calls in circuit/mps.py")
    # copy forks the record
    core = ctx.prog.module("quimb.tensor.circuit.core")
    cp = core.classes["CircuitBase"].methods.get("copy")
    mps_cls = m.classes["CircuitMPS"]
    forked = False
    for c in [mps_cls] + mps_cls.all_subclasses() + [core.classes["CircuitBase"]]:
        cm = c.methods.get("copy")
        if cm is not None and not cm.is_alias:
            s = src_of(cm.node)
            if "info" in s and (".copy()" in s or "deepcopy" in s or "tree_map" in s):
                forked = True
    if forked:
        r.ok("Circuit*.copy[info forked]")
    else:
        r.skip("Circuit*.copy[info forked]", "no explicit fork of gate_opts['info'] found in copy()")
    return r


# ----------------------------------------------------------- record consumers
def rule_record_consumers(ctx):
    r = RuleResult(
        "record-consumers",
        "the record is a (min, max) range: a record-aware function that uses it to *skip* canonicalisation (an "
        "early return / shortcut taken under a test on the record) must test both ends — a test on "
        "cur_orthog[0] alone (or [1] alone) accepts a range record whose other end lies beyond the bond",
    )
    funcs = ra_functions(ctx)
    n = 0
    for f in funcs:
        where = f"{f.module.relpath}:{f.lineno}"
        for iff in ast.walk(f.node):
            if not isinstance(iff, ast.If):
                continue
            t = src_of(iff.test).replace(" ", "")
            uses0 = "cur_orthog[0]" in t or "cur_orthog[0]" in t.replace("info['cur_orthog']", "cur_orthog").replace('info["cur_orthog"]', "cur_orthog")
            uses1 = "cur_orthog[1]" in t or "cur_orthog[-1]" in t
            whole = "cur_orthog==" in t or "==cur_orthog" in t
            if not (uses0 or uses1):
                continue
            shortcut = any(isinstance(x, ast.Return) for s_ in iff.body for x in ast.walk(s_)) and not any(
                isinstance(x, ast.Call) and isinstance(x.func, ast.Attribute) and x.func.attr.startswith("canonic") for s_ in iff.body for x in ast.walk(s_))
            n += 1
            if shortcut and (uses0 != uses1) and not whole:
                r.bad(Finding("record-consumers", f.qualname,
                              f"takes a shortcut (returns without canonicalising) under `{src_of(iff.test)[:60]}` (line {iff.lineno}), which looks at one end of the "
                              f"recorded range only", where=where, operand="one-ended"))
            else:
                r.ok(f"{f.qualname}[line {iff.lineno}]", sample={"function": f.qualname, "test": src_of(iff.test)[:60]})
    # the sorting use in compute_local_expectation_canonical is not a shortcut; rule is armed even with zero tests today
    r.ok("record-consumers[armed]", nontrivial=False)
    return r


def rule_record_written(ctx):
    r = RuleResult(
        "record-written",
        "the routines of tn1d/core.py that write the canonical-form record themselves (info['cur_orthog'] = ...) do so on *every* path to a "
        "normal exit that follows their first change of the tensors: must-analysis over the branches of each such routine — a store, or a "
        "call that is handed the record (info=info) after the change, has to be met before every return; raising branches are not paths",
    )
    m = ctx.prog.modules.get("quimb.tensor.tn1d.core")
    if m is None:
        raise AnalysisError("record-written: quimb.tensor.tn1d.core not found")
    n = 0

    def is_store(st):
        return isinstance(st, ast.Assign) and any(isinstance(t, ast.Subscript) and const_value(t.slice, None) == "cur_orthog" for t in st.targets)

    def hands_record(st):
        return any(isinstance(c, ast.Call) and any(k.arg == "info" and isinstance(k.value, ast.Name) for k in c.keywords) for c in ast.walk(st))

    for f in m.all_functions:
        if f.parent is not None or f.is_alias or isinstance(f.node, ast.Lambda) or "info" not in f.params:
            continue
        stores = [x for x in ast.walk(f.node) if is_store(x)]
        # a routine takes part when it stores the record itself, or works on `x = self if inplace else self.copy()` (the writers proper)
        working = {a.targets[0].id for a in ast.walk(f.node) if isinstance(a, ast.Assign) and len(a.targets) == 1 and isinstance(a.targets[0], ast.Name)
                   and isinstance(a.value, ast.IfExp) and isinstance(a.value.body, ast.Name) and a.value.body.id == "self"
                   and isinstance(a.value.orelse, ast.Call) and isinstance(a.value.orelse.func, ast.Attribute) and a.value.orelse.func.attr == "copy"}
        if not stores and not working:
            continue
        n += 1
        bad_returns = []
        # the objects whose canonical form the record describes: receivers of calls that are handed the record
        tracked = {c.func.value.id for c in ast.walk(f.node) if isinstance(c, ast.Call) and isinstance(c.func, ast.Attribute) and isinstance(c.func.value, ast.Name)
                   and any(k.arg == "info" and isinstance(k.value, ast.Name) for k in c.keywords)} | working

        def changes(st):
            """an in-place change of a tracked network that is not itself handed the record (changes of a single tensor — the centre
            being projected / rescaled — leave the canonical form as recorded)"""
            for c in ast.walk(st):
                if isinstance(c, ast.Call) and isinstance(c.func, ast.Attribute) and isinstance(c.func.value, ast.Name) and c.func.value.id in tracked \
                        and c.func.attr.endswith("_") and not any(k.arg == "info" for k in c.keywords):
                    return True
            if isinstance(st, ast.AugAssign) and isinstance(st.target, ast.Name) and st.target.id in tracked:
                return True
            return False

        def run(stmts, done):
            """done: the record is up to date with everything changed so far on this path (True / False); returns the state at the end
            of the block or None if every path left the function"""
            for st in stmts:
                if isinstance(st, ast.Raise):
                    return None
                if isinstance(st, ast.Return):
                    if not done and not (st.value is not None and hands_record(st)):
                        bad_returns.append(st)
                    return None
                if isinstance(st, ast.If):
                    a = run(st.body, done)
                    b = run(st.orelse, done)
                    if a is None and b is None:
                        return None
                    done = (a if a is not None else True) and (b if b is not None else True)
                    continue
                if isinstance(st, (ast.For, ast.While)):
                    a = run(st.body, done)
                    done = done and (a if a is not None else True)
                    continue
                if isinstance(st, ast.With):
                    a = run(st.body, done)
                    if a is None:
                        return None
                    done = a
                    continue
                if isinstance(st, ast.Try):
                    a = run(st.body, done)
                    hs = [run(h.body, done) for h in st.handlers]
                    outs = [x for x in [a] + hs if x is not None]
                    if not outs:
                        return None
                    done = all(outs)
                    continue
                if is_store(st):
                    done = True
                elif hands_record(st):
                    done = True      # the callee keeps the record in step (checked where it is defined)
                elif changes(st):
                    done = False     # an in-place change that the record has not seen yet
            return done

        end = run(f.node.body, True)
        q = f.qualname
        if end is False:
            bad_returns.append(f.node.body[-1])
        if bad_returns:
            st = bad_returns[0]
            r.bad(Finding("record-written", q, f"a path reaches `{src_of(st)[:50]}` (line {st.lineno}) after changing tensors in place without storing info['cur_orthog'] or handing the "
                                               "record to the routine that made the change: the caller's record describes the state before the change",
                          where=f"{m.relpath}:{st.lineno}", operand="path"))
        else:
            r.ok(q, sample={"writer": q, "record stores": len(stores), "every path after a change": "stores or hands on the record"})
    r.floor(n, 5, "routines of tn1d/core.py that store the record themselves")
    return r


def rule_forked_record_object(ctx):
    r = RuleResult(
        "forked-record-object",
        "a routine that forks the caller's record (`info = info.copy()`) does so because it is about to move the orthogonality centre of a "
        "*copy* that the caller never sees. The fork and the choice of the working object are made by separate tests: there must be no "
        "combination of the flags under which the record is forked while the working object is the receiver itself — the receiver would be "
        "re-gauged in place while the caller's record keeps naming the old centre (boolean satisfiability over the atoms of the two tests)",
    )
    m = ctx.prog.modules.get("quimb.tensor.tn1d.core")
    if m is None:
        raise AnalysisError("forked-record-object: quimb.tensor.tn1d.core not found")
    import itertools as _it

    def atoms_of(e, acc):
        if isinstance(e, ast.BoolOp):
            for v in e.values:
                atoms_of(v, acc)
        elif isinstance(e, ast.UnaryOp) and isinstance(e.op, ast.Not):
            atoms_of(e.operand, acc)
        else:
            acc.setdefault(ast.dump(e), e)

    def ev(e, val):
        if isinstance(e, ast.BoolOp):
            vs = [ev(v, val) for v in e.values]
            return all(vs) if isinstance(e.op, ast.And) else any(vs)
        if isinstance(e, ast.UnaryOp) and isinstance(e.op, ast.Not):
            return not ev(e.operand, val)
        return val[ast.dump(e)]

    n = 0
    for f in m.all_functions:
        if f.parent is not None or f.is_alias or isinstance(f.node, ast.Lambda) or "info" not in f.params:
            continue
        # (condition, negated?) chains for a node: the If tests that enclose it
        def cond_of(node):
            conds = []
            def walk(stmts, acc):
                for st in stmts:
                    if st is node or any(x is node for x in ast.walk(st)):
                        if isinstance(st, ast.If):
                            if any(x is node for b in st.body for x in ast.walk(b)):
                                return walk(st.body, acc + [(st.test, False)])
                            if any(x is node for b in st.orelse for x in ast.walk(b)):
                                return walk(st.orelse, acc + [(st.test, True)])
                        for fld in ("body", "orelse", "finalbody"):
                            sub = getattr(st, fld, None)
                            if isinstance(sub, list) and not isinstance(st, ast.If) and any(any(x is node for x in ast.walk(b)) for b in sub if isinstance(b, ast.stmt)):
                                return walk(sub, acc)
                        return acc
                return acc
            return walk(f.node.body, conds)

        forks = [a for a in ast.walk(f.node) if isinstance(a, ast.Assign) and len(a.targets) == 1 and isinstance(a.targets[0], ast.Name) and a.targets[0].id == "info"
                 and isinstance(a.value, ast.Call) and isinstance(a.value.func, ast.Attribute) and a.value.func.attr == "copy" and isinstance(a.value.func.value, ast.Name) and a.value.func.value.id == "info"]
        if not forks:
            continue
        # working object: W = self if C else self.copy()   or   if C: W = self  else: W = self.copy()
        self_conds = []   # list of (W, [ (test, negated) ... ]) under which W is the receiver
        for a in ast.walk(f.node):
            if isinstance(a, ast.Assign) and len(a.targets) == 1 and isinstance(a.targets[0], ast.Name):
                W = a.targets[0].id
                if isinstance(a.value, ast.IfExp) and isinstance(a.value.body, ast.Name) and a.value.body.id == "self":
                    self_conds.append((W, cond_of(a) + [(a.value.test, False)]))
                elif isinstance(a.value, ast.IfExp) and isinstance(a.value.orelse, ast.Name) and a.value.orelse.id == "self":
                    self_conds.append((W, cond_of(a) + [(a.value.test, True)]))
                elif isinstance(a.value, ast.Name) and a.value.id == "self" and cond_of(a):
                    self_conds.append((W, cond_of(a)))
        if not self_conds:
            continue
        for fk in forks:
            fc = cond_of(fk)
            for W, sc in self_conds:
                # is the forked record handed to an in-place call on W afterwards?
                used = [c for c in ast.walk(f.node) if isinstance(c, ast.Call) and isinstance(c.func, ast.Attribute) and isinstance(c.func.value, ast.Name) and c.func.value.id == W
                        and c.func.attr.endswith("_") and any(k.arg == "info" for k in c.keywords) and c.lineno > fk.lineno]
                if not used:
                    continue
                n += 1
                acc = {}
                for t, _ in fc + sc:
                    atoms_of(t, acc)
                keys = list(acc)
                sat = None
                if len(keys) <= 8:
                    for bits in _it.product((False, True), repeat=len(keys)):
                        val = dict(zip(keys, bits))
                        if all(ev(t, val) != neg for t, neg in fc) and all(ev(t, val) != neg for t, neg in sc):
                            sat = {src_of(acc[k])[:30]: v for k, v in val.items()}
                            break
                q = f"{f.qualname}[{W}]"
                if sat is not None:
                    r.bad(Finding("forked-record-object", f.qualname,
                                  f"with {sat} the record is forked (line {fk.lineno}) while `{W}` is the receiver itself, and `{src_of(used[0])[:50]}` then moves the receiver's centre with the "
                                  "private record: the caller's record keeps naming the old centre", where=f"{m.relpath}:{fk.lineno}", operand=W))
                else:
                    r.ok(q, sample={"function": f.qualname, "fork": f"line {fk.lineno}", "working object": W, "fork and receiver-in-place": "mutually exclusive"})
    r.floor(n, 1, "routines that fork the record and choose a working object by separate tests")
    return r


def rule_swap_precondition(ctx):
    r = RuleResult(
        "swap-precondition",
        "swap_sites_with_compress ends by *storing* a record that names the swapped pair (or one of its sites) as the orthogonality centre; "
        "that is only true if the centre was moved onto the pair before the two tensors were merged and re-split: the "
        "`canonicalize_((i, j), info=info)` call is an unconditional statement that precedes the split — skipping it under some option "
        "(e.g. for an exact swap) leaves the real centre elsewhere while the record says it is on the pair",
    )
    f = ctx.prog.func("quimb.tensor.tn1d.core", "TensorNetwork1DFlat.swap_sites_with_compress")
    if f is None:
        raise AnalysisError("swap-precondition: swap_sites_with_compress not found")
    splits = [c for c in ast.walk(f.node) if isinstance(c, ast.Call) and isinstance(c.func, ast.Attribute) and c.func.attr == "split"]
    stores = [x for x in ast.walk(f.node) if isinstance(x, ast.Assign) and any(isinstance(t, ast.Subscript) and const_value(t.slice, None) == "cur_orthog" for t in x.targets)]
    if not splits or not stores:
        raise AnalysisError("swap-precondition: split / record store not found in swap_sites_with_compress")
    first_split = min(c.lineno for c in splits)
    uncond = [st for st in f.node.body if isinstance(st, ast.Expr) and isinstance(st.value, ast.Call) and isinstance(st.value.func, ast.Attribute)
              and st.value.func.attr in ("canonicalize_", "canonicalize") and any(k.arg == "info" for k in st.value.keywords) and st.lineno < first_split]
    where = f"{f.module.relpath}:{first_split}"
    if uncond:
        r.ok("swap_sites_with_compress", sample={"centre moved onto the pair": src_of(uncond[0].value)[:50], "unconditional": True})
    else:
        cond = [c for c in ast.walk(f.node) if isinstance(c, ast.Call) and isinstance(c.func, ast.Attribute) and c.func.attr in ("canonicalize_", "canonicalize") and c.lineno < first_split]
        r.bad(Finding("swap-precondition", "TensorNetwork1DFlat.swap_sites_with_compress",
                      ("the centre is moved onto the pair only conditionally (line %d)" % cond[0].lineno if cond else "the centre is never moved onto the pair")
                      + " before the split, but the record stored afterwards always names the pair: on the skipped path the real centre is elsewhere",
                      where=where, operand="canonicalize"))
    return r
