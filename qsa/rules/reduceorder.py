"""C15 / C16: the parallel reduction applies the binary function only to *adjacent* partial results, in operand order.

`par_reduce(fn, seq)` is used to form Kronecker products in parallel; `fn` (kron) is associative but not commutative,
so the parallel form equals functools.reduce(fn, seq) iff every application fn(a, b) combines a partial result `a`
covering operands [i, j) with a partial result `b` covering [j, k).  This module decides that by abstract
interpretation of the body of par_reduce (and the local functions it defines) over an *operand-interval* domain:

  Elem(lo, hi)            one object: the ordered fold of operands [lo, hi)
  Seq(kind, lo, hi, n)    a sequence of Elems that tile [lo, hi) in ascending (ASC) or descending (DESC) order,
                          with at least n elements;  kind NONE = order lost
  Chunks(seq)             partition_all(k, seq): consecutive sub-sequences of seq

End points are symbols; splitting a sequence (x[-1], x[:-1], first element of an iteration ...) introduces a fresh
symbol, concatenation and fn(a, b) require the touching end points to be the *same* symbol.  Sequence lengths are
symbolic (only a lower bound is tracked, from the len() guards), loops are unrolled a bounded number of times on the
abstract state, recursion is cut with the function's own contract (ASC sequence in -> Elem over the same interval out).
Nothing in quimb is executed.  Only *definite* order violations are reported; constructs the interpreter does not
model make the value UNKNOWN, and a run in which no application of fn could be judged fails as analysis-broken."""
import ast
import itertools

from ..framework import RuleResult, Finding
from ..model import dotted, src_of, const_value
from .. import AnalysisError

ASC, DESC, NONE = "ASC", "DESC", "NONE"
_sym = itertools.count(1)


class UF:
    """union-find over end-point symbols (an empty sub-sequence identifies its two ends)"""

    def __init__(self, parent=None):
        self.parent = dict(parent or {})

    def find(self, a):
        while self.parent.get(a, a) != a:
            a = self.parent[a]
        return a

    def union(self, a, b):
        a, b = self.find(a), self.find(b)
        if a != b:
            self.parent[max(a, b)] = min(a, b)

    def same(self, a, b):
        return self.find(a) == self.find(b)

    def copy(self):
        return UF(self.parent)


class Elem:
    def __init__(self, lo, hi):
        self.lo, self.hi = lo, hi

    def __repr__(self):
        return f"Elem[{self.lo},{self.hi})"


class Seq:
    def __init__(self, kind, lo, hi, minlen=0, chunks=False):
        self.kind, self.lo, self.hi, self.minlen, self.chunks = kind, lo, hi, minlen, chunks

    def __repr__(self):
        return f"{'Chunks' if self.chunks else 'Seq'}<{self.kind}>[{self.lo},{self.hi})>={self.minlen}"


class Unknown:
    def __repr__(self):
        return "UNKNOWN"


UNKNOWN = Unknown()


class Violation(Exception):
    def __init__(self, node, msg):
        self.node, self.msg = node, msg


class _Return(Exception):
    def __init__(self, value):
        self.value = value


class State:
    def __init__(self, env=None, uf=None, trail=()):
        self.env = dict(env or {})
        self.uf = uf or UF()
        self.trail = tuple(trail)

    def fork(self, note=None):
        env = {}
        for k, v in self.env.items():
            env[k] = Seq(v.kind, v.lo, v.hi, v.minlen, v.chunks) if isinstance(v, Seq) else v
        return State(env, self.uf.copy(), self.trail + ((note,) if note else ()))


class Interp:
    MAX_UNROLL = 3

    def __init__(self, fnode, fn_param, seq_param):
        self.fnode = fnode
        self.fn_param = fn_param
        self.seq_param = seq_param
        self.funcs = {n.name: n for n in ast.walk(fnode) if isinstance(n, ast.FunctionDef) and n is not fnode}
        # integer facts from early exits:  if <name> == 1: return ...   =>  <name> != 1 afterwards
        self.not_one = set()
        for st in fnode.body:
            if isinstance(st, ast.If) and isinstance(st.test, ast.Compare) and isinstance(st.test.left, ast.Name) and len(st.test.ops) == 1 and isinstance(st.test.ops[0], ast.Eq) \
                    and const_value(st.test.comparators[0], None) == 1 and st.body and isinstance(st.body[-1], (ast.Return, ast.Raise)):
                self.not_one.add(st.test.left.id)
        self.applications = 0      # applications of fn that were judged
        self.violations = []       # (node, message, trail)
        self.unknown_uses = []     # fn applied to something the domain lost track of
        self.returns = []          # abstract results of the outer function
        self.depth = 0

    # ------------------------------------------------------------------ helpers
    def adjacent(self, st, a, b):
        return st.uf.same(a.hi, b.lo)

    def apply_fn(self, node, st, args):
        """fn(a, b, ...) on Elems: every neighbouring pair has to touch"""
        if any(not isinstance(a, Elem) for a in args):
            self.unknown_uses.append(node)
            return UNKNOWN
        self.applications += 1
        for a, b in zip(args, args[1:]):
            if not self.adjacent(st, a, b):
                raise Violation(node, f"`{src_of(node)[:60]}` combines a partial result covering operands {a} with one covering {b}: they are not adjacent "
                                      "in operand order, so the result is only right for a commutative function")
        return Elem(args[0].lo, args[-1].hi)

    def fold_seq(self, node, st, s):
        """fn(*s) / functools.reduce(fn, s): s has to be in ascending operand order"""
        if not isinstance(s, Seq) or s.chunks:
            self.unknown_uses.append(node)
            return UNKNOWN
        self.applications += 1
        if s.kind != ASC and s.minlen >= 2 or s.kind == NONE:
            raise Violation(node, f"`{src_of(node)[:60]}` folds a sequence that is not in ascending operand order ({s.kind})")
        if s.kind != ASC:
            self.unknown_uses.append(node)
            return UNKNOWN
        return Elem(s.lo, s.hi)

    # ------------------------------------------------------------------ expressions
    def ev(self, e, st):
        if isinstance(e, ast.Name):
            if e.id in st.env:
                return st.env[e.id]
            if e.id in self.funcs:
                return ("func", e.id)
            if e.id == self.fn_param:
                return ("fn",)
            return UNKNOWN
        if isinstance(e, ast.Constant):
            return ("const", e.value)
        if isinstance(e, (ast.Tuple, ast.List)) and not e.elts:
            return Seq(ASC, None, None, 0)  # empty: no position yet
        if isinstance(e, ast.Subscript):
            return self.subscript(e, st)
        if isinstance(e, ast.BinOp) and isinstance(e.op, ast.Add):
            return self.concat(e, st, self.ev(e.left, st), self.ev(e.right, st))
        if isinstance(e, ast.Call):
            return self.call(e, st)
        if isinstance(e, (ast.GeneratorExp, ast.ListComp)) and len(e.generators) == 1:
            inner = st.fork()
            for y in ast.walk(e.generators[0].target):
                if isinstance(y, ast.Name):
                    inner.env[y.id] = UNKNOWN
            return ("gen", self.ev(e.elt, inner))
        if isinstance(e, ast.IfExp):
            return UNKNOWN
        return UNKNOWN

    def split_last(self, st, s):
        """(initial part, last element) of a sequence"""
        m = next(_sym)
        if s.minlen <= 1:
            pass  # the initial part may be empty: nothing is known about m vs the far end
        if s.kind == ASC:
            return Seq(ASC, s.lo, m, max(s.minlen - 1, 0), s.chunks), (Seq(ASC, m, s.hi, 1) if s.chunks else Elem(m, s.hi)), m
        if s.kind == DESC:
            return Seq(DESC, m, s.hi, max(s.minlen - 1, 0), s.chunks), (Seq(DESC, s.lo, m, 1) if s.chunks else Elem(s.lo, m)), m
        return Seq(NONE, None, None, max(s.minlen - 1, 0), s.chunks), UNKNOWN, m

    def split_first(self, st, s):
        m = next(_sym)
        if s.kind == ASC:
            return (Seq(ASC, s.lo, m, 1) if s.chunks else Elem(s.lo, m)), Seq(ASC, m, s.hi, max(s.minlen - 1, 0), s.chunks), m
        if s.kind == DESC:
            return (Seq(DESC, m, s.hi, 1) if s.chunks else Elem(m, s.hi)), Seq(DESC, s.lo, m, max(s.minlen - 1, 0), s.chunks), m
        return UNKNOWN, Seq(NONE, None, None, max(s.minlen - 1, 0), s.chunks), m

    def subscript(self, e, st):
        base = self.ev(e.value, st)
        if not isinstance(base, Seq):
            return UNKNOWN
        sl = e.slice
        key = ("split", id(base))
        if isinstance(sl, ast.Slice):
            lo, hi, step = sl.lower, sl.upper, sl.step
            cv = lambda x: const_value(x, "?") if x is not None else None
            if step is not None and cv(step) == -1 and lo is None and hi is None:
                return Seq({ASC: DESC, DESC: ASC}.get(base.kind, NONE), base.lo, base.hi, base.minlen, base.chunks)
            if step is not None:
                unit = cv(step) == 1
                non_unit = (isinstance(cv(step), int) and cv(step) not in (1, "?")) or (isinstance(step, ast.Name) and step.id in self.not_one)
                if unit:
                    pass
                elif non_unit:
                    # every k-th element, k != 1: the elements are not adjacent operands
                    return Seq(NONE, None, None, 0, base.chunks)
                else:
                    return UNKNOWN
            if lo is None and cv(hi) == -1:      # x[:-1]
                init, last, m = self._split_cached(st, base, "last")
                return init
            if cv(lo) == -1 and hi is None:      # x[-1:]
                init, last, m = self._split_cached(st, base, "last")
                return Seq(base.kind, last.lo, last.hi, 1, base.chunks) if isinstance(last, (Elem, Seq)) else Seq(NONE, None, None, 1, base.chunks)
            if cv(lo) == 1 and hi is None:       # x[1:]
                first, rest, m = self._split_cached(st, base, "first")
                return rest
            if lo is None and cv(hi) == 1:       # x[:1]
                first, rest, m = self._split_cached(st, base, "first")
                return Seq(base.kind, first.lo, first.hi, 1, base.chunks) if isinstance(first, (Elem, Seq)) else Seq(NONE, None, None, 1, base.chunks)
            if lo is None and hi is None:
                return base
            # x[:E] / x[E:] with the same (non-constant) split expression E: two blocks that meet at one symbolic point
            if base.kind == ASC and ((lo is None) != (hi is None)):
                E = hi if lo is None else lo
                cache = st.env.setdefault("__splits__", {})
                k = (id(base), "at:" + ast.dump(E))
                if k not in cache:
                    cache[k] = next(_sym)
                m = cache[k]
                if lo is None:
                    return Seq(ASC, base.lo, m, 0, base.chunks)
                return Seq(ASC, m, base.hi, 0, base.chunks)
            # a contiguous block at a position the domain does not track: still in operand order, over a fresh sub-interval
            if base.kind in (ASC, DESC):
                return Seq(base.kind, next(_sym), next(_sym), 0, base.chunks)
            return UNKNOWN
        c = const_value(sl, "?")
        if isinstance(sl, ast.UnaryOp) and isinstance(sl.op, ast.USub):
            c = -const_value(sl.operand, 0) if const_value(sl.operand, "?") != "?" else "?"
        if c == -1:
            return self._split_cached(st, base, "last")[1]
        if c == 0:
            if st.env.get("__len1__") is base:
                return Elem(base.lo, base.hi) if not base.chunks else Seq(base.kind, base.lo, base.hi, 1)
            return self._split_cached(st, base, "first")[0]
        return UNKNOWN

    def _split_cached(self, st, base, which):
        cache = st.env.setdefault("__splits__", {})
        k = (id(base), which)
        if k not in cache:
            cache[k] = self.split_last(st, base) if which == "last" else self.split_first(st, base)
        return cache[k]

    def concat(self, node, st, a, b):
        if not (isinstance(a, Seq) and isinstance(b, Seq)):
            return UNKNOWN
        if a.lo is None:
            return b
        if b.lo is None:
            return a
        chunks = a.chunks or b.chunks
        if a.kind == ASC and b.kind == ASC and st.uf.same(a.hi, b.lo):
            return Seq(ASC, a.lo, b.hi, a.minlen + b.minlen, chunks)
        if a.kind == DESC and b.kind == DESC and st.uf.same(a.lo, b.hi):
            return Seq(DESC, b.lo, a.hi, a.minlen + b.minlen, chunks)
        if a.minlen >= 1 and b.minlen >= 1 and a.kind in (ASC, DESC) and b.kind in (ASC, DESC):
            # both parts certainly present and they do not touch in either order: the order is definitely lost
            return Seq(NONE, None, None, a.minlen + b.minlen, chunks)
        if a.kind == ASC and b.kind == ASC and st.uf.same(b.hi, a.lo) and not st.uf.same(a.lo, a.hi) and not st.uf.same(b.lo, b.hi):
            # two ascending blocks that meet at one point, written in the *reverse* order (x[E:] + <...x[:E]...>): only right when one of
            # them is always empty, i.e. when the concatenation is pointless — the author assumes the order does not matter
            return Seq(NONE, None, None, a.minlen + b.minlen, chunks)
        return UNKNOWN

    def call(self, e, st):
        fn = dotted(e.func) or ""
        base = fn.split(".")[-1]
        args = e.args
        if base in ("tuple", "list") and len(args) == 1:
            return self.ev(args[0], st)
        if base == "reversed" and len(args) == 1:
            v = self.ev(args[0], st)
            return Seq({ASC: DESC, DESC: ASC}.get(v.kind, NONE), v.lo, v.hi, v.minlen, v.chunks) if isinstance(v, Seq) else UNKNOWN
        if base == "partition_all" and len(args) == 2:
            v = self.ev(args[1], st)
            k = const_value(args[0], None)
            if isinstance(v, Seq) and not v.chunks and isinstance(k, int) and k >= 1:
                return Seq(v.kind, v.lo, v.hi, -(-v.minlen // k), chunks=True)
            return UNKNOWN
        if base == "map" and len(args) == 2:   # map(f, X) / pool.map(f, X)
            f = self.ev(args[0], st)
            v = self.ev(args[1], st)
            if isinstance(v, tuple) and v and v[0] == "gen":
                # f applied to each element of a comprehension: judged for what it does to one element; the order *between* the
                # results is not tracked
                self.call_value(e, st, f, [v[1]])
                return UNKNOWN
            if not isinstance(v, Seq):
                return UNKNOWN
            if v.kind == NONE:
                return Seq(NONE, None, None, v.minlen)
            # apply f to a generic element
            a, b = next(_sym), next(_sym)
            gen = Seq(ASC if v.kind == ASC else DESC, a, b, 1) if v.chunks else Elem(a, b)
            if v.chunks and v.kind == DESC:
                gen = Seq(ASC, a, b, 1)  # the chunks keep their internal order; only their sequence is reversed
            out = self.call_value(e, st, f, [gen])
            if isinstance(out, Elem) and st.uf.same(out.lo, a) and st.uf.same(out.hi, b):
                return Seq(v.kind, v.lo, v.hi, v.minlen)
            return UNKNOWN
        if base == "partial" and len(args) == 2 and (dotted(args[0]) or "").split(".")[-1] == "reduce" and self.ev(args[1], st) == ("fn",):
            return ("foldfn",)
        if base == "reduce" and len(args) >= 2:
            f = self.ev(args[0], st)
            if f == ("fn",):
                return self.fold_seq(e, st, self.ev(args[1], st))
            return UNKNOWN
        if base == "len":
            return ("len", self.ev(args[0], st)) if args else UNKNOWN
        # method calls on sequences
        if isinstance(e.func, ast.Attribute) and e.func.attr == "append" and isinstance(e.func.value, ast.Name) and len(args) == 1:
            tgt = st.env.get(e.func.value.id)
            el = self.ev(args[0], st)
            if isinstance(tgt, Seq) and isinstance(el, Elem):
                if tgt.lo is None:
                    new = Seq("ONE", el.lo, el.hi, 1)
                elif tgt.kind in (ASC, "ONE") and st.uf.same(tgt.hi, el.lo):
                    new = Seq(ASC, tgt.lo, el.hi, tgt.minlen + 1)
                elif tgt.kind in (DESC, "ONE") and st.uf.same(el.hi, tgt.lo):
                    new = Seq(DESC, el.lo, tgt.hi, tgt.minlen + 1)
                else:
                    new = Seq(NONE, None, None, tgt.minlen + 1)
                st.env[e.func.value.id] = new
            elif isinstance(tgt, Seq):
                st.env[e.func.value.id] = Seq(NONE, None, None, tgt.minlen + 1)
            return ("const", None)
        callee = self.ev(e.func, st) if isinstance(e.func, ast.Name) else UNKNOWN
        vals = []
        for a in args:
            if isinstance(a, ast.Starred):
                vals.append(("star", self.ev(a.value, st)))
            else:
                vals.append(self.ev(a, st))
        return self.call_value(e, st, callee, vals)

    def call_value(self, node, st, callee, vals):
        if callee == ("foldfn",):
            return self.fold_seq(node, st, vals[0]) if len(vals) == 1 and isinstance(vals[0], Seq) else UNKNOWN
        if callee == ("fn",):
            if len(vals) == 1 and isinstance(vals[0], tuple) and vals[0][0] == "star":
                return self.fold_seq(node, st, vals[0][1])
            return self.apply_fn(node, st, vals)
        if isinstance(callee, tuple) and callee[0] == "func":
            return self.call_local(node, st, callee[1], vals)
        return UNKNOWN

    def call_local(self, node, st, name, vals):
        f = self.funcs[name]
        params = [a.arg for a in f.args.args]
        if len(vals) != len(params):
            return UNKNOWN
        # recursion is cut with the contract  ASC sequence in -> Elem over the same interval out
        if self.depth >= 1 and name in self._stack:
            v = vals[0] if vals else None
            if isinstance(v, Seq) and not v.chunks:
                if v.kind == ASC:
                    return Elem(v.lo, v.hi)
                if v.kind == NONE or (v.kind == DESC and v.minlen >= 2):
                    raise Violation(node, f"`{src_of(node)[:60]}` hands the next round a sequence of partial results that is no longer in operand order")
            return UNKNOWN
        self._stack.append(name)
        self.depth += 1
        try:
            results = []
            inner = st.fork()
            inner.env = {k: v for k, v in st.env.items() if k not in ("__splits__", "__len1__")}
            for p, v in zip(params, vals):
                inner.env[p] = v
            for end in self.block(f.body, [inner]):
                pass
            results = self._pending_returns.pop(id(f), [])
        finally:
            self.depth -= 1
            self._stack.pop()
        # every path has to agree (up to symbol identity) for the summary to be usable
        elems = [r for r in results if isinstance(r, Elem)]
        if results and len(elems) == len(results) and all(st.uf.same(r.lo, elems[0].lo) and st.uf.same(r.hi, elems[0].hi) for r in elems):
            return elems[0]
        return UNKNOWN

    # ------------------------------------------------------------------ statements
    def cond(self, test, st):
        """(state if true, state if false); None when that branch is impossible"""
        # len(x) <op> c
        if isinstance(test, ast.Compare) and len(test.ops) == 1 and isinstance(test.left, ast.Call) and dotted(test.left.func) == "len" and test.left.args:
            v = self.ev(test.left.args[0], st)
            c = const_value(test.comparators[0], None)
            if isinstance(v, Seq) and isinstance(c, int):
                op = test.ops[0]
                t, f_ = st.fork(src_of(test)), st.fork(f"not ({src_of(test)})")
                name = test.left.args[0].id if isinstance(test.left.args[0], ast.Name) else None

                def with_min(s, n):
                    if name is not None and isinstance(s.env.get(name), Seq):
                        o = s.env[name]
                        s.env[name] = Seq(o.kind, o.lo, o.hi, max(o.minlen, n), o.chunks)
                        s.env["__splits__"] = {k: w for k, w in s.env.get("__splits__", {}).items() if k[0] != id(o)}
                    return s

                if isinstance(op, ast.LtE):      # len <= c   /  else len >= c+1
                    if v.minlen > c:
                        return None, with_min(f_, c + 1)
                    if c == 1 and name:
                        t.env["__len1__"] = t.env[name]
                    return t, with_min(f_, c + 1)
                if isinstance(op, ast.Gt):       # len > c
                    if v.minlen > c:
                        return with_min(t, c + 1), None
                    return with_min(t, c + 1), f_
                if isinstance(op, ast.Eq):
                    if v.minlen > c:
                        return None, f_
                    t = with_min(t, c)
                    if c == 1 and name:
                        t.env["__len1__"] = t.env[name]
                    # len != c with len >= c known: len >= c + 1
                    return t, (with_min(f_, c + 1) if v.minlen >= c else f_)
                if isinstance(op, ast.Lt):
                    if v.minlen >= c:
                        return None, with_min(f_, c)
                    return t, with_min(f_, c)
                if isinstance(op, ast.GtE):
                    if v.minlen >= c:
                        return with_min(t, c), None
                    return with_min(t, c), f_
        # a sequence used as a condition: true = non-empty
        if isinstance(test, ast.Name) and isinstance(st.env.get(test.id), Seq):
            v = st.env[test.id]
            t, f_ = st.fork(test.id), st.fork(f"not {test.id}")
            t.env[test.id] = Seq(v.kind, v.lo, v.hi, max(v.minlen, 1), v.chunks)
            return t, (None if v.minlen >= 1 else f_)
        return st.fork(src_of(test)[:30]), st.fork(f"not ({src_of(test)[:30]})")

    def block(self, stmts, states):
        """run stmts on every state; yields the states that fall off the end"""
        cur = list(states)
        for s in stmts:
            nxt = []
            for st in cur:
                nxt.extend(self.stmt(s, st))
            cur = nxt
            if len(cur) > 64:
                cur = cur[:64]
        return cur

    def stmt(self, s, st):
        try:
            if isinstance(s, ast.FunctionDef):
                return [st]
            if isinstance(s, ast.Expr):
                if isinstance(s.value, ast.Constant):
                    return [st]
                self.ev(s.value, st)
                return [st]
            if isinstance(s, ast.Assign) and len(s.targets) == 1 and isinstance(s.targets[0], ast.Name):
                st.env[s.targets[0].id] = self.ev(s.value, st)
                return [st]
            if isinstance(s, ast.Assign):
                for t in s.targets:
                    for y in ast.walk(t):
                        if isinstance(y, ast.Name):
                            st.env[y.id] = UNKNOWN
                return [st]
            if isinstance(s, ast.Return):
                v = self.ev(s.value, st) if s.value is not None else ("const", None)
                owner = self._owner(s)
                if owner is self.fnode:
                    self.returns.append((v, st))
                else:
                    self._pending_returns.setdefault(id(owner), []).append(v)
                return []
            if isinstance(s, ast.If):
                t, f_ = self.cond(s.test, st)
                out = []
                if t is not None:
                    out += self.block(s.body, [t])
                if f_ is not None:
                    out += self.block(s.orelse, [f_])
                return out
            if isinstance(s, ast.While):
                out = []
                cur = [st]
                for _ in range(self.MAX_UNROLL):
                    nxt = []
                    for c in cur:
                        t, f_ = self.cond(s.test, c)
                        if f_ is not None:
                            out.append(f_)
                        if t is not None:
                            nxt += self.block(s.body, [t])
                    cur = nxt
                    if not cur:
                        break
                # states still inside after the bound: leave the loop there (bounded unrolling)
                for c in cur:
                    t, f_ = self.cond(s.test, c)
                    if f_ is not None:
                        out.append(f_)
                return out
            if isinstance(s, ast.For) and isinstance(s.target, ast.Name):
                it = self.ev(s.iter, st)
                if not isinstance(it, Seq) or it.chunks:
                    for y in ast.walk(s):
                        if isinstance(y, ast.Name) and isinstance(y.ctx, ast.Store):
                            st.env[y.id] = UNKNOWN
                    return [st]
                out = []
                cur = [(st, it)]
                for _ in range(self.MAX_UNROLL):
                    nxt = []
                    for c, rest in cur:
                        if rest.minlen == 0:
                            done = c.fork("iteration ends")
                            if rest.lo is not None:
                                done.uf.union(rest.lo, rest.hi)
                            out.append(done)
                        if rest.lo is None:
                            continue
                        go = c.fork()
                        first, rest2, m = self.split_first(go, rest)
                        go.env[s.target.id] = first
                        for e_ in self.block(s.body, [go]):
                            nxt.append((e_, rest2))
                    cur = nxt
                    if not cur:
                        break
                for c, rest in cur:
                    done = c.fork("iteration ends")
                    if rest.lo is not None:
                        done.uf.union(rest.lo, rest.hi)
                    out.append(done)
                return out
            # anything else: forget what it assigns
            for y in ast.walk(s):
                if isinstance(y, ast.Name) and isinstance(y.ctx, ast.Store):
                    st.env[y.id] = UNKNOWN
            return [st]
        except Violation as v:
            self.violations.append((v.node, v.msg, st.trail))
            return []

    def _owner(self, node):
        best = self.fnode
        for f in self.funcs.values():
            if any(x is node for x in ast.walk(f)):
                if best is self.fnode or any(x is f for x in ast.walk(best)):
                    best = f
        return best

    def run(self):
        self._stack = []
        self._pending_returns = {}
        lo, hi = next(_sym), next(_sym)
        st = State({self.seq_param: Seq(ASC, lo, hi, 1)})
        st.env["__whole__"] = (lo, hi)
        self.block(self.fnode.body, [st])
        return lo, hi


_CONTROL_SRC = '''
def control_reduce(fn, seq):
    def inner(x):
        if len(x) <= 2:
            return fn(*x)
        chunks = tuple(partition_all(2, x))
        chunks = chunks[-1:] + chunks[:-1]      # wrong: the last chunk jumps the queue
        return inner(tuple(map(lambda c: fn(*c), chunks)))
    return inner(tuple(seq))
'''

_CONTROL_OK_SRC = '''
def control_reduce_ok(fn, seq):
    x = tuple(seq)
    rest = []
    while len(x) > 2:
        if len(x) % 2:
            rest.append(x[-1])
            x = x[:-1]
        x = tuple(map(helper, partition_all(2, x)))
    out = fn(*x)
    for y in reversed(rest):
        out = fn(out, y)
    return out
'''


def _self_check():
    """the interpreter must flag the wrong control and accept the right one on every run (the expected count on quimb is zero)"""
    bad = ast.parse(_CONTROL_SRC).body[0]
    # the control uses a lambda where quimb uses a local function: give the interpreter an equivalent local def
    src = _CONTROL_SRC.replace("map(lambda c: fn(*c), chunks)", "map(helper, chunks)").replace("    def inner(x):", "    def helper(c):\n        return fn(*c)\n    def inner(x):")
    bad = ast.parse(src).body[0]
    it = Interp(bad, "fn", "seq")
    it.run()
    if not it.violations:
        raise AnalysisError("reduce-order: the positive control (leftover chunk moved to the front) is no longer flagged")
    oksrc = _CONTROL_OK_SRC.replace("def control_reduce_ok(fn, seq):", "def control_reduce_ok(fn, seq):\n    def helper(c):\n        return fn(*c)")
    good = ast.parse(oksrc).body[0]
    it2 = Interp(good, "fn", "seq")
    it2.run()
    if it2.violations or it2.applications == 0:
        raise AnalysisError("reduce-order: the negative control (set-aside items folded back newest first) is flagged or not followed")


def rule_reduce_order(ctx):
    r = RuleResult(
        "reduce-order",
        "par_reduce(fn, seq) applies fn only to partial results that are adjacent in operand order (fn = kron is associative, not "
        "commutative): abstract interpretation of its body over an operand-interval domain — sequences tile an interval in ascending / "
        "descending order, splits introduce fresh end-point symbols, fn(a, b) needs a.hi == b.lo, the recursion is cut with the "
        "contract `ascending sequence in, fold of the same interval out`, loops are unrolled three times on symbolic-length sequences",
    )
    _self_check()
    r.controls_flagged = 1
    f = ctx.prog.func("quimb.core", "par_reduce")
    if f is None:
        raise AnalysisError("reduce-order: quimb.core.par_reduce not found")
    params = f.posparams
    if len(params) < 2:
        raise AnalysisError("reduce-order: par_reduce(fn, seq, ...) signature not recognised")
    it = Interp(f.node, params[0], params[1])
    lo, hi = it.run()
    where = f"{f.module.relpath}:{f.lineno}"
    if it.violations:
        seen = set()
        for node, msg, trail in it.violations:
            key = (node.lineno, msg[:40])
            if key in seen:
                continue
            seen.add(key)
            path = " and ".join(t for t in trail if t)[:160]
            r.bad(Finding("reduce-order", "par_reduce", msg + (f" [path: {path}]" if path else ""), where=f"{f.module.relpath}:{node.lineno}", operand=f"order@{src_of(node)[:30]}"))
        return r
    if it.applications == 0:
        raise AnalysisError("reduce-order: no application of fn in par_reduce could be followed (the rule no longer matches the code it was written for)")
    # every followed return of the outer function has to be the fold of the whole input, in order
    judged = 0
    for v, st in it.returns:
        if isinstance(v, Elem):
            judged += 1
            if not (st.uf.same(v.lo, lo) and st.uf.same(v.hi, hi)):
                r.bad(Finding("reduce-order", "par_reduce", f"a path returns a partial result covering {v}, not the fold of the whole sequence [{lo},{hi})", where=where, operand="coverage"))
    if not r.findings:
        r.ok("par_reduce", sample={"function": "quimb.core.par_reduce", "applications of fn judged": it.applications, "returns judged": judged,
                                   "not followed": len(it.unknown_uses)})
    r.floor(it.applications, 2, "applications of fn in par_reduce that were judged")
    return r
