"""Registry / dispatcher interface rules (C09, C12, C17, C06 ...).

A *registry* is a module-level dict (or a chain of ``register`` calls) that
maps a mode name to an implementation; a *dispatcher* looks the mode up and
calls the implementation with a fixed keyword set.  Every registered
implementation must accept every keyword the dispatcher passes, and must
*read* each semantic option it accepts (use-or-reject)."""

import ast

from ..framework import RuleResult, Finding
from ..model import dotted, src_of, const_value, FuncInfo
from .. import AnalysisError


def static_dict_of_functions(ctx, modname, dictname):
    """name -> (FuncInfo, bound kwargs) for a module-level dict whose values
    are function names or functools.partial(function, **kw) bound at module
    level."""
    m = ctx.prog.module(modname)
    node = m.assigns.get(dictname)
    if not isinstance(node, ast.Dict):
        raise AnalysisError(f"{modname}.{dictname} is not a literal dict any more")
    out = {}
    for k, v in zip(node.keys, node.values):
        key = const_value(k, None)
        f, kw = resolve_function_value(ctx, m, v)
        out[key] = (f, kw, v)
    return out


def resolve_function_value(ctx, m, v, depth=0):
    if depth > 4:
        return None, {}
    if isinstance(v, ast.Name):
        r = ctx.prog.lookup(m, v.id)
        if isinstance(r, FuncInfo):
            return r, {}
        if isinstance(r, tuple) and r[0] == "value":
            return resolve_function_value(ctx, r[1], r[2], depth + 1)
        return None, {}
    if isinstance(v, ast.Call) and dotted(v.func) in ("functools.partial", "partial") and v.args:
        f, kw = resolve_function_value(ctx, m, v.args[0], depth + 1)
        kw = dict(kw)
        for k in v.keywords:
            if k.arg:
                kw[k.arg] = k.value
        return f, kw
    if isinstance(v, ast.Attribute):
        r = ctx.prog.resolve_expr(m, v)
        if isinstance(r, FuncInfo):
            return r, {}
    return None, {}


def _reads(f, name):
    return any(isinstance(n, ast.Name) and n.id == name and isinstance(n.ctx, ast.Load) for n in ast.walk(f.node))


def rule_compress_registry_1d(ctx):
    r = RuleResult(
        "compress-registry",
        "every function registered in _TN1D_COMPRESS_METHODS accepts (by name or **kwargs) every keyword the "
        "dispatcher tensor_network_1d_compress passes, and reads each semantic option it accepts by name "
        "(max_bond, cutoff, site_tags, canonize, sweep_reverse, equalize_norms, inplace, permute_arrays, optimize); "
        "the dispatcher forwards its own value for each of them",
    )
    mod = "quimb.tensor.tn1d.compress"
    reg = static_dict_of_functions(ctx, mod, "_TN1D_COMPRESS_METHODS")
    r.floor(len(reg), 15, "registered 1D compression methods")
    disp = ctx.prog.func(mod, "tensor_network_1d_compress")
    call = None
    for n in ast.walk(disp.node):
        if isinstance(n, ast.Call) and isinstance(n.func, ast.Name) and n.func.id.startswith("f_tn1d"):
            call = n
    if call is None:
        raise AnalysisError("tensor_network_1d_compress: registry call not found")
    passed = {k.arg: src_of(k.value) for k in call.keywords if k.arg}
    where = f"{disp.module.relpath}:{disp.lineno}"
    for k, v in passed.items():
        if k in disp.params and v != k:
            r.bad(Finding("compress-registry", "tensor_network_1d_compress", f"dispatcher passes {k}={v} instead of its own `{k}`", where=where, operand=k))
        else:
            r.ok(f"tensor_network_1d_compress[{k}]", nontrivial=False)
    for need in ("max_bond", "cutoff", "site_tags", "canonize", "sweep_reverse", "equalize_norms", "inplace"):
        if need not in passed:
            r.bad(Finding("compress-registry", "tensor_network_1d_compress", f"dispatcher does not forward `{need}` to the registered method", where=where, operand=need))
    for name, (f, kw, v) in sorted(reg.items(), key=lambda kv: str(kv[0])):
        if f is None:
            r.skip(f"method {name}", f"implementation `{src_of(v)}` not resolved")
            continue
        wheref = f"{f.module.relpath}:{f.lineno}"
        for k in passed:
            if not f.accepts(k):
                r.bad(Finding("compress-registry", f.qualname, f"registered as {name!r} but does not accept `{k}` which the dispatcher passes", where=wheref, operand=f"{name}:{k}"))
            elif k in f.params and not _reads(f, k):
                r.bad(Finding("compress-registry", f.qualname, f"accepts `{k}` but never reads it (method {name!r} silently ignores the option)", where=wheref, operand=f"{name}:{k}:unread"))
            else:
                r.ok(f"{name}[{k}]", sample={"method": name, "implementation": f.qualname, "option": k, "status": "read" if k in f.params else "via **kwargs"}, nontrivial=k in f.params)
    return r


def rule_ag_compress_registry(ctx):
    r = RuleResult(
        "ag-compress-registry",
        "every function registered in tnag/compress.py's method table accepts the keywords its dispatcher passes "
        "and reads max_bond / cutoff / inplace",
    )
    mod = "quimb.tensor.tnag.compress"
    m = ctx.prog.module(mod)
    regname = next((k for k, v in m.assigns.items() if isinstance(v, ast.Dict) and k.startswith("_TNAG_COMPRESS")), None)
    if regname is None:
        raise AnalysisError("tnag/compress.py: method table not found")
    reg = static_dict_of_functions(ctx, mod, regname)
    r.floor(len(reg), 4, "registered arbitrary-geometry compression methods")
    for name, (f, kw, v) in reg.items():
        if f is None:
            r.skip(f"method {name}", "implementation not resolved")
            continue
        for k in ("max_bond", "cutoff", "inplace"):
            if not f.accepts(k):
                r.bad(Finding("ag-compress-registry", f.qualname, f"method {name!r} does not accept `{k}`", where=f"{f.module.relpath}:{f.lineno}", operand=f"{name}:{k}"))
            elif k in f.params and not _reads(f, k):
                r.bad(Finding("ag-compress-registry", f.qualname, f"method {name!r} accepts `{k}` but never reads it", where=f"{f.module.relpath}:{f.lineno}", operand=f"{name}:{k}:unread"))
            else:
                r.ok(f"{name}[{k}]", sample={"method": name, "implementation": f.qualname, "option": k})
    return r


# ---------------------------------------------------------------- mode-total
def rule_mode_total(ctx, specs, rule="mode-total"):
    """specs: list of (module, qualname, parameter, require_raise).  The
    function dispatches on string literals of ``parameter`` with an
    if/elif chain (or dict lookup); the chain must end in raise (or be
    preceded by check_opt)."""
    r = RuleResult(
        rule,
        "every string-mode dispatcher handles its literals in one if/elif chain that ends in `raise` (or is guarded "
        "by check_opt(...) with a literal tuple containing every handled literal): an unknown or misspelt mode is "
        "rejected rather than silently treated as another mode",
    )
    for modname, qual, param in specs:
        f = ctx.prog.func(modname, qual)
        where = f"{f.module.relpath}:{f.lineno}"
        handled = set()
        chains = []
        for n in ast.walk(f.node):
            if isinstance(n, ast.If) and _tests_param(n.test, param):
                chains.append(n)
        tops = [c for c in chains if not any(c in _elifs(o) for o in chains if o is not c)]
        checked = None
        for n in ast.walk(f.node):
            if isinstance(n, ast.Call) and dotted(n.func) == "check_opt" and len(n.args) >= 3 and src_of(n.args[1]) == param:
                checked = const_value(n.args[2], None)
                if checked is None and isinstance(n.args[2], ast.Name):
                    v = ctx.prog.lookup(f.module, n.args[2].id)
                    if isinstance(v, tuple) and v[0] == "value":
                        checked = const_value(v[2], None)
        ok_any = False
        for top in tops:
            lits, ends_raise = _chain_info(top, param)
            handled |= lits
            if ends_raise:
                ok_any = True
        if not tops:
            raise AnalysisError(f"{qual}: no dispatch on `{param}` found")
        if ok_any or (checked is not None and handled <= set(checked)):
            r.ok(f"{qual}[{param}]", sample={"dispatcher": qual, "parameter": param, "handled": sorted(map(str, handled)), "unknown": "raise" if ok_any else f"check_opt{tuple(checked)}"})
        else:
            r.bad(Finding(rule, qual, f"dispatch on `{param}` handles {sorted(map(str, handled))} but an unknown value neither raises nor is validated by check_opt", where=where, operand=param))
    return r


def _tests_param(test, param):
    for n in ast.walk(test):
        if isinstance(n, ast.Compare) and isinstance(n.left, ast.Name) and n.left.id == param and isinstance(n.ops[0], (ast.Eq, ast.In)):
            return True
    return False


def _elifs(n):
    out = []
    cur = n
    while len(cur.orelse) == 1 and isinstance(cur.orelse[0], ast.If):
        cur = cur.orelse[0]
        out.append(cur)
    return out


def _chain_info(top, param):
    lits = set()
    cur = top
    ends_raise = False
    while True:
        for n in ast.walk(cur.test):
            if isinstance(n, ast.Compare) and isinstance(n.left, ast.Name) and n.left.id == param:
                for c in n.comparators:
                    v = const_value(c, None)
                    if isinstance(v, (tuple, list, set)):
                        lits |= {x for x in v if isinstance(x, (str, int, float, bool, type(None)))}
                    elif (v is not None or isinstance(c, ast.Constant)) and isinstance(v, (str, int, float, bool, type(None))):
                        lits.add(v)
        if len(cur.orelse) == 1 and isinstance(cur.orelse[0], ast.If) and _tests_param(cur.orelse[0].test, param):
            cur = cur.orelse[0]
            continue
        if cur.orelse and any(isinstance(s, ast.Raise) for s in cur.orelse):
            ends_raise = True
        break
    return lits, ends_raise


# ------------------------------------------------------------- full-span sweep
def rule_full_span(ctx):
    r = RuleResult(
        "full-span",
        "TensorNetwork1DFlat.compress truncates *every* bond: in each branch on `form` the truncating sweeps "
        "(left_compress / right_compress receiving the compress options) either run over the whole chain (no "
        "start/stop) or come as a right_compress(stop=x) + left_compress(stop=x) pair meeting at the same site; a "
        "single partial truncating sweep leaves the bonds on the other side at their uncompressed size",
    )
    f = ctx.prog.func("quimb.tensor.tn1d.core", "TensorNetwork1DFlat.compress")
    where = f"{f.module.relpath}:{f.lineno}"

    def arms(stmts):
        """leaf statement lists (one per path through nested if/elif/else)"""
        out = []
        ifs = [s for s in stmts if isinstance(s, ast.If)]
        plain = [s for s in stmts if not isinstance(s, ast.If)]
        if not ifs:
            return [plain]
        for i in ifs:
            for a in arms(i.body) + (arms(i.orelse) if i.orelse else [[]]):
                out.append(plain + a)
        return out

    n = 0
    for arm in arms(f.node.body):
        sweeps = []
        for s in arm:
            for c in ast.walk(s):
                if isinstance(c, ast.Call) and isinstance(c.func, ast.Attribute) and c.func.attr in ("left_compress", "right_compress") and any(k.arg is None for k in c.keywords):
                    sweeps.append(c)
        if not sweeps:
            continue
        n += 1
        full = [c for c in sweeps if not any(k.arg in ("start", "stop") for k in c.keywords)]
        label = "; ".join(src_of(c)[:45] for c in sweeps)
        if full:
            r.ok(f"compress[{label}]", sample={"branch sweeps": label, "coverage": "whole chain"})
            continue
        stops = {}
        for c in sweeps:
            kw = {k.arg: src_of(k.value) for k in c.keywords if k.arg}
            stops.setdefault(c.func.attr, set()).add(kw.get("stop"))
        if stops.get("left_compress") and stops.get("right_compress") and stops["left_compress"] == stops["right_compress"] and None not in stops["left_compress"]:
            r.ok(f"compress[{label}]", sample={"branch sweeps": label, "coverage": "two partial sweeps meeting at the same site"})
        else:
            r.bad(Finding("full-span", "TensorNetwork1DFlat.compress",
                          f"a branch truncates only part of the chain ({label}): bonds outside that range keep their uncompressed size, above max_bond",
                          where=where, operand=label[:60]))
    r.floor(n, 3, "branches with truncating sweeps")
    return r


def rule_centre_shift(ctx):
    r = RuleResult(
        "centre-shift",
        "TensorNetwork1DFlat.compress: on every path, the call that finally moves the orthogonality centre to the requested "
        "site (left_canonize(stop=x) moves it rightwards from the left end, right_canonize(stop=x) leftwards from the right "
        "end) goes in the direction away from the end at which the preceding truncating sweep stopped (right_compress stops "
        "at the left end, left_compress at the right end): a shift in the other direction is a no-op and leaves the centre, "
        "and all tensors beyond `x`, in the wrong gauge",
    )
    f = ctx.prog.func("quimb.tensor.tn1d.core", "TensorNetwork1DFlat.compress")
    where = f"{f.module.relpath}:{f.lineno}"

    def paths(stmts):
        seqs = [[]]
        for st in stmts:
            if isinstance(st, ast.If):
                subs = paths(st.body) + (paths(st.orelse) if st.orelse else [[]])
                seqs = [a + b for a in seqs for b in subs]
            else:
                seqs = [a + [st] for a in seqs]
            if len(seqs) > 64:
                seqs = seqs[:64]
        return seqs

    END_AFTER = {"right_compress": "left", "left_compress": "right"}
    MOVES_FROM = {"left_canonize": "left", "right_canonize": "right"}
    n = 0
    seen = set()
    for seq in paths(f.node.body):
        calls = []
        for st in seq:
            for c in ast.walk(st):
                if isinstance(c, ast.Call) and isinstance(c.func, ast.Attribute) and isinstance(c.func.value, ast.Name) and c.func.value.id == "self":
                    calls.append(c)
        calls.sort(key=lambda c: (c.lineno, c.col_offset))
        end = None
        for c in calls:
            name = c.func.attr
            if name in END_AFTER and any(k.arg is None for k in c.keywords) and not any(k.arg in ("start", "stop") for k in c.keywords):
                end = (END_AFTER[name], c)
            elif name in MOVES_FROM and any(k.arg == "stop" for k in c.keywords) and end is not None:
                key = (end[1].lineno, c.lineno)
                if key in seen:
                    continue
                seen.add(key)
                n += 1
                label = f"{end[1].func.attr} -> {name}(stop={src_of(next(k.value for k in c.keywords if k.arg == 'stop'))})"
                if MOVES_FROM[name] == end[0]:
                    r.ok(f"compress[{label}]", sample={"path": label, "centre after sweep": f"{end[0]} end", "shift starts from": f"{MOVES_FROM[name]} end"})
                else:
                    r.bad(Finding("centre-shift", "TensorNetwork1DFlat.compress",
                                  f"after {end[1].func.attr} the centre is at the {end[0]} end, but {name}(stop=...) (line {c.lineno}) shifts from the {MOVES_FROM[name]} end: "
                                  "it does nothing, and the promised canonical form is not reached", where=f"{f.module.relpath}:{c.lineno}", operand=label))
                end = None
    r.floor(n, 2, "sweep-then-shift sequences")
    return r


# --------------------------------------------------------- dense-linop-agree
def rule_dense_linop_agree(ctx):
    r = RuleResult(
        "dense-linop-agree",
        "DMRG builds the effective operators either densely (to_dense(rows, cols)) or matrix-free "
        "(TNLinearOperator(left_inds=rows, right_inds=cols)): inside one function both forms must use the same "
        "row and column index lists, otherwise the matrix-free path solves for the transposed operator (which "
        "only differs for complex Hermitian Hamiltonians)",
    )
    m = ctx.prog.module("quimb.tensor.tn1d.dmrg")
    n = 0
    for f in m.all_functions:
        if isinstance(f.node, ast.Lambda) or f.parent is not None:
            continue
        dense = []
        linop = []
        dicts = {}
        for x in ast.walk(f.node):
            if isinstance(x, ast.Assign) and isinstance(x.targets[0], ast.Name) and isinstance(x.value, ast.Dict):
                dicts[x.targets[0].id] = {const_value(k, None): src_of(v) for k, v in zip(x.value.keys, x.value.values)}
        for c in ast.walk(f.node):
            if isinstance(c, ast.Call) and isinstance(c.func, ast.Attribute) and c.func.attr == "to_dense" and len(c.args) == 2:
                dense.append((src_of(c.args[0]), src_of(c.args[1]), c.lineno))
            if isinstance(c, ast.Call) and dotted(c.func) == "TNLinearOperator":
                kw = {k.arg: src_of(k.value) for k in c.keywords if k.arg}
                for k in c.keywords:
                    if k.arg is None and src_of(k.value) in dicts:
                        kw.update(dicts[src_of(k.value)])
                if len(c.args) >= 3:
                    kw.setdefault("left_inds", src_of(c.args[1]))
                    kw.setdefault("right_inds", src_of(c.args[2]))
                if "left_inds" in kw and "right_inds" in kw:
                    linop.append((kw["left_inds"], kw["right_inds"], c.lineno))
        if not dense or not linop:
            continue
        n += 1
        pairs = {(a, b) for a, b, _ in dense} | {(a, b) for a, b, _ in linop}
        if len(pairs) == 1:
            r.ok(f.qualname, sample={"function": f.qualname, "rows, cols": list(pairs)[0], "dense sites": len(dense), "matrix-free sites": len(linop)})
        else:
            d0, l0 = dense[0], next((x for x in linop if (x[0], x[1]) != (dense[0][0], dense[0][1])), linop[0])
            r.bad(Finding("dense-linop-agree", f.qualname,
                          f"dense form uses (rows, cols) = ({d0[0]}, {d0[1]}) (line {d0[2]}) but the matrix-free form uses ({l0[0]}, {l0[1]}) (line {l0[2]})",
                          where=f"{m.relpath}:{f.lineno}"))
    r.floor(n, 1, "functions building both dense and matrix-free effective operators")
    return r


def rule_fill_fn_siblings(ctx):
    r = RuleResult(
        "fill-fn-siblings",
        "MatrixProductState.from_fill_fn and MatrixProductOperator.from_fill_fn build an open chain over the *present* sites the same way: "
        "the tests that decide whether a tensor gets a left / right bond are structurally identical in the two (position in the list of "
        "present sites against the number of present sites) — a sibling that compares with the total length L leaves a dangling bond "
        "whenever only a subset of sites is built",
    )
    CORE1D = "quimb.tensor.tn1d.core"
    guards = {}
    for qual in ("MatrixProductState.from_fill_fn", "MatrixProductOperator.from_fill_fn"):
        f = ctx.prog.func(CORE1D, qual)
        if f is None:
            raise AnalysisError(f"fill-fn-siblings: {qual} not found")
        gs = []
        for st in ast.walk(f.node):
            if isinstance(st, ast.If) and any(isinstance(c, ast.Call) and isinstance(c.func, ast.Attribute) and c.func.attr == "append" and c.args
                                              and isinstance(c.args[0], ast.Subscript) for b in st.body for c in ast.walk(b)) \
                    and not any(isinstance(x, ast.If) for b in st.body for x in ast.walk(b)):
                gs.append(st.test)
        guards[qual] = (f, gs)
    (fa, ga), (fb, gb) = guards["MatrixProductState.from_fill_fn"], guards["MatrixProductOperator.from_fill_fn"]
    if len(ga) < 2 or len(gb) < 2:
        raise AnalysisError("fill-fn-siblings: bond guards not found in both from_fill_fn constructors")
    def norm(t, f):
        """structure of the test with the function's own locals abstracted (parameters keep their names)"""
        import copy as _copy
        t2 = _copy.deepcopy(t)
        order = {}
        for y in ast.walk(t2):
            if isinstance(y, ast.Name) and y.id not in f.params:
                y.id = order.setdefault(y.id, f"v{len(order)}")
        return ast.dump(t2)

    da, db = sorted(norm(t, fa) for t in ga), sorted(norm(t, fb) for t in gb)
    if da == db:
        r.ok("from_fill_fn[MPS/MPO]", sample={"bond guards": [src_of(t) for t in ga]})
    else:
        odd = next((t for t in gb if norm(t, fb) not in da), gb[0])
        r.bad(Finding("fill-fn-siblings", "MatrixProductOperator.from_fill_fn",
                      f"decides a bond with `{src_of(odd)}` while the MPS constructor uses {[src_of(t) for t in ga]}: with a subset of sites the chain is not closed "
                      "at the last present site", where=f"{fb.module.relpath}:{odd.lineno}", operand="bond-guard"))
    return r


def rule_length_delivered(ctx):
    r = RuleResult(
        "length-delivered",
        "a generator of tensor_builder.py that accepts both the total length `L` and a subset `sites` hands `L` to the MPS / MPO constructor "
        "it calls — by keyword, positionally, or through the option dict it expands into the call — also on the `sites` path: otherwise "
        "the result's length is inferred from the sites present and the requested L is silently lost",
    )
    m = ctx.prog.modules.get("quimb.tensor.tensor_builder")
    if m is None:
        raise AnalysisError("length-delivered: quimb.tensor.tensor_builder not found")
    CTORS = {"MatrixProductState", "MatrixProductOperator", "from_fill_fn", "from_dense"}
    n = 0
    for f in m.all_functions:
        if f.parent is not None or f.is_alias or isinstance(f.node, ast.Lambda) or not {"L", "sites"} <= set(f.params):
            continue
        calls = [c for c in ast.walk(f.node) if isinstance(c, ast.Call) and (dotted(c.func) or "").split(".")[-1] in CTORS]
        if not calls:
            continue
        for c in calls:
            n += 1
            q = f"{f.qualname}->{(dotted(c.func) or '').split('.')[-1]}"
            ok = any(kw.arg == "L" for kw in c.keywords) or any(isinstance(a, ast.Name) and a.id == "L" for a in c.args)
            if not ok:
                for kw in c.keywords:
                    if kw.arg is None and isinstance(kw.value, ast.Name):
                        d = kw.value.id
                        # the expanded dict receives "L" somewhere: d["L"] = ..., d.setdefault("L", ...), or it is the **kwargs the caller fills
                        stores = any(isinstance(a, ast.Assign) and any(isinstance(t, ast.Subscript) and isinstance(t.value, ast.Name) and t.value.id == d and const_value(t.slice, None) == "L"
                                                                         for t in a.targets) for a in ast.walk(f.node)) \
                            or any(isinstance(x, ast.Call) and isinstance(x.func, ast.Attribute) and x.func.attr == "setdefault" and isinstance(x.func.value, ast.Name) and x.func.value.id == d
                                   and x.args and const_value(x.args[0], None) == "L" for x in ast.walk(f.node))
                        if stores:
                            ok = True
            if ok:
                r.ok(q, sample={"generator": f.qualname, "constructor": src_of(c.func), "L": "delivered"})
            else:
                r.bad(Finding("length-delivered", f.qualname, f"`{src_of(c)[:60]}` builds the result without the requested `L`: with `sites` given the length is inferred "
                                                             "from the sites present", where=f"{m.relpath}:{c.lineno}", operand="L"))
    r.floor(n, 1, "constructor calls in generators accepting L and sites")
    return r


def rule_ctor_length_siblings(ctx):
    r = RuleResult(
        "ctor-length-siblings",
        "the MPS and the MPO constructor work out the total length the same way (argument, else number of arrays, else largest site + 1) and "
        "both store *that* value as self._L: a sibling that stores something else (the number of arrays given) loses the requested length "
        "whenever only a subset of sites is built",
    )
    CORE1D = "quimb.tensor.tn1d.core"
    vals = {}
    for cname in ("MatrixProductState", "MatrixProductOperator"):
        f = ctx.prog.func(CORE1D, f"{cname}.__init__")
        if f is None:
            raise AnalysisError(f"ctor-length-siblings: {cname}.__init__ not found")
        st = [a for a in ast.walk(f.node) if isinstance(a, ast.Assign) and any(isinstance(t, ast.Attribute) and t.attr == "_L" for t in a.targets)]
        if not st:
            raise AnalysisError(f"ctor-length-siblings: {cname}.__init__ no longer stores self._L")
        vals[cname] = (f, st[-1])
    (fa, a), (fb, b) = vals["MatrixProductState"], vals["MatrixProductOperator"]

    def norm(e, f):
        import copy as _copy
        e2 = _copy.deepcopy(e)
        order = {}
        for y in ast.walk(e2):
            if isinstance(y, ast.Name) and y.id not in f.params and not any(isinstance(c, ast.Call) and c.func is y for c in ast.walk(e2)):
                y.id = order.setdefault(y.id, f"v{len(order)}")
        return ast.dump(e2)

    if norm(a.value, fa) == norm(b.value, fb):
        r.ok("MatrixProductState/MatrixProductOperator.__init__", sample={"self._L": src_of(a.value)})
    else:
        # the odd one out is the one that does not store its length parameter
        odd, f_odd, name = (a, fa, "MatrixProductState") if not (isinstance(a.value, ast.Name) and a.value.id in fa.params) else (b, fb, "MatrixProductOperator")
        r.bad(Finding("ctor-length-siblings", f"{name}.__init__", f"stores `self._L = {src_of(odd.value)}` while its sibling stores `{src_of((b if odd is a else a).value)}`: the length worked out "
                                                                   "from `L` / `sites` is lost", where=f"{f_odd.module.relpath}:{odd.lineno}", operand="_L"))
    return r


def rule_transpose_order_domain(ctx):
    r = RuleResult(
        "transpose-order-domain",
        "`transpose(a, axes)` wants one entry per axis of the *result*, in the result's order (entry k names the input axis that becomes "
        "axis k). In the MPS / MPO constructors the result layout is the local that is assigned string constants per branch (`'lrp'`, "
        "`'lrud'` ...) and the input layout is the `shape` parameter: an axes list written as a comprehension has to enumerate the result "
        "layout (following the iteration source through nested comprehensions) — enumerating the given layout yields the inverse permutation, "
        "which only differs for layouts that are not self-inverse (three or more axes, cyclically shifted)",
    )
    n = 0
    mod = ctx.prog.modules.get("quimb.tensor.tn1d.core")
    for f in mod.all_functions:
        if f.is_alias or isinstance(f.node, ast.Lambda) or f.parent is not None:
            continue
        ldefs = {}
        for a in ast.walk(f.node):
            if isinstance(a, ast.Assign) and len(a.targets) == 1 and isinstance(a.targets[0], ast.Name):
                ldefs.setdefault(a.targets[0].id, []).append(a.value)

        def source(e, depth=0):
            """'given' / 'result' / None for the sequence whose order an expression follows."""
            if depth > 4:
                return None
            if isinstance(e, (ast.ListComp, ast.GeneratorExp)) and len(e.generators) == 1:
                return source(e.generators[0].iter, depth + 1)
            if isinstance(e, ast.Call) and isinstance(e.func, ast.Name) and e.func.id in ("list", "tuple") and e.args:
                return source(e.args[0], depth + 1)
            if isinstance(e, ast.Name):
                if e.id in f.params:
                    return "given"
                ds = ldefs.get(e.id, [])
                if ds and all(isinstance(d, ast.Constant) and isinstance(d.value, str) for d in ds):
                    return "result"
                kinds = {source(d, depth + 1) for d in ds}
                if len(kinds) == 1:
                    return kinds.pop()
            return None

        for c in ast.walk(f.node):
            if not (isinstance(c, ast.Call) and (dotted(c.func) or "").split(".")[-1] == "transpose" and len(c.args) == 2 and isinstance(c.args[1], ast.Name)):
                continue
            ds = ldefs.get(c.args[1].id, [])
            comps = [d for d in ds if isinstance(d, ast.ListComp)]
            if not comps or len(comps) != len(ds):
                continue
            kinds = {source(d) for d in comps}
            if None in kinds:
                continue
            n += 1
            q = f"{f.qualname}:transpose"
            if kinds == {"result"}:
                r.ok(q, sample={"constructor": f.qualname, "axes": src_of(comps[0])[:60], "enumerates": "the result layout"})
            else:
                r.bad(Finding("transpose-order-domain", f.qualname,
                              f"`{c.args[1].id} = {src_of(comps[0])[:60]}` enumerates the *given* layout (a parameter) and is handed to transpose() as the axes of the result: "
                              "that is the inverse of the permutation needed — wrong for every layout that is not its own inverse (e.g. shape='rlp', 'dlru')",
                              where=f"{mod.relpath}:{c.lineno}", operand="axes-from-given"))
    r.floor(n, 2, "constructor transposes with a comprehension for the axes")
    return r
